"""Build system for the simulator binaries.

Every translation unit is compiled separately; the object cache is keyed by the
content of the TU, the flags, and every file the compiler actually read (taken
from the -MD dependency file), so an edit under /repo/lib rebuilds exactly the
TUs that include the edited header and a repeat run on an unchanged tree costs
only hashing. A TU that fails to compile is a *result* (cached too), not an
error of the build."""

import concurrent.futures as cf
import hashlib
import json
import os
import subprocess
import sys
import time

VERIF = os.path.dirname(os.path.dirname(os.path.dirname(os.path.abspath(__file__))))
sys.path.insert(0, os.path.join(VERIF, 'sim', 'pool'))
import pool  # noqa: E402

REPO = os.environ.get('COVFIE_SIM_REPO', '/repo')
BUILD = os.environ.get('COVFIE_SIM_BUILD', os.path.join(VERIF, 'build'))
JOBS = int(os.environ.get('COVFIE_SIM_JOBS', '16'))

SAN = '-fsanitize=address,undefined -fno-sanitize-recover=undefined'
CONFIGS = {
    'dbg-asan': '-O1 -g %s -mbmi2' % SAN,
    'rel-asan': '-O2 -DNDEBUG %s -mbmi2' % SAN,
    'rel-plain': '-O2 -DNDEBUG -mbmi2',
    'dbg-plain': '-O0 -g -mbmi2',
    'rel-nobmi2': '-O2 -DNDEBUG',
    'val-plain': '-O1 -g -DNDEBUG -mbmi2',  # the valgrind target: optimised enough, keeps frames
    'thr-dbg': '-O1 -g -mbmi2',
    'thr-rel': '-O2 -g -DNDEBUG -mbmi2',
    'thr-nobmi2': '-O2 -g -DNDEBUG',
}
THREAD_INSTR = '-fsanitize=thread'
COMMON = '-std=c++20 -w -fno-omit-frame-pointer'


def includes():
    return ['-I%s/lib/core' % REPO, '-I%s/lib/cpu' % REPO, '-I%s/sim/pool' % VERIF]


def cuda_includes():
    return ['-I%s/lib/cuda' % REPO, '-I%s/sim/cuda_shim/include' % VERIF]


_hash_cache = {}


def file_hash(path):
    try:
        st = os.stat(path)
    except OSError:
        return 'missing'
    k = (path, st.st_mtime_ns, st.st_size)
    h = _hash_cache.get(k)
    if h is None:
        with open(path, 'rb') as f:
            h = hashlib.sha256(f.read()).hexdigest()
        _hash_cache[k] = h
    return h


def parse_deps(dfile):
    try:
        txt = open(dfile).read()
    except OSError:
        return None
    txt = txt.replace('\\\n', ' ')
    if ':' not in txt:
        return None
    deps = txt.split(':', 1)[1].split()
    # system headers do not change inside this sandbox; keep repo and harness files only
    return sorted(d for d in deps if d.startswith(REPO) or d.startswith(VERIF))


def write_if_changed(path, content):
    try:
        if open(path).read() == content:
            return
    except OSError:
        pass
    os.makedirs(os.path.dirname(path), exist_ok=True)
    with open(path, 'w') as f:
        f.write(content)


class TU:
    def __init__(self, name, src, flags, kind, stack=None, group=None, src_stack=None):
        self.name, self.src, self.flags, self.kind = name, src, flags, kind
        self.stack, self.group, self.src_stack = stack, group, src_stack
        self.obj = None
        self.ok = None
        self.err = ''

    def label(self):
        if self.group in ('conv', 'wrap'):
            return '%s:%s:%s' % (self.stack, self.group, self.src_stack)
        return '%s:%s' % (self.stack, self.group)


def compile_tu(tu, objdir):
    obj = os.path.join(objdir, tu.name + '.o')
    dfile = obj[:-2] + '.d'
    kfile = obj[:-2] + '.key'
    efile = obj[:-2] + '.err'
    tu.obj = obj
    cmd = ['g++'] + COMMON.split() + tu.flags + ['-c', tu.src, '-o', obj, '-MD', '-MF', dfile]
    base = hashlib.sha256((' '.join(cmd) + '\0' + file_hash(tu.src)).encode()).hexdigest()
    # cache hit?
    try:
        rec = json.load(open(kfile))
        if rec['base'] == base:
            deps = rec['deps']
            if all(file_hash(d) == h for d, h in deps.items()):
                tu.ok = rec['ok']
                if tu.ok and os.path.exists(obj):
                    return tu
                if not tu.ok:
                    tu.err = open(efile).read() if os.path.exists(efile) else ''
                    return tu
    except (OSError, ValueError, KeyError):
        pass
    r = subprocess.run(cmd, capture_output=True, text=True)
    tu.ok = r.returncode == 0
    tu.err = r.stderr
    deps = parse_deps(dfile) or []
    if not tu.ok:
        # a failed compile leaves no .d: depend on every repo header and the harness headers
        deps = all_header_files()
        with open(efile, 'w') as f:
            f.write(r.stderr)
    with open(kfile, 'w') as f:
        json.dump({'base': base, 'ok': tu.ok, 'deps': {d: file_hash(d) for d in deps}}, f)
    return tu


_all_headers = None


def all_header_files():
    global _all_headers
    if _all_headers is None:
        out = []
        for root in (os.path.join(REPO, 'lib'), os.path.join(VERIF, 'sim')):
            for dp, _, fns in os.walk(root):
                for fn in fns:
                    if fn.endswith(('.hpp', '.h', '.inc')):
                        out.append(os.path.join(dp, fn))
        _all_headers = sorted(out)
    return _all_headers


def gen_sources():
    gen = os.path.join(BUILD, 'gen')
    os.makedirs(gen, exist_ok=True)
    write_if_changed(os.path.join(gen, 'stacks_gen.cpp'), pool.stacks_cpp())
    for s in pool.STACKS:
        for g in ('core', 'io', 'thr', 'dmp'):
            write_if_changed(os.path.join(gen, '%s.%s.cpp' % (s.id, g)), pool.tu_source(g, s))
    for d, s in pool.conv_pairs():
        write_if_changed(os.path.join(gen, '%s.conv.%s.cpp' % (d.id, s.id)), pool.tu_source('conv', d, s))
    for o, i, k in pool.wrap_pairs():
        write_if_changed(os.path.join(gen, '%s.wrap.%s.cpp' % (o.id, i.id)), pool.tu_source('wrap', o, i))
    return gen


def stack_in_tier(s, thorough):
    return thorough or s.tier == 0


def build_world(world, config, groups, thorough=True, stacks=None, quiet=False):
    """Compile and link one world binary in one configuration.

    Returns (binary path, {label: error text} of pool TUs that failed to compile)."""
    t0 = time.time()
    gen = gen_sources()
    objdir = os.path.join(BUILD, 'obj', config)
    os.makedirs(objdir, exist_ok=True)
    cflags = CONFIGS[config].split()
    threads = config.startswith('thr-')
    sanitized = 'asan' in config
    inc = includes()
    tus = []
    sel = [s for s in pool.STACKS if stack_in_tier(s, thorough) and (stacks is None or s.id in stacks)]
    selids = {s.id for s in sel}
    pool_flags = cflags + inc + ([THREAD_INSTR] if threads else [])
    for s in sel:
        for g in groups:
            if g == 'conv':
                continue
            if g == 'thr' and not s.thr:
                continue
            if s.cuda and threads:
                continue
            fl = pool_flags + (cuda_includes() if s.cuda else [])
            tus.append(TU('%s.%s' % (s.id, g), os.path.join(gen, '%s.%s.cpp' % (s.id, g)), fl, 'pool', s.id, g))
    if 'conv' in groups:
        for d, s in pool.conv_pairs():
            if d.id in selids and s.id in selids:
                fl = pool_flags + (cuda_includes() if (d.cuda or s.cuda) else [])
                tus.append(TU('%s.conv.%s' % (d.id, s.id), os.path.join(gen, '%s.conv.%s.cpp' % (d.id, s.id)), fl,
                              'pool', d.id, 'conv', s.id))
    if 'conv' in groups:
        # the wrap group rides along with conv (hist world only)
        for o, i, k in pool.wrap_pairs():
            if o.id in selids and i.id in selids:
                tus.append(TU('%s.wrap.%s' % (o.id, i.id), os.path.join(gen, '%s.wrap.%s.cpp' % (o.id, i.id)), pool_flags,
                              'pool', o.id, 'wrap', i.id))
    if world == 'golden':
        # integer-storage readers of the golden files: optional, like a pool TU (a compile failure is a result)
        tus.append(TU('golden_int.twins', os.path.join(VERIF, 'sim', 'worlds', 'golden_int.cpp'), pool_flags, 'pool',
                      'golden_int', 'twins'))
    # harness objects (never thread-instrumented)
    hflags = cflags + inc + ['-DSIM_HAVE_CUDA_SHIM'] + cuda_includes()
    sim = os.path.join(VERIF, 'sim')
    harness = [('stacks_gen', os.path.join(gen, 'stacks_gen.cpp')),
               ('sim_alloc', os.path.join(sim, 'seams', 'sim_alloc.cpp')),
               ('traps', os.path.join(sim, 'seams', 'traps.cpp')),
               ('sim_cuda', os.path.join(sim, 'cuda_shim', 'sim_cuda.cpp')),
               ('world_' + world, os.path.join(sim, 'worlds', world + '.cpp'))]
    if threads:
        harness.append(('simtsan_rt', os.path.join(sim, 'thr', 'simtsan_rt.cpp')))
    for n, src in harness:
        tus.append(TU('h.' + n, src, hflags, 'harness'))
    with cf.ThreadPoolExecutor(JOBS) as ex:
        list(ex.map(lambda t: compile_tu(t, objdir), tus))
    failed = {}
    objs = []
    for t in tus:
        if t.ok:
            objs.append(t.obj)
        elif t.kind == 'harness':
            sys.stderr.write(t.err)
            raise SystemExit('harness TU %s failed to compile in %s' % (t.name, config))
        else:
            failed[t.label()] = t.err
    bindir = os.path.join(BUILD, 'bin', config)
    os.makedirs(bindir, exist_ok=True)
    exe = os.path.join(bindir, world)
    lkey = hashlib.sha256('\0'.join([o + ':' + file_hash(o) for o in sorted(objs)] + [config, file_hash(__file__)]).encode()).hexdigest()
    lfile = exe + '.lkey'
    try:
        uptodate = open(lfile).read() == lkey and os.path.exists(exe)
    except OSError:
        uptodate = False
    if not uptodate:
        rsp = exe + '.rsp'
        with open(rsp, 'w') as f:
            f.write('\n'.join(objs))
        lflags = []
        if sanitized:
            lflags += SAN.split()
        if threads:
            lflags += ['-Wl,--wrap=pthread_mutex_lock', '-Wl,--wrap=pthread_mutex_unlock',
                       '-Wl,--wrap=pthread_mutex_trylock', '-Wl,--wrap=__cxa_guard_acquire',
                       '-Wl,--wrap=__cxa_guard_release', '-Wl,--wrap=__cxa_guard_abort', '-Wl,--wrap=pthread_once',
                       '-Wl,--wrap=pthread_rwlock_rdlock', '-Wl,--wrap=pthread_rwlock_wrlock',
                       '-Wl,--wrap=pthread_rwlock_unlock', '-Wl,--wrap=pthread_rwlock_tryrdlock',
                       '-Wl,--wrap=pthread_rwlock_trywrlock', '-Wl,--wrap=pthread_cond_wait']
        if threads:
            lflags += ['-rdynamic', '-ldl']
        cmd = ['g++', '-o', exe, '@' + rsp] + lflags + ['-pthread']
        r = subprocess.run(cmd, capture_output=True, text=True)
        if r.returncode != 0:
            sys.stderr.write(r.stderr[-4000:])
            raise SystemExit('link of %s/%s failed' % (config, world))
        with open(lfile, 'w') as f:
            f.write(lkey)
    if not quiet:
        sys.stderr.write('[build] %s/%s: %d TUs, %d pool TUs failed to compile, %.1fs\n' % (
            config, world, len(tus), len(failed), time.time() - t0))
    return exe, failed
