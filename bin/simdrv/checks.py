"""Check logic shared by the properties: result triage, reproduction gate,
minimisation (ddmin over the operation list, then greedy simplification),
replay files, known findings, evidence."""

import hashlib
import json
import os
import re
import sys
import time

from . import build, run

VERIF = build.VERIF
EVID = os.environ.get('COVFIE_SIM_EVIDENCE', os.path.join(VERIF, 'evidence'))
REPLAYS = os.path.join(EVID, 'replays')
KNOWN = os.path.join(VERIF, 'known_findings.txt')


# --------------------------------------------------------------------------- known findings
def load_known():
    """known: property=<id> key=<key> <what fails>     (suppresses exactly that key)
       fixed: property=<id> <commit> <what failed>      (suppresses nothing)"""
    known = {}
    try:
        for line in open(KNOWN):
            line = line.strip()
            m = re.match(r'known:\s+property=(\S+)\s+key=(\S+)\s+(.*)', line)
            if m:
                known[(m.group(1), m.group(2))] = m.group(3)
    except OSError:
        pass
    return known


# --------------------------------------------------------------------------- keys
def death_key(r, stack_ids):
    st = r.get('stack', 0)
    sid = stack_ids[st - 1] if st and 0 < st <= len(stack_ids) else '-'
    opk = r.get('op_kind', 0)
    opn = run.OP_NAMES[opk] if 0 <= opk < len(run.OP_NAMES) else str(opk)
    return '%s:%s:%s' % (r['cls'], sid, opn)


def is_benign_death(r):
    """Deaths that the hist world's properties do not speak about."""
    if not r.get('death'):
        return False
    fk = r.get('fault_kind', 0)
    opk = r.get('op_kind', 0)
    opn = run.OP_NAMES[opk] if 0 <= opk < len(run.OP_NAMES) else ''
    if opn in ('Load', 'LoadAssign') and run.FAULT_NAMES[fk] in ('eof', 'iothrow', 'tear'):
        return True  # a damaged stream: C08's question
    if r['cls'] == 'death-terminate' and 'fault=1' in r.get('detail', ''):
        return True  # std::terminate caused by the injected allocation failure
    return False


# --------------------------------------------------------------------------- replay + shrink
class Replayer:
    """Executes a plan text in a fresh process of one build and returns its violation key (or None)."""

    def __init__(self, exe, disabled, stack_ids, extra_args=None, wrapper=None, env=None):
        self.exe, self.disabled, self.stack_ids = exe, disabled, stack_ids
        self.extra = extra_args or []
        self.wrapper = wrapper
        self.env = env
        self.count = 0

    def key_of(self, text):
        self.count += 1
        path = os.path.join(run.scratch_dir(), 'cand-%d-%d.replay' % (os.getpid(), self.count))
        with open(path, 'w') as f:
            f.write(text)
        try:
            res = run.run_once(self.exe, ['--replay', path, '--disable', self.disabled] + self.extra,
                               env=self.env, wrapper=self.wrapper, timeout=120)
        finally:
            os.unlink(path)
        return self.interpret(res)

    def interpret(self, res):
        for line in res['out']:
            if line.startswith('REPLAY ok'):
                return None, line
            m = re.match(r'REPLAY VIOL key=(\S+) op=(-?\d+) :: (.*)', line)
            if m:
                return m.group(1), m.group(3)
        if res['rc'] == 0:
            return None, 'no verdict line'
        prog = res['prog'] or {}
        cls, detail = run.classify_death(res['rc'], res['err'], res['out'][-20:])
        r = dict(cls=cls, detail=detail, death=True, stack=prog.get('stack', 0), op_kind=prog.get('op_kind', 0),
                 fault_kind=prog.get('fault_kind', 0))
        if is_benign_death(r):
            return None, 'benign death'
        return death_key(r, self.stack_ids), detail


def confirm(rep, rp, text, batch_key, where):
    """Gate 1: the case, replayed twice in fresh processes, must give one and the same
    violation key. That key is what gets reported; it normally equals the key seen in the
    batch, but a fresh process is the ground truth (e.g. under valgrind a batch worker may
    die later in a unit whose first bad case a replay attributes precisely)."""
    k1, d1 = rp.key_of(text)
    k2, _ = rp.key_of(text)
    if k1 is None or k1 != k2:
        rep.nonrepro.append('key=%s %s replayed as %s / %s' % (batch_key, where, k1, k2))
        return None, None
    return k1, d1


def cap_keys(rep, found, limit=None):
    """One defect usually shows up under one key per pool stack and operation. Every key is
    a violation, but gating and minimising each costs fresh-process replays: the first
    `limit` keys (spread over violation classes) are processed, the rest are listed."""
    limit = limit or int(os.environ.get('VERIF_MAX_KEYS', '24'))
    items = sorted(found.items())
    if len(items) <= limit:
        return items
    by_class = {}
    for k, v in items:
        by_class.setdefault(k.split(':')[0], []).append((k, v))
    picked = []
    while len(picked) < limit and any(by_class.values()):
        for cls in sorted(by_class):
            if by_class[cls] and len(picked) < limit:
                picked.append(by_class[cls].pop(0))
    rest = sorted(k for lst in by_class.values() for k, _ in lst)
    rep.extra_keys = rest
    print('NOTE property=%s %d further violation keys seen in this run were not replayed/minimised (first: %s)' % (
        rep.prop, len(rest), ', '.join(rest[:3])))
    return sorted(picked)


def split_plan(text):
    head, ops, tail = [], [], []
    for line in text.splitlines():
        if line.startswith('op ') or line.startswith('task ') or line.startswith('sched '):
            ops.append(line)
        elif line.startswith('expect ') or line.startswith('build '):
            continue
        else:
            head.append(line)
    return head, ops


def join_plan(head, ops):
    return '\n'.join(head + ops) + '\n'


def ddmin(head, ops, test, budget):
    n = 2
    while len(ops) >= 2 and budget[0] > 0:
        chunk = max(1, len(ops) // n)
        reduced = False
        i = 0
        while i < len(ops) and budget[0] > 0:
            cand = ops[:i] + ops[i + chunk:]
            budget[0] -= 1
            if cand and test(join_plan(head, cand)):
                ops = cand
                n = max(n - 1, 2)
                reduced = True
            else:
                i += chunk
        if not reduced:
            if chunk == 1:
                break
            n = min(len(ops), n * 2)
    return ops


def simplify_ops(head, ops, test, budget):
    """greedy per-op simplification: drop the fault, shrink extents, small value seeds"""
    changed = True
    while changed and budget[0] > 0:
        changed = False
        for i, line in enumerate(ops):
            cands = []
            if ' fault=' in line:
                cands.append(re.sub(r' fault=\S+', '', line))
                m = re.search(r' fault=(\w+)@(\d+)', line)
                if m and int(m.group(2)) > 1:
                    cands.append(re.sub(r' fault=\S+', ' fault=%s@%d' % (m.group(1), int(m.group(2)) // 2), line))
                    cands.append(re.sub(r' fault=\S+', ' fault=%s@1' % m.group(1), line))
            m = re.search(r' ext=([\dx]+)', line)
            if m:
                ext = [int(x) for x in m.group(1).split('x')]
                for k in range(len(ext)):
                    for v in (1, 2, ext[k] // 2, ext[k] - 1):
                        if 1 <= v < ext[k]:
                            e2 = list(ext)
                            e2[k] = v
                            cands.append(line.replace(' ext=' + m.group(1), ' ext=' + 'x'.join(map(str, e2))))
            m = re.search(r' vseed=(\d+)', line)
            if m and int(m.group(1)) > 9:
                cands.append(line.replace(' vseed=' + m.group(1), ' vseed=1'))
            for c in cands:
                if budget[0] <= 0:
                    break
                if c == line:
                    continue
                budget[0] -= 1
                trial = ops[:i] + [c] + ops[i + 1:]
                if test(join_plan(head, trial)):
                    ops = trial
                    changed = True
                    break
    return ops


def minimise(plan_text, replayer, key, max_replays=250, max_seconds=90):
    head, ops = split_plan(plan_text)
    budget = [max_replays]
    t_end = time.time() + max_seconds

    def test(text):
        if time.time() > t_end:
            budget[0] = 0  # out of time: keep what has been achieved
            return False
        k, _ = replayer.key_of(text)
        return k == key
    ops = ddmin(head, ops, test, budget)
    ops = simplify_ops(head, ops, test, budget)
    return join_plan(head, ops), max_replays - budget[0]


def replay_path(prop, key):
    os.makedirs(REPLAYS, exist_ok=True)
    h = hashlib.sha256(key.encode()).hexdigest()[:10]
    safe = re.sub(r'[^A-Za-z0-9_.\-]', '_', key)[:80]
    return os.path.join(REPLAYS, '%s-%s-%s.replay' % (prop, safe, h))


# --------------------------------------------------------------------------- reporting
class Report:
    def __init__(self, prop, tier, seed, level):
        self.prop, self.tier, self.seed, self.level = prop, tier, seed, level
        self.t0 = time.time()
        self.violations = {}  # key -> dict(detail, replay)
        self.known_hits = {}
        self.nonrepro = []
        self.known = load_known()
        self.coverage = {}
        self.assumptions = []
        self.extra = {}
        self.minimised = 0
        self.extra_keys = []
        self.max_minimise = int(os.environ.get('VERIF_MAX_MINIMISE', '8'))

    def add_violation(self, key, detail, replay):
        if (self.prop, key) in self.known:
            self.known_hits[key] = self.known[(self.prop, key)]
        else:
            self.violations.setdefault(key, dict(detail=detail, replay=replay))

    def finish(self):
        for key, what in sorted(self.known_hits.items()):
            print('KNOWN-FINDING: property=%s key=%s %s' % (self.prop, key, what))
        for key, v in sorted(self.violations.items()):
            print('VIOLATION property=%s replay=%s key=%s :: %s' % (self.prop, v['replay'], key, v['detail'][:300]))
        for n in self.nonrepro:
            print('NONREPRODUCIBLE property=%s %s' % (self.prop, n))
        ev = dict(property_id=self.prop, tier=self.tier, seed=self.seed, level=self.level,
                  coverage=self.coverage, assumptions=self.assumptions,
                  wall_s=round(time.time() - self.t0, 2), violations=len(self.violations))
        if self.extra_keys:
            ev['coverage']['further_violation_keys_not_replayed'] = self.extra_keys[:200]
        ev.update(self.extra)
        os.makedirs(EVID, exist_ok=True)
        with open(os.path.join(EVID, self.prop + '.json'), 'w') as f:
            json.dump(ev, f, indent=1, sort_keys=True)
            f.write('\n')
        # Confirmed violations decide. A result that could not be reproduced is a bug of the
        # machinery only when nothing else was found; next to confirmed violations it is
        # usually the same defect showing through uninitialised memory (whose content a
        # fresh process does not share) and is printed as a note.
        if self.violations:
            return 1
        if self.nonrepro:
            return 2
        return 0


COMPONENTS = {
    'real': ['every covfie header under /repo/lib (instantiated per stack in its own translation unit)',
             'libstdc++ iostreams (std::istream / std::ostream formatting and state logic)',
             'g++ 12.2 code generation in each listed build configuration'],
    'stub': ['std::streambuf underneath the streams (SimIStreamBuf / SimOStreamBuf over an in-memory disk)',
             'global operator new/delete (SimAlloc: counting, k-th allocation failure, machine-size limit, leak/double-free accounting)',
             'CUDA runtime (host-memory shim with injectable call failures; no GPU)',
             'process supervisor (worker deaths are classified results)'],
}
