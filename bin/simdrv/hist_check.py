"""Checks decided in the hist world: C05 C06 C07 C12 C15."""

import os
import sys
import time

from . import build, checks, run

pool = build.pool
STACK_IDS = [s.id for s in pool.STACKS]

# runs per build: (quick, thorough)
# bigsweep: runs per build on large fields (2^14 .. 2^23 cells), (build, quick, thorough)
BIG = {
    'C05': [('rel-plain', 96, 1500), ('dbg-asan', 16, 300), ('rel-nobmi2', 24, 300)],
    'C06': [('rel-plain', 64, 1200), ('dbg-asan', 12, 240)],
    'C07': [('rel-plain', 64, 1200), ('dbg-asan', 12, 240)],
    'C12': [('rel-plain', 48, 800), ('dbg-asan', 12, 200)],
    'C15': [('rel-plain', 32, 400), ('dbg-asan', 8, 100), ('rel-asan', 8, 100), ('dbg-plain', 8, 100)],
}
# hugesweep: constructions of 2^31 .. 2^40 cells against the 256 MiB simulated machine, per build (quick, thorough)
HUGE = {'C12': (600, 6000), 'C15': (300, 3000)}
BIG_WORKERS = 8  # a large-field run holds a few hundred MB

HIST = {
    'C12': dict(profile='ownership', groups=['core', 'io', 'conv'], compile_groups=('core',), sweep='ownsweep,allocsweep,premain,postmain',
                builds=[('rel-plain', 160000, 3000000), ('dbg-asan', 30000, 500000), ('rel-asan', 30000, 500000)]),
    'C05': dict(profile='conversion', groups=['core', 'io', 'conv'], compile_groups=('conv',), sweep='convsweep,allocsweep,premain,postmain',
                builds=[('rel-plain', 120000, 2500000), ('dbg-asan', 30000, 500000), ('rel-nobmi2', 60000, 1000000)]),
    'C06': dict(profile='roundtrip', groups=['core', 'io', 'conv'], compile_groups=('io',), sweep='rtsweep,premain,postmain',
                builds=[('rel-plain', 120000, 2500000), ('dbg-asan', 30000, 500000)]),
    'C07': dict(profile='portability', groups=['core', 'io', 'conv'], compile_groups=(),
                builds=[('rel-plain', 120000, 2500000), ('dbg-asan', 30000, 500000)]),
    'C15': dict(profile='ub', groups=['core', 'io', 'conv'], compile_groups=(), cross=True, valgrind=(2000, 20000), sweep='premain,postmain',
                builds=[('dbg-asan', 30000, 400000), ('rel-asan', 30000, 400000), ('dbg-plain', 30000, 400000),
                        ('rel-plain', 30000, 400000), ('rel-nobmi2', 30000, 400000)]),
}
LEVEL = 'exploration'


def build_all(prop, thorough):
    cfg = HIST[prop]
    exes = {}
    failed_union = {}
    for b, _, _ in cfg['builds']:
        exe, failed = build.build_world('hist', b, cfg['groups'], thorough=thorough)
        exes[b] = exe
        for k, v in failed.items():
            failed_union.setdefault(k, (b, v))
    return exes, failed_union


def workers_for(b):
    return 8 if 'asan' in b else 16


def check(prop, tier, seed):
    cfg = HIST[prop]
    thorough = tier == 'thorough'
    rep = checks.Report(prop, tier, seed, LEVEL)
    exes, failed = build_all(prop, thorough)
    disabled = ','.join(sorted(failed))
    # compile failures of operation groups this property needs are results
    for label, (b, err) in sorted(failed.items()):
        parts = label.split(':')
        group = parts[1]
        if group in cfg['compile_groups']:
            key = 'compile:' + label
            path = checks.replay_path(prop, key)
            with open(path, 'w') as f:
                f.write('# compile failure of pool TU %s in build %s\n' % (label, b))
                f.write('world compile\nlabel %s\nexpect %s\n' % (label, key))
                f.write('# first error lines:\n')
                for line in [l for l in err.splitlines() if 'error' in l][:6]:
                    f.write('#   ' + line[:400] + '\n')
            first = [l for l in err.splitlines() if 'error' in l][:1]
            rep.add_violation(key, first[0][:300] if first else 'does not compile', path)

    base_args = ['--property', prop, '--profile', cfg['profile'], '--seed', str(seed), '--tier', tier,
                 '--disable', disabled]
    total_runs = 0
    all_stats = {}
    per_build = {}
    cases = set()
    obs_by_run = {}
    viol_first = {}  # key -> (build, result)
    benign = 0
    t_run0 = time.time()
    for b, nq, nt in cfg['builds']:
        n = nt if thorough else nq
        t0 = time.time()
        results, stats = run.run_batch(exes[b], base_args, n, workers_for(b))
        dt = time.time() - t0
        per_build[b] = dict(runs=len(results), wall_s=round(dt, 2),
                            runs_per_hour=int(len(results) / dt * 3600) if dt > 0 else 0)
        total_runs += len(results)
        for k, v in stats.items():
            all_stats[k] = all_stats.get(k, 0) + v
        for r in results:
            if r['ok']:
                if r['nontrivial']:
                    cases.add(r['case'])
                obs_by_run.setdefault(r['run'], {})[b] = r['obs']
            else:
                if r.get('death'):
                    if checks.is_benign_death(r):
                        benign += 1
                        continue
                    key = checks.death_key(r, STACK_IDS)
                else:
                    key = r['key']
                viol_first.setdefault(key, (b, r))
    # systematic sweep: every extent vector up to a bound for every conversion pair (C05) /
    # every serialisable stack (C06), values still seeded
    sweep_info = None
    for sweep in (cfg.get('sweep') or '').split(','):
      if sweep:
        sargs = ['--property', prop, '--profile', sweep, '--seed', str(seed), '--tier', tier, '--disable', disabled]
        for b, _, _ in cfg['builds']:
            res = run.run_once(exes[b], sargs + ['--count-sweep'])
            n = 0
            for line in res['out']:
                if line.startswith('SWEEP '):
                    n = int(line.split()[1])
            reps = 4 if thorough and sweep in ('convsweep', 'rtsweep') else 1  # each repetition draws new values for the same structures
            t0 = time.time()
            results, stats = run.run_batch(exes[b], sargs, n * reps, workers_for(b))
            dt = time.time() - t0
            per_build[b + ' ' + sweep] = dict(runs=len(results), wall_s=round(dt, 2))
            total_runs += len(results)
            sweep_info = sweep_info or {}
            sweep_info[sweep] = dict(plans_per_pass=n, passes=reps,
                              bounds=('every sequence Construct(slot 0) + %d further operations over a 20-symbol alphabet (construct/write/copy/move '
                                      'construct, copy/move assign incl. self, destroy, default-construct, dump, load, load-assign on two slots) '
                                      'for 6 representative stacks' % (4 if thorough else 3)) if sweep == 'ownsweep' else
                              ('the failing allocation is enumerated: k = 1..40 for every conversion pair, k = 1..6 for copy construction, copy assignment, '
                               'load, load-and-assign (every stack) and construction from a moved backend (every wrap pair); each plan repeats the '
                               'operation fault-free afterwards') if sweep == 'allocsweep' else
                              ('one fixed plan per pool stack (construct, look up, copy, write, dump, load) and per conversion pair (construct, convert, look up, '
                               'convert back), executed by a static initialiser BEFORE main() in every worker process and again after main() started: no violation '
                               'then, and identical observations both times') if sweep == 'premain' else
                              ('the same fixed plans executed inside main() and again AFTER main() has returned, from the destructor of a static object that was '
                               'constructed before main(): the main thread\'s thread_local objects and later-constructed statics are gone by then') if sweep == 'postmain' else
                              'extents 1..9 (N=1), 1..6 (N=2), 1..4 (N=3), 1..3 (N=4), all combinations')
            for k, v in stats.items():
                all_stats[k] = all_stats.get(k, 0) + v
            for r in results:
                if r['ok']:
                    if r['nontrivial']:
                        cases.add(r['case'])
                else:
                    if r.get('death'):
                        if checks.is_benign_death(r):
                            continue
                        key = checks.death_key(r, STACK_IDS)
                    else:
                        key = r['key']
                    r = dict(r, sweep=sweep)
                    viol_first.setdefault(key, (b, r))
    # large fields: a few operations each on lattices of 2^14 .. 2^23 cells
    big_info = None
    obs_big = {}
    for b, nq, nt in BIG.get(prop, []):
        if b not in exes:
            continue
        n = nt if thorough else nq
        sargs = ['--property', prop, '--profile', 'bigsweep', '--seed', str(seed), '--tier', tier, '--disable', disabled]
        t0 = time.time()
        results, stats = run.run_batch(exes[b], sargs, n, BIG_WORKERS, stall_timeout=300)
        dt = time.time() - t0
        per_build[b + ' bigsweep'] = dict(runs=len(results), wall_s=round(dt, 2))
        total_runs += len(results)
        big_info = big_info or dict(runs=0, bounds='lattices of 2^14 .. 2^23 cells (at most 6.8 million stored scalars per field), extents odd / next to a '
                                    'power of two / a power of two / arbitrary; 5-9 operations per run; every conversion pair (C05), serialisable stack '
                                    '(C06, C12, C15) or reader/writer pair (C07) in turn')
        big_info['runs'] += len(results)
        for k, v in stats.items():
            all_stats[k] = all_stats.get(k, 0) + v
        for r in results:
            if r['ok']:
                if r['nontrivial']:
                    cases.add(r['case'])
                obs_big.setdefault(r['run'], {})[b] = r['obs']
            else:
                if r.get('death'):
                    if checks.is_benign_death(r):
                        continue
                    key = checks.death_key(r, STACK_IDS)
                else:
                    key = r['key']
                r = dict(r, sweep='bigsweep')
                viol_first.setdefault(key, (b, r))
    if prop in HUGE:
        nq, nt = HUGE[prop]
        sargs = ['--property', prop, '--profile', 'hugesweep', '--seed', str(seed), '--tier', tier, '--disable', disabled]
        for b, _, _ in cfg['builds']:
            t0 = time.time()
            results, stats = run.run_batch(exes[b], sargs, nt if thorough else nq, workers_for(b))
            per_build[b + ' hugesweep'] = dict(runs=len(results), wall_s=round(time.time() - t0, 2))
            total_runs += len(results)
            for k, v in stats.items():
                all_stats[k] = all_stats.get(k, 0) + v
            for r in results:
                if not r['ok']:
                    if r.get('death'):
                        if checks.is_benign_death(r):
                            continue
                        key = checks.death_key(r, STACK_IDS)
                    else:
                        key = r['key']
                    viol_first.setdefault(key, (b, dict(r, sweep='hugesweep')))
        big_info = big_info or {}
        big_info['beyond_machine_size'] = ('%d constructions per build of lattices of 2^31 .. 2^40 cells on a simulated machine that refuses requests above '
                                           '256 MiB: the constructor must throw bad_alloc or own storage for every cell it describes' % (nt if thorough else nq))
    # memcheck pass (C15): the same program space under valgrind, uninitialised-value use is
    # something ASan cannot see
    vg_runs = 0
    if cfg.get('valgrind'):
        import shutil
        vg = shutil.which('valgrind')
        if vg:
            vexe, vfailed = build.build_world('hist', 'val-plain', cfg['groups'], thorough=thorough)
            nq, nt = cfg['valgrind']
            t0 = time.time()
            results, stats = run.run_batch(vexe, base_args, nt if thorough else nq, 16,
                                           wrapper=[vg, '-q', '--error-exitcode=0'], stall_timeout=600)
            dt = time.time() - t0
            per_build['val-plain+valgrind'] = dict(runs=len(results), wall_s=round(dt, 2),
                                                   runs_per_hour=int(len(results) / dt * 3600) if dt > 0 else 0)
            vg_runs = len(results)
            total_runs += len(results)
            exes['val-plain+valgrind'] = vexe
            for r in results:
                if not r['ok']:
                    key = checks.death_key(r, STACK_IDS) if r.get('death') else r['key']
                    if r.get('death') and checks.is_benign_death(r):
                        continue
                    viol_first.setdefault(key, ('val-plain+valgrind', r))
    # cross-build comparison of the observation logs (C15)
    diverged = 0
    if cfg.get('cross'):
        for i, d in sorted(obs_by_run.items()):
            if len(d) == len(cfg['builds']) and len(set(d.values())) > 1:
                diverged += 1
                key = 'build-diverge:-:run'
                if key not in viol_first:
                    viol_first[key] = (cfg['builds'][0][0], dict(run=i, seed=0, ok=False, death=False, key=key, op=-1,
                                                                  detail='observation logs differ between builds: %s' % d))
        for i, d in sorted(obs_big.items()):
            if len(d) >= 2 and len(set(d.values())) > 1:
                diverged += 1
                key = 'build-diverge:-:bigrun'
                if key not in viol_first:
                    viol_first[key] = (cfg['builds'][0][0], dict(run=i, seed=0, ok=False, death=False, key=key, op=-1, sweep='bigsweep',
                                                                  detail='observation logs of a large-field run differ between builds: %s' % d))
    # reproduce, minimise, write replay files
    for key, (b, r) in checks.cap_keys(rep, viol_first):
        handle_violation(rep, prop, cfg, exes, disabled, seed, tier, key, b, r)
    golden = None
    if prop == 'C07':
        golden = check_golden(rep, seed, tier, thorough, 'C07', 0)
    elif prop == 'C12':
        golden = check_golden(rep, seed, tier, thorough, 'C12', 1)

    samples = []
    b0 = cfg['builds'][0][0]
    for i in range(3):
        res = run.run_once(exes[b0], base_args + ['--emit-plan', str(i)])
        ops = [l for l in res['out'] if l.startswith('op ') or l.startswith('run ')]
        samples.append(dict(run=i, plan=ops[:60]))
    fired = {k[6:]: v for k, v in all_stats.items() if k.startswith('fired.')}
    probes = {k[6:]: v for k, v in all_stats.items() if k.startswith('probe.')}
    opcounts = {k[3:]: v for k, v in all_stats.items() if k.startswith('op.')}
    other = {k: v for k, v in all_stats.items() if not k.startswith(('fired.', 'probe.', 'op.', 'conv.', 'xload.'))}
    convs = {k[5:]: v for k, v in all_stats.items() if k.startswith('conv.')}
    xloads = {k[6:]: v for k, v in all_stats.items() if k.startswith('xload.')}
    wall = time.time() - t_run0
    rep.coverage = dict(
        evaluations=total_runs,
        distinct_nontrivial=len(cases),
        rule=('one evaluation = one seeded history (8-%d operations over 3-6 field slots and 3 simulated files) executed '
              'against the real library and the N-d array model; distinct = distinct hash of (operation-kind/fault-kind '
              'sequence, final model state of every live slot); non-trivial = at least one state-changing operation '
              'succeeded and at least one slot-vs-model comparison ran' % (120 if thorough else 40)),
        samples=samples,
        runs_per_hour=int(total_runs / wall * 3600) if wall > 0 else 0,
        simulated_time='logical steps (operations executed): %d; covfie has no clock, so there is no simulated wall time' % all_stats.get('steps', 0),
        per_build=per_build,
        faults_fired=fired,
        reach_probes=probes,
        operations_executed=opcounts,
        conversions_exercised=convs,
        cross_type_loads=xloads,
        counters=other,
        benign_worker_deaths=benign,
        pool_tus_not_compiling=sorted(failed),
        cross_build_runs_compared=sum(1 for d in obs_by_run.values() if len(d) == len(cfg['builds'])) if cfg.get('cross') else 0,
        cross_build_divergences=diverged,
        components=checks.COMPONENTS,
        exhaustive=False,
    )
    if golden is not None:
        rep.coverage['golden_files' if prop == 'C07' else 'golden_files_integer_readers'] = golden
    if sweep_info is not None:
        rep.coverage['systematic_sweep'] = sweep_info
    if big_info is not None:
        rep.coverage['large_field_runs'] = big_info
    zero = [k for k in ('self_copy_assign_nonempty', 'assign_into_moved_from') if prop == 'C12' and not probes.get(k)]
    if zero:
        rep.coverage['warnings'] = ['reach probe stayed at zero: ' + ', '.join(zero)]
    rep.assumptions = [
        'seeded search samples histories; a clean batch is evidence, not proof',
        'the array model and the format model in /verif/sim/model are the oracle',
        'states after a failed assignment, moved-from and default-constructed fields are never compared, only destroyed or overwritten',
    ]
    return rep.finish()


def handle_violation(rep, prop, cfg, exes, disabled, seed, tier, key, b, r):
    exe = exes[b]
    base_args = ['--property', prop, '--profile', r.get('sweep') or cfg['profile'], '--seed', str(seed),
                 '--tier', tier, '--disable', disabled]
    if key.startswith('build-diverge'):
        path = checks.replay_path(prop, key)
        res = run.run_once(exe, base_args + ['--emit-plan', str(r['run'])])
        with open(path, 'w') as f:
            f.write('\n'.join(res['out']) + '\nexpect %s\nbuild all\n' % key)
        rep.add_violation(key, r['detail'], path)
        return
    res = run.run_once(exe, base_args + ['--emit-plan', str(r['run'])])
    plan = '\n'.join(res['out']) + '\n'
    wrapper = None
    if b.endswith('+valgrind'):
        import shutil
        wrapper = [shutil.which('valgrind'), '-q', '--error-exitcode=0']
    rp = checks.Replayer(exe, disabled, STACK_IDS, wrapper=wrapper)
    # gate 1: the plan of that seed, replayed twice in fresh processes, gives the same key
    if r.get('death') and r.get('proc_start', r['run']) < r['run']:
        k1, _ = rp.key_of(plan)
        if k1 is None:
            # The run the worker died in is clean on its own: the damage was done by an
            # earlier run of the same worker process (only possible in the builds without
            # ASan, which would have stopped at the source). Reproduce the process as it was.
            return handle_cross_run(rep, prop, exe, base_args, b, r)
    key, d1 = checks.confirm(rep, rp, plan, key, 'build=%s run=%d' % (b, r['run']))
    if key is None:
        return
    if (prop, key) in rep.known or key in rep.violations or key.startswith('premain') or key.startswith('postmain') or r.get('sweep') == 'postmain':
        small, used = plan, 0  # (a pre-main plan is fixed: there is nothing to minimise)
    elif rep.minimised >= rep.max_minimise:
        small, used = plan, 0  # many keys from one defect: the first few are minimised, the rest replay as found
    else:
        rep.minimised += 1
        small, used = checks.minimise(plan, rp, key)
    # gate 2: the minimised file reproduces in a fresh process
    k3, d3 = rp.key_of(small)
    if k3 != key:
        rep.nonrepro.append('key=%s minimised plan replayed as %s' % (key, k3))
        return
    path = checks.replay_path(prop, key)
    with open(path, 'w') as f:
        f.write(small)
        f.write('build %s\nexpect %s\n' % (b.replace('+valgrind', ' valgrind'), key))
        f.write('# found by seed %d run %d; minimised with %d replays; detail: %s\n' % (seed, r['run'], used, (d3 or '')[:300]))
    rep.add_violation(key, (d3 or r.get('detail', ''))[:300], path)


def check_golden(rep, seed, tier, thorough, prop, ints):
    # ints: 0 = pool readers of the golden files (C07); 1 = integer-storage readers only (C12)
    """Durable files written by the pinned revision, read by the current tree."""
    import hashlib
    import re
    import subprocess
    gdir = os.path.join(checks.VERIF, 'golden')
    # the committed files must be the ones that were generated
    bad = []
    for line in open(os.path.join(gdir, 'SHA256SUMS')):
        h, name = line.split()
        name = name.lstrip('*')
        try:
            if hashlib.sha256(open(os.path.join(gdir, name), 'rb').read()).hexdigest() != h:
                bad.append(name)
        except OSError:
            bad.append(name)
    if bad:
        rep.nonrepro.append('golden files altered or missing: %s' % ', '.join(bad[:5]))
        return dict(error='golden set damaged')
    out = dict(files=0, loads=0, redumps=0, integer_reader_loads=0, integer_reader_cells=0, integer_reader_files_out_of_range=0,
               integer_readers_compile=True, builds=[])
    for b in ('rel-plain', 'dbg-asan'):
        exe, failed = build.build_world('golden', b, ['core', 'io'], thorough=thorough)
        if 'golden_int:twins' in failed:
            out['integer_readers_compile'] = False
        p = subprocess.run([exe, '--verify', gdir, '--seed', str(seed), '--tier', tier, '--ints', str(ints)], capture_output=True, text=True,
                           errors='replace')
        files = set()
        done = False
        for line in p.stdout.splitlines():
            m = re.match(r'GOLD (\S+) VIOL key=(\S+) :: (.*)', line)
            if m:
                key = m.group(2)
                path = checks.replay_path(prop, key)
                with open(path, 'w') as f:
                    f.write('world golden\nfile %s\nbuild %s\nexpect %s\n# %s\n' % (m.group(1), b, key, m.group(3)))
                rep.add_violation(key, '%s: %s' % (m.group(1), m.group(3)), path)
            m = re.match(r'GOLD (\S+) ok', line)
            if m:
                files.add(m.group(1))
            if line.startswith('STATS '):
                import json
                st = json.loads(line[6:])
                out['loads'] += st.get('golden_loads', 0)
                out['redumps'] += st.get('golden_redumps', 0)
                out['integer_reader_loads'] += st.get('golden_int_loads', 0)
                out['integer_reader_cells'] += st.get('golden_int_cells', 0)
                out['integer_reader_files_out_of_range'] += st.get('golden_int_out_of_range', 0)
            if line.startswith('DONE'):
                done = True
        if not done:
            cls, detail = run.classify_death(p.returncode, p.stderr, p.stdout.splitlines()[-20:])
            key = '%s:-:golden' % cls
            path = checks.replay_path(prop, key)
            with open(path, 'w') as f:
                f.write('world golden\nbuild %s\nexpect %s\n# %s\n' % (b, key, detail))
            rep.add_violation(key, 'golden verification died: ' + detail, path)
        out['files'] = max(out['files'], len(files))
        out['builds'].append(b)
    return out


def range_key(exe, base_args, a, b_excl):
    """Execute runs [a, b) in one fresh worker process; -> (death class or None, detail)."""
    res = run.run_once(exe, base_args + ['--runs', '%d:%d' % (a, b_excl)], timeout=600)
    if any(l.startswith('DONE') for l in res['out']) and res['rc'] == 0:
        return None, 'range completed'
    if any(l.startswith('RESTART') for l in res['out']) and res['rc'] == 0:
        viol = [l for l in res['out'] if ' VIOL ' in l]
        return None, 'range stopped at a reported violation: %s' % (viol[-1][:200] if viol else '')
    prog = res['prog'] or {}
    cls, detail = run.classify_death(res['rc'], res['err'], res['out'][-20:])
    opk = prog.get('op_kind', 0)
    opn = run.OP_NAMES[opk] if 0 <= opk < len(run.OP_NAMES) else str(opk)
    return '%s:cross-run:%s' % (cls, opn), detail


def handle_cross_run(rep, prop, exe, base_args, b, r):
    a, last = r['proc_start'], r['run']
    k1, d1 = range_key(exe, base_args, a, last + 1)
    k2, _ = range_key(exe, base_args, a, last + 1)
    if k1 is None or k1 != k2:
        rep.nonrepro.append('worker death at run %d (process started at run %d) in build %s: neither the run alone nor the '
                            'process range reproduces it (%s / %s)' % (last, a, b, k1, k2))
        return
    # shorten the range from the front while the same death persists
    lo = a
    step = max(1, (last - a) // 2)
    budget = 24
    while step >= 1 and budget > 0:
        cand = lo + step
        if cand <= last:
            budget -= 1
            kk, _ = range_key(exe, base_args, cand, last + 1)
            if kk == k1:
                lo = cand
                continue
        step //= 2
    path = checks.replay_path(prop, k1)
    with open(path, 'w') as f:
        f.write('# covfie-sim replay v1\nworld hist-range\n')
        f.write('range args=%s runs=%d:%d\n' % ('|'.join(base_args), lo, last + 1))
        f.write('build %s\nexpect %s\n' % (b, k1))
        f.write('# a worker process executing these consecutive runs dies in the last one, which is clean on its own: an earlier run of the range damaged the heap. %s\n' % (d1 or '')[:300])
    rep.add_violation(k1, 'runs %d..%d in one process: %s' % (lo, last, (d1 or '')[:200]), path)
