"""C08: fault enumeration in the iofault world."""

import os
import re
import shutil
import sys
import time

from . import build, checks, run

pool = build.pool
STACK_IDS = [s.id for s in pool.STACKS]
KIND_NAMES = ['trunc', 'tear', 'iothrow', 'word', 'pair', 'prestate']
PROP = 'C08'
# (build, dumps per stack quick, thorough)
BUILDS = [('rel-plain', 3, 12), ('dbg-asan', 2, 6), ('rel-asan', 1, 6)]
BIGDUMPS = {'rel-plain': (6, 40), 'dbg-asan': (2, 12), 'rel-asan': (2, 12)}  # large dumps (1-16 MiB), sampled fault points
VALGRIND = ('val-plain', 1, 3)  # under valgrind memcheck, small extents


def prebuild():
    for b, _, _ in BUILDS + [VALGRIND]:
        build.build_world('iofault', b, ['core', 'io'], thorough=False)


def death_key(r):
    st = r.get('stack', 0)
    sid = STACK_IDS[st - 1] if st and 0 < st <= len(STACK_IDS) else '-'
    k = r.get('op_kind', 0)
    return '%s:%s:%s' % (r['cls'], sid, KIND_NAMES[k] if 0 <= k < len(KIND_NAMES) else str(k))


class CaseReplayer(checks.Replayer):
    def interpret(self, res):
        for line in res['out']:
            if line.startswith('REPLAY ok'):
                return None, line
            m = re.match(r'REPLAY VIOL key=(\S+) op=(-?\d+) :: (.*)', line)
            if m:
                return m.group(1), m.group(3)
        if res['rc'] == 0:
            return None, 'no verdict'
        prog = res['prog'] or {}
        cls, detail = run.classify_death(res['rc'], res['err'], res['out'][-20:])
        return death_key(dict(cls=cls, stack=prog.get('stack', 0), op_kind=prog.get('op_kind', 0))), detail


def run_units(exe, args, nunits, workers, wrapper=None, stall=300):
    """like run.run_batch but the unit of work is a UNIT line; returns (viols, deaths, stats, units)"""
    import threading
    viols, deaths, units, statsl = [], [], [], []
    lock = threading.Lock()

    def work(a, b):
        cur = a
        while cur < b:
            import tempfile
            pf = tempfile.NamedTemporaryFile(prefix='prog', dir=run.scratch_dir(), delete=False)
            pf.close()
            ef = tempfile.NamedTemporaryFile(prefix='err', dir=run.scratch_dir(), delete=False)
            import subprocess
            cmd = (wrapper or []) + [exe] + args + ['--runs', '%d:%d' % (cur, b), '--progress', pf.name]
            p = subprocess.Popen(cmd, stdout=subprocess.PIPE, stderr=ef, text=True, errors='replace')
            done = False
            tail = []
            next_u = cur
            for line in p.stdout:
                line = line.rstrip('\n')
                tail.append(line)
                if len(tail) > 20:
                    tail.pop(0)
                if line.startswith('UNIT '):
                    m = re.match(r'UNIT (\d+) stack=(\S+) kind=(\S+) cases=(\d+)', line)
                    if m:
                        with lock:
                            units.append((int(m.group(1)), m.group(2), m.group(3), int(m.group(4))))
                        next_u = int(m.group(1)) + 1
                elif line.startswith('VIOL '):
                    m = re.match(r'VIOL unit=(\d+) key=(\S+) case=(.*?) :: (.*)', line)
                    if m:
                        with lock:
                            viols.append(dict(unit=int(m.group(1)), key=m.group(2), case=m.group(3).replace('|', '\n'),
                                              detail=m.group(4)))
                elif line.startswith('STATS '):
                    import json
                    with lock:
                        statsl.append(json.loads(line[6:]))
                elif line.startswith('DONE'):
                    done = True
            p.wait()
            ef.close()
            err = open(ef.name, errors='replace').read()
            prog = run.read_progress(pf.name)
            os.unlink(pf.name)
            os.unlink(ef.name)
            if done and p.returncode == 0:
                return
            u = prog['unit'] if prog and prog['unit'] >= next_u else next_u
            cls, detail = run.classify_death(p.returncode, err, tail)
            with lock:
                deaths.append(dict(unit=u, case_index=prog['op'] if prog else 0, cls=cls, detail=detail,
                                   stack=prog['stack'] if prog else 0, op_kind=prog['op_kind'] if prog else 0,
                                   stderr=err[-4000:]))
            cur = u + 1
    chunk = (nunits + workers - 1) // workers
    ths = []
    for w in range(workers):
        a, b = w * chunk, min(nunits, (w + 1) * chunk)
        if a < b:
            th = threading.Thread(target=work, args=(a, b))
            th.start()
            ths.append(th)
    for th in ths:
        th.join()
    stats = {}
    for s in statsl:
        for k, v in s.items():
            stats[k] = stats.get(k, 0) + v
    return viols, deaths, stats, units


def check(tier, seed):
    thorough = tier == 'thorough'
    rep = checks.Report(PROP, tier, seed, 'fault_enumeration')
    t0 = time.time()
    total_cases = 0
    distinct = 0
    allstats = {}
    per_build = {}
    found = {}  # key -> (build, wrapper, case text, detail)
    vg = shutil.which('valgrind')
    plan = [(b, q, t, None) for b, q, t in BUILDS]
    if vg:
        plan.append((VALGRIND[0], VALGRIND[1], VALGRIND[2],
                     [vg, '-q', '--error-exitcode=0', '--track-origins=no', '--undef-value-errors=yes']))
    failed_all = {}
    samples = []
    for b, nq, nt, wrapper in plan:
        exe, failed = build.build_world('iofault', b, ['core', 'io'], thorough=thorough)
        failed_all.update(failed)
        disabled = ','.join(sorted(failed))
        nd = nt if thorough else nq
        args = ['--seed', str(seed), '--tier', tier, '--dumps', str(nd), '--disable', disabled]
        if wrapper:
            args.append('--small')
        else:
            args += ['--bigdumps', str(BIGDUMPS[b][1 if thorough else 0])]
        res = run.run_once(exe, args + ['--count-units'])
        nunits = 0
        for line in res['out']:
            if line.startswith('UNITS '):
                nunits = int(line.split()[1])
        tb = time.time()
        viols, deaths, stats, units = run_units(exe, args, nunits, 16 if 'asan' not in b else 8, wrapper=wrapper)
        dt = time.time() - tb
        ncases = stats.get('cases', 0)
        per_build[b + ('+valgrind' if wrapper else '')] = dict(units=len(units), cases=ncases, wall_s=round(dt, 2),
                                                               cases_per_hour=int(ncases / dt * 3600) if dt > 0 else 0,
                                                               worker_deaths=len(deaths))
        total_cases += ncases
        distinct += stats.get('distinct_cases', 0)
        for k, v in stats.items():
            allstats[k] = allstats.get(k, 0) + v
        for v in viols:
            found.setdefault(v['key'], (b, exe, disabled, wrapper, v['case'], v['detail']))
        for d in deaths:
            key = death_key(d)
            if key in found:
                continue
            r2 = run.run_once(exe, args + ['--emit-case', '%d:%d' % (d['unit'], d['case_index'])])
            text = '\n'.join(r2['out']) + '\n'
            found[key] = (b, exe, disabled, wrapper, text, d['detail'])
        if not samples and not wrapper:
            for u in (0, 3, nunits // 2):
                r2 = run.run_once(exe, args + ['--emit-case', '%d:%d' % (u, 1)])
                if r2['out']:
                    samples.append([l for l in r2['out'] if not l.startswith('#')])
    # gate + replay files
    for key, (b, exe, disabled, wrapper, text, detail) in checks.cap_keys(rep, found):
        rp = CaseReplayer(exe, disabled, STACK_IDS, wrapper=wrapper)
        key, d1 = checks.confirm(rep, rp, text, key, 'build=%s' % b)
        if key is None:
            continue
        path = checks.replay_path(PROP, key)
        with open(path, 'w') as f:
            f.write(text)
            f.write('build %s%s\nexpect %s\n# %s\n' % (b, ' valgrind' if wrapper else '', key, (d1 or detail)[:300]))
        rep.add_violation(key, (d1 or detail)[:300], path)
    for label, err in sorted(failed_all.items()):
        pass  # compile failures of io TUs are reported by C06
    wall = time.time() - t0
    rep.coverage = dict(
        evaluations=total_cases,
        distinct_nontrivial=distinct,
        rule=('for each of a seeded set of dumps (every serialisable pool stack x N dumps per build, random model state, '
              'chunk sizes, exception mask, surrounding junk) the fault space is enumerated completely: every proper prefix '
              'length (clean EOF), prefixes produced by really interrupting the writer (tear), every failing refill index, '
              'every header/footer/tag/width word x {each single-bit flip, every layer tag and footer tag, +-0x20000000, 0, ~0, '
              'both magics, other legal width, 0..16 for the width word, 8 seeded random words} - each of these met by the writer\'s own '
              'type AND by every other pool type with the same on-disk signature whose fault-free load succeeds (other interpolator, '
              'other float width), (for a few large dumps of 1-16 MiB per build the truncation points, failing refills and replacement words are sampled instead: first and last bytes, every format word and its neighbourhood, both sides of block boundaries of 2^16 scalars / 1 MiB / 2^20 scalars, seeded offsets) as is the intact dump behind a stream that is already in a failed state (failbit, badbit, eofbit and their combinations: prestate) - and every reader stack whose format signature differs (must reject the intact dump); distinct = distinct (stack, dump seed, kind, position, value, reader); every case injects a '
              'fault, so every case is non-trivial'),
        samples=samples,
        exhaustive=True,
        exhaustive_note='exhaustive per sampled dump over the listed fault kinds; the set of dumps is sampled',
        cases_per_hour=int(total_cases / wall * 3600) if wall > 0 else 0,
        per_build=per_build,
        faults_injected={k[6:]: v for k, v in allstats.items() if k.startswith('cases.')},
        rejections={k[9:]: v for k, v in allstats.items() if k.startswith('rejected.')},
        counters={k: v for k, v in allstats.items() if not k.startswith(('cases.', 'rejected.'))},
        simulated_time='logical steps = fault cases executed; no clock exists in covfie',
        valgrind_pass=bool(vg),
        components=checks.COMPONENTS,
    )
    rep.assumptions = [
        'the format model locates the header/footer/tag/width words; dumps that do not follow the grammar are skipped here (C07 reports them)',
        'stored and configuration scalars whose aligned 32-bit words equal a magic or tag word are excluded by the generator (the format is not self-delimiting)',
        'the element-count word is not altered (it is not in the property\'s list)',
        'valgrind 3.19 memcheck decides "uninitialised"; it runs on a smaller set of dumps than the native builds',
        'a hang is detected as refill-budget exhaustion (reader keeps pulling a dead stream) or by a per-case CPU-time watchdog (10 s of the worker\'s own CPU time; a spin that never touches the stream buffer again)',
    ]
    return rep.finish()
