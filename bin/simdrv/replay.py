"""bin/check replay <file>: rebuild from the current /repo, execute exactly the
recorded case in a fresh process, print the violation key it produces.
Exit 1 if the file's `expect` key is reproduced, 0 if the run is now clean,
2 if something else happens."""

import re
import shutil
import sys

from . import build, checks, run

pool = build.pool
STACK_IDS = [s.id for s in pool.STACKS]


def replay(path):
    text = open(path).read()
    world = 'hist'
    bld = None
    expect = None
    prop = '?'
    valgrind = False
    for line in text.splitlines():
        t = line.split()
        if not t:
            continue
        if t[0] == 'world':
            world = t[1]
        elif t[0] == 'build':
            bld = t[1]
            valgrind = 'valgrind' in t[2:]
        elif t[0] == 'expect':
            expect = t[1]
        m = re.search(r'property=(\S+)', line)
        if m and t[0] == 'run':
            prop = m.group(1)
    if world == 'compile':
        label = [l.split()[1] for l in text.splitlines() if l.startswith('label ')][0]
        groups = ['core', 'io', 'conv', 'thr']
        thr = label.endswith(':thr')
        exe, failed = build.build_world('threads' if thr else 'hist', 'thr-rel' if thr else 'rel-plain',
                                        ['core', 'io', 'thr'] if thr else ['core', 'io', 'conv'], thorough=True)
        if label in failed:
            print('REPLAY VIOL key=compile:%s' % label)
            sys.stdout.write('\n'.join([l for l in failed[label].splitlines() if 'error' in l][:8]) + '\n')
            return 1
        print('REPLAY ok (%s compiles)' % label)
        return 0
    if world == 'hist':
        bld = bld or 'rel-plain'
        if bld == 'all':
            from . import hist_check
            keys = {}
            for b, _, _ in hist_check.HIST['C15']['builds']:
                exe, failed = build.build_world('hist', b, ['core', 'io', 'conv'], thorough=True)
                res = run.run_once(exe, ['--replay', path, '--disable', ','.join(sorted(failed))])
                keys[b] = [l for l in res['out'] if l.startswith('REPLAY')]
            print(keys)
            same = len({str(v) for v in keys.values()}) == 1
            print('REPLAY ok' if same else 'REPLAY VIOL key=build-diverge:-:run')
            return 0 if same else 1
        exe, failed = build.build_world('hist', bld, ['core', 'io', 'conv'], thorough=True)
        wrapper = [shutil.which('valgrind'), '-q', '--error-exitcode=0'] if valgrind else None
        rp = checks.Replayer(exe, ','.join(sorted(failed)), STACK_IDS, wrapper=wrapper)
    elif world == 'iofault':
        from . import iofault_check
        bld = bld or 'rel-plain'
        exe, failed = build.build_world('iofault', bld, ['core', 'io'], thorough=True)
        wrapper = [shutil.which('valgrind'), '-q', '--error-exitcode=0'] if valgrind else None
        rp = iofault_check.CaseReplayer(exe, ','.join(sorted(failed)), STACK_IDS, wrapper=wrapper)
    elif world == 'threads':
        from . import threads_check
        bld = bld or 'thr-rel'
        exe, failed = build.build_world('threads', bld, ['core', 'io', 'thr'], thorough=True)
        rp = threads_check.ThrReplayer(exe, ','.join(sorted(failed)), STACK_IDS)
    elif world == 'hist-range':
        from . import hist_check
        line = [l for l in text.splitlines() if l.startswith('range ')][0]
        m = re.match(r'range args=(.*) runs=(\d+):(\d+)', line)
        args = m.group(1).split('|')
        exe, failed = build.build_world('hist', bld or 'rel-plain', ['core', 'io', 'conv'], thorough='thorough' in args)
        # the disabled list is part of the recorded arguments; keep it as recorded
        key, detail = hist_check.range_key(exe, args, int(m.group(2)), int(m.group(3)))
        if key is None:
            print('REPLAY ok (%s)' % detail)
            return 0
        print('REPLAY VIOL key=%s :: %s' % (key, detail))
        return 1
    elif world == 'golden':
        import subprocess, os
        exe, failed = build.build_world('golden', bld or 'rel-plain', ['core', 'io'], thorough=True)
        p = subprocess.run([exe, '--verify', os.path.join(build.VERIF, 'golden'), '--tier', 'thorough'], capture_output=True, text=True)
        hits = [l for l in p.stdout.splitlines() if ' VIOL ' in l and (expect is None or ('key=' + expect) in l)]
        for l in hits[:5]:
            print('REPLAY VIOL ' + l[l.index('key='):])
        if not hits:
            print('REPLAY ok (golden set verifies)')
        return 1 if hits else 0
    else:
        print('unknown world', world)
        return 2
    key, detail = rp.key_of(text)
    if key is None:
        print('REPLAY ok (%s)' % detail)
        return 0
    print('REPLAY VIOL key=%s :: %s' % (key, detail))
    if expect and key != expect:
        print('note: the file expected %s' % expect)
    return 1
