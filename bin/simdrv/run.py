"""Supervisor: long-lived worker processes, each given a contiguous range of run
indices. A worker that dies (signal, sanitizer report, assertion trap,
std::terminate) is a *result*: the run, seed and operation index are read from
the progress page the worker keeps up to date, the death is classified, and a
new worker is started at the next index."""

import json
import os
import re
import signal
import subprocess
import tempfile
import threading
import time

from . import build

OP_NAMES = ["Construct", "DefaultCtor", "Write", "CopyCtor", "MoveCtor", "CopyAssign", "MoveAssign", "ConvertCopy",
            "ConvertMove", "Dump", "Load", "LoadAssign", "Redump", "Destroy", "Lookup", "Wrap", "LoadTwo", "Swap", "Pipe"]
FAULT_NAMES = ["none", "alloc", "eof", "iothrow", "tear", "cuda"]


def scratch_dir():
    d = os.path.join(build.BUILD, 'scratch')
    os.makedirs(d, exist_ok=True)
    return d


def read_progress(path):
    import struct
    try:
        with open(path, 'rb') as f:
            raw = f.read(56)
        run, seed, op, opk, fk, stack, unit = struct.unpack('<7Q', raw)
        return dict(run=run, seed=seed, op=op, op_kind=opk, fault_kind=fk, stack=stack, unit=unit)
    except Exception:
        return None


def classify_death(rc, stderr_text, stdout_tail):
    """-> (class, detail)"""
    if 'runtime error:' in stderr_text:
        m = re.search(r'runtime error: (.*)', stderr_text)
        return 'death-ubsan', (m.group(1) if m else '')[:200]
    if 'AddressSanitizer' in stderr_text:
        m = re.search(r'AddressSanitizer: ([a-zA-Z\-]+)', stderr_text)
        return 'death-asan', (m.group(1) if m else '')[:200]
    for line in reversed(stdout_tail):
        if line.startswith('DEATH assert'):
            return 'death-assert', line[len('DEATH assert '):].strip()[:300]
        if line.startswith('DEATH terminate'):
            return 'death-terminate', line.strip()
        if line.startswith('DEATH no-progress'):
            return 'no-progress', 'the operation consumed its CPU budget without finishing (spin on a dead stream?)'
    if rc == 73:
        return 'infra-unmodelled', 'the code under test used a synchronisation primitive the thread simulator does not model (see stdout)'
    if rc == 74:
        return 'no-progress', 'the operation consumed its CPU budget without finishing'
    if rc == 78:
        return 'death-assert', ''
    if rc == 75:
        return 'death-terminate', ''
    if rc == 77:
        return 'death-asan', ''
    if rc is not None and rc < 0:
        try:
            name = signal.Signals(-rc).name
        except ValueError:
            name = str(-rc)
        return 'death-signal', name
    return 'death-exit', 'exit code %s' % rc


class Worker:
    def __init__(self, exe, base_args, a, b, env=None, wrapper=None):
        self.exe, self.base_args, self.a, self.b = exe, base_args, a, b
        self.env = env
        self.wrapper = wrapper or []
        self.results = []  # parsed RUN lines
        self.stats = []
        self.deaths = []

    def run(self, on_result, stall_timeout=300, stop=None):
        a = self.a
        stalls = 0
        while a < self.b:
            if stop is not None and stop[0]:
                return
            pf = tempfile.NamedTemporaryFile(prefix='prog', dir=scratch_dir(), delete=False)
            pf.close()
            ef = tempfile.NamedTemporaryFile(prefix='err', dir=scratch_dir(), delete=False)
            cmd = self.wrapper + [self.exe] + self.base_args + ['--runs', '%d:%d' % (a, self.b), '--progress', pf.name]
            p = subprocess.Popen(cmd, stdout=subprocess.PIPE, stderr=ef, text=True, env=self.env, errors='replace')
            tail = []
            done = False
            restart = False
            last = [time.time()]
            killed = [False]

            def watchdog():
                while p.poll() is None:
                    if time.time() - last[0] > stall_timeout:
                        killed[0] = True
                        p.kill()
                        return
                    time.sleep(1)
            th = threading.Thread(target=watchdog, daemon=True)
            th.start()
            next_a = a
            for line in p.stdout:
                last[0] = time.time()
                if stop is not None and stop[0]:
                    p.kill()
                    break
                line = line.rstrip('\n')
                tail.append(line)
                if len(tail) > 20:
                    tail.pop(0)
                if line.startswith('RUN '):
                    r = parse_run_line(line)
                    if r:
                        on_result(r)
                        next_a = r['run'] + 1
                elif line.startswith('STATS '):
                    try:
                        self.stats.append(json.loads(line[6:]))
                    except ValueError:
                        pass
                elif line.startswith('DONE'):
                    done = True
                elif line.startswith('RESTART'):
                    restart = True
            p.wait()
            ef.close()
            stderr_text = open(ef.name, errors='replace').read()
            prog = read_progress(pf.name)
            os.unlink(pf.name)
            os.unlink(ef.name)
            if done and p.returncode == 0:
                return
            if stop is not None and stop[0]:
                return
            if restart and p.returncode == 0:
                a = next_a
                continue
            # death
            run = prog['run'] if prog and prog['run'] >= next_a else next_a
            if killed[0] and stalls < 2:
                # wall-clock silence is a property of the machine first (load, a frozen VM):
                # try the same run again before believing it (CPU spins are caught inside
                # the worker by its CPU-time watchdog, independent of load)
                stalls += 1
                a = run
                continue
            if killed[0]:
                cls, detail = 'no-progress', 'no output for %ds, three times at the same run (wall-clock backstop)' % stall_timeout
            else:
                cls, detail = classify_death(p.returncode, stderr_text, tail)
            on_result(dict(run=run, seed=prog['seed'] if prog else 0, ok=False, death=True, cls=cls, detail=detail, proc_start=a,
                           op=prog['op'] if prog else -1, op_kind=prog['op_kind'] if prog else 0,
                           fault_kind=prog['fault_kind'] if prog else 0, stack=prog['stack'] if prog else -1,
                           stderr=stderr_text[-6000:]))
            a = run + 1


def parse_run_line(line):
    # RUN i seed obs case nontrivial ok | RUN i seed - - 0 VIOL key=... op=n :: detail
    t = line.split(' ', 6)
    if len(t) < 7:
        return None
    r = dict(run=int(t[1]), seed=int(t[2]))
    rest = t[6]
    if rest.startswith('ok'):
        r.update(ok=True, obs=t[3], case=t[4], nontrivial=t[5] == '1')
    else:
        m = re.match(r'VIOL key=(\S+) op=(-?\d+) :: (.*)', rest)
        if not m:
            return None
        r.update(ok=False, death=False, key=m.group(1), op=int(m.group(2)), detail=m.group(3))
    return r


def run_batch(exe, base_args, nruns, workers, env=None, wrapper=None, start=0, budget_violations=200, stall_timeout=120):
    """Run indices [start, start+nruns) over `workers` processes. Returns (results, merged stats)."""
    results = []
    lock = threading.Lock()
    nviol = [0]

    stop = [False]

    def on_result(r):
        with lock:
            results.append(r)
            if not r['ok']:
                nviol[0] += 1
                # a change that breaks most runs would otherwise cost one process
                # restart per run: enough is enough
                if nviol[0] >= budget_violations:
                    stop[0] = True
    chunk = (nruns + workers - 1) // workers
    ws = []
    ths = []
    for w in range(workers):
        a = start + w * chunk
        b = min(start + nruns, a + chunk)
        if a >= b:
            continue
        wk = Worker(exe, base_args, a, b, env=env, wrapper=wrapper)
        ws.append(wk)
        th = threading.Thread(target=wk.run, args=(on_result, stall_timeout, stop))
        th.start()
        ths.append(th)
    for th in ths:
        th.join()
    stats = {}
    for wk in ws:
        for s in wk.stats:
            for k, v in s.items():
                stats[k] = stats.get(k, 0) + v
    results.sort(key=lambda r: r['run'])
    return results, stats


def run_once(exe, args, env=None, wrapper=None, timeout=300):
    """One fresh process (replay / emit-plan). -> dict(rc, stdout lines, stderr, progress)"""
    pf = tempfile.NamedTemporaryFile(prefix='prog', dir=scratch_dir(), delete=False)
    pf.close()
    cmd = (wrapper or []) + [exe] + args + ['--progress', pf.name]
    try:
        p = subprocess.run(cmd, capture_output=True, text=True, env=env, timeout=timeout, errors='replace')
        rc, out, err = p.returncode, p.stdout, p.stderr
    except subprocess.TimeoutExpired as e:
        rc, out, err = -9, (e.stdout or ''), 'TIMEOUT'
        if isinstance(out, bytes):
            out = out.decode(errors='replace')
    prog = read_progress(pf.name)
    os.unlink(pf.name)
    return dict(rc=rc, out=out.splitlines(), err=err, prog=prog)
