"""Self-tests of the machinery.

determinism: every world, many seeds, executed repeatedly at several worker
counts (different process boundaries, different neighbours in the same
process) and in two build configurations; the per-run event-log hashes must be
identical every time.

selftest: sensitivity. Each patch of the mutant catalogue is applied to a
scratch copy of /repo/lib; the named quick check must report a violation whose
key matches the expected pattern."""

import json
import os
import re
import shutil
import subprocess
import sys
import tempfile
import time

from . import build, checks, run


def _sig_hist(results):
    return [(r['run'], r.get('seed'), r.get('obs'), r.get('case'), r.get('key')) for r in results]


def determinism():
    from . import hist_check, iofault_check, threads_check
    n = int(os.environ.get('VERIF_DET_RUNS', '2000'))
    bad = 0
    total = 0
    t0 = time.time()
    plans = []
    for prof, prop in (('ownership', 'C12'), ('ub', 'C15'), ('conversion', 'C05'), ('portability', 'C07')):
        for b in ('rel-plain', 'dbg-asan'):
            plans.append(('hist', b, ['core', 'io', 'conv'],
                          ['--property', prop, '--profile', prof, '--seed', '7', '--tier', 'quick'], prof))
    for b in ('thr-rel', 'thr-dbg'):
        plans.append(('threads', b, ['core', 'io', 'thr'], ['--seed', '7', '--tier', 'quick'], 'threads'))
    # the small families: large fields, beyond-machine constructions, the pre-main plans
    special = {'bigsweep': 24, 'hugesweep': 300, 'premain': 99, 'rtsweep': 400}
    for prof, prop in (('bigsweep', 'C05'), ('bigsweep', 'C07'), ('hugesweep', 'C12'), ('premain', 'C05'), ('rtsweep', 'C06')):
        plans.append(('hist', 'rel-plain', ['core', 'io', 'conv'],
                      ['--property', prop, '--profile', prof, '--seed', '7', '--tier', 'quick'], prof))
    n_default = n
    for world, b, groups, args, label in plans:
        exe, failed = build.build_world(world, b, groups, thorough=False, quiet=True)
        args = args + ['--disable', ','.join(sorted(failed))]
        ref = None
        n = special.get(label, n_default)
        for w in (1, 4, 16, 16):
            results, _ = run.run_batch(exe, args, n, w)
            sig = _sig_hist(results)
            total += len(sig)
            if ref is None:
                ref = sig
            elif sig != ref:
                diffs = [i for i in range(min(len(sig), len(ref))) if sig[i] != ref[i]]
                bad += 1
                print('DIVERGENCE world=%s build=%s profile=%s workers=%d first differing run index=%s' % (
                    world, b, label, w, diffs[:3]))
        print('determinism %s/%s/%s: %d runs x 4 executions identical=%s' % (world, b, label, n, bad == 0))
    # iofault: per-unit outcome lines must not depend on the partition
    for b in ('rel-plain', 'dbg-asan'):
        exe, failed = build.build_world('iofault', b, ['core', 'io'], thorough=False, quiet=True)
        args = ['--seed', '7', '--tier', 'quick', '--dumps', '1', '--disable', ','.join(sorted(failed))]
        res = run.run_once(exe, args + ['--count-units'])
        nunits = int([l for l in res['out'] if l.startswith('UNITS ')][0].split()[1])
        ref = None
        for w in (1, 5, 16):
            v, d, s, units = iofault_check.run_units(exe, args, nunits, w)
            sig = sorted(units)
            total += len(sig)
            if ref is None:
                ref = sig
            elif sig != ref:
                bad += 1
                print('DIVERGENCE world=iofault build=%s workers=%d' % (b, w))
        print('determinism iofault/%s: %d units x 3 partitions identical=%s' % (b, nunits, bad == 0))
    print('determinism: %d run executions compared in %.0fs, %d divergent batches' % (total, time.time() - t0, bad))
    return 1 if bad else 0


def selftest(argv):
    """bin/check selftest [name-substring ...]"""
    mdir = os.path.join(build.VERIF, 'mutants')
    exp = []
    for line in open(os.path.join(mdir, 'expected.tsv')):
        line = line.strip()
        if not line or line.startswith('#'):
            continue
        patch, prop, pattern = line.split('\t')[:3]
        if argv and not any(a in patch for a in argv):
            continue
        exp.append((patch, prop, pattern))
    ok = True
    for patch, prop, pattern in exp:
        scratch = tempfile.mkdtemp(prefix='covfie-selftest.', dir='/tmp')
        try:
            os.makedirs(os.path.join(scratch, 'repo'))
            shutil.copytree(os.path.join(build.REPO, 'lib'), os.path.join(scratch, 'repo', 'lib'))
            r = subprocess.run(['patch', '-s', '-p1', '-i', os.path.join(mdir, patch)], cwd=os.path.join(scratch, 'repo'),
                               capture_output=True, text=True)
            if r.returncode != 0:
                print('SELFTEST %s: patch does not apply: %s' % (patch, r.stdout[:200]))
                ok = False
                continue
            env = dict(os.environ, COVFIE_SIM_REPO=os.path.join(scratch, 'repo'), COVFIE_SIM_BUILD=os.path.join(scratch, 'build'),
                       COVFIE_SIM_EVIDENCE=os.path.join(scratch, 'evidence'))
            t0 = time.time()
            p = subprocess.run([os.path.join(build.VERIF, 'bin', 'check'), prop, 'quick'], capture_output=True, text=True, env=env)
            keys = re.findall(r'^VIOLATION property=\S+ replay=\S+ key=(\S+)', p.stdout, re.M)
            if pattern == 'QUIET':
                # a legitimate change: the check must stay quiet
                status = 'quiet' if p.returncode == 0 and not keys else 'FALSE-ALARM'
                if status != 'quiet':
                    ok = False
            else:
                hit = [k for k in keys if re.search(pattern, k)]
                status = 'caught' if hit and p.returncode == 1 else 'MISSED'
                if status == 'MISSED':
                    ok = False
            print('SELFTEST %-44s %s %-7s %3.0fs exit=%d keys=%s' % (patch, prop, status, time.time() - t0, p.returncode,
                                                                    ','.join(sorted(set(k.split(':')[0] for k in keys)))[:80]))
        finally:
            shutil.rmtree(scratch, ignore_errors=True)
    print('selftest: %s' % ('all expected violations reported' if ok else 'SOME MUTANTS WERE MISSED'))
    return 0 if ok else 1
