"""setup: prebuild the quick-tier binaries of every claimed property."""
import sys

from . import build


def build_everything():
    from . import hist_check
    seen = set()
    for prop, cfg in hist_check.HIST.items():
        for b, _, _ in cfg['builds']:
            if b in seen:
                continue
            seen.add(b)
            build.build_world('hist', b, cfg['groups'], thorough=False)
    build.build_world('hist', 'val-plain', ['core', 'io', 'conv'], thorough=False)  # C15's memcheck pass
    for b in ('rel-plain', 'dbg-asan'):
        build.build_world('golden', b, ['core', 'io'], thorough=False)
    try:
        from . import iofault_check
        iofault_check.prebuild()
    except ImportError:
        pass
    try:
        from . import threads_check
        threads_check.prebuild()
    except ImportError:
        pass
    sys.stderr.write('[setup] done\n')
    return 0
