"""C16: seeded schedules in the threads world."""

import os
import re
import time

from . import build, checks, run

pool = build.pool
STACK_IDS = [s.id for s in pool.STACKS]
PROP = 'C16'
BUILDS = [('thr-rel', 12000, 600000), ('thr-dbg', 6000, 300000), ('thr-nobmi2', 4000, 150000)]
WM = ['readers', 'writers', 'mixed']


def prebuild():
    for b, _, _ in BUILDS:
        build.build_world('threads', b, ['core', 'io', 'thr'], thorough=False)


def death_key(r):
    st = r.get('stack', 0)
    sid = STACK_IDS[st - 1] if st and 0 < st <= len(STACK_IDS) else '-'
    k = r.get('op_kind', 0)
    return '%s:%s:%s' % (r['cls'], sid, WM[k] if 0 <= k < 3 else str(k))


def symbolise(exe, text):
    """Replace @0x<offset> tokens (code offsets inside the executable) by function names and source lines."""
    import subprocess
    offs = sorted(set(re.findall(r'@0x[0-9a-f]+', text or '')))
    if not offs:
        return text
    try:
        out = subprocess.run(['addr2line', '-f', '-C', '-s', '-e', exe] + [o[1:] for o in offs], capture_output=True,
                             text=True, timeout=60).stdout.splitlines()
    except Exception:
        return text
    for i, o in enumerate(offs):
        if 2 * i + 1 < len(out):
            fn = re.sub(r'<.*', '', out[2 * i])[:60]
            text = text.replace(o, '%s (%s)' % (fn, out[2 * i + 1]))
    return text


class ThrReplayer(checks.Replayer):
    def interpret(self, res):
        for line in res['out']:
            if line.startswith('REPLAY ok'):
                return None, line
            m = re.match(r'REPLAY VIOL key=(\S+) op=(-?\d+) :: (.*)', line)
            if m:
                return m.group(1), m.group(3)
        if res['rc'] == 0:
            return None, 'no verdict'
        prog = res['prog'] or {}
        cls, detail = run.classify_death(res['rc'], res['err'], res['out'][-20:])
        return death_key(dict(cls=cls, stack=prog.get('stack', 0), op_kind=prog.get('op_kind', 0))), detail


def check(tier, seed):
    thorough = tier == 'thorough'
    rep = checks.Report(PROP, tier, seed, 'exploration')
    t0 = time.time()
    total = 0
    scheds = set()
    stats_all = {}
    per_build = {}
    found = {}
    exes = {}
    failed_all = {}
    for b, nq, nt in BUILDS:
        exe, failed = build.build_world('threads', b, ['core', 'io', 'thr'], thorough=thorough)
        exes[b] = exe
        failed_all.update(failed)
    disabled = ','.join(sorted(failed_all))
    for label, err in sorted(failed_all.items()):
        if label.endswith(':thr'):
            key = 'compile:' + label
            path = checks.replay_path(PROP, key)
            with open(path, 'w') as f:
                f.write('world compile\nlabel %s\nexpect %s\n' % (label, key))
            first = [l for l in err.splitlines() if 'error' in l][:1]
            rep.add_violation(key, first[0][:300] if first else 'does not compile', path)
    # run indices from here on are executed one per process (see below); the generator knows
    fresh_from = max((nt if thorough else nq) for _, nq, nt in BUILDS)
    base = ['--seed', str(seed), '--tier', tier, '--disable', disabled, '--fresh-from', str(fresh_from)]
    for b, nq, nt in BUILDS:
        n = nt if thorough else nq
        tb = time.time()
        results, stats = run.run_batch(exes[b], base, n, 16)
        dt = time.time() - tb
        per_build[b] = dict(runs=len(results), wall_s=round(dt, 2), runs_per_hour=int(len(results) / dt * 3600) if dt else 0)
        total += len(results)
        for k, v in stats.items():
            stats_all[k] = stats_all.get(k, 0) + v
        for r in results:
            if r['ok']:
                if r['nontrivial']:
                    scheds.add(r['case'])
            else:
                key = death_key(r) if r.get('death') else r['key']
                if key.startswith('infra-unmodelled'):
                    rep.nonrepro.append('unmodelled synchronisation primitive (condition variable) used inside a lookup: the thread simulator cannot decide this run (%s)' % r.get('detail', ''))
                    continue
                found.setdefault(key, (b, r))
    # first-use behaviour (lazily initialised statics, once-flags): inside a long-lived worker
    # only the first run of each process can see it, so a sample of runs gets a process each
    fresh_n = 4000 if thorough else 640
    fresh_results = []
    import concurrent.futures as cf
    b0 = BUILDS[0][0]
    first = fresh_from

    def one(i):
        # three quarters in the first build, a quarter in the build without BMI2
        exe = exes[b0] if i % 4 else exes[BUILDS[-1][0]]
        rs, st = run.run_batch(exe, base, 1, 1, start=first + i)
        for r in rs:
            r['fresh_build'] = b0 if i % 4 else BUILDS[-1][0]
        return rs, st
    tb = time.time()
    with cf.ThreadPoolExecutor(16) as ex:
        for rs, st in ex.map(one, range(fresh_n)):
            fresh_results.extend(rs)
            for k, v in st.items():
                stats_all[k] = stats_all.get(k, 0) + v
    per_build[b0 + ' (one process per run)'] = dict(runs=len(fresh_results), wall_s=round(time.time() - tb, 2))
    total += len(fresh_results)
    for r in fresh_results:
        if r['ok']:
            if r['nontrivial']:
                scheds.add(r['case'])
        else:
            key = death_key(r) if r.get('death') else r['key']
            found.setdefault(key, (r.get('fresh_build', b0), r))
    for key, (b, r) in checks.cap_keys(rep, found):
        exe = exes[b]
        res = run.run_once(exe, base + ['--emit-plan', str(r['run'])])
        plan = '\n'.join(res['out']) + '\n'
        rp = ThrReplayer(exe, disabled, STACK_IDS)
        key, d1 = checks.confirm(rep, rp, plan, key, 'build=%s run=%d' % (b, r['run']))
        if key is None:
            continue
        # make the schedule explicit, then minimise operations and preemptions together
        tmp = os.path.join(run.scratch_dir(), 'thr-%d.replay' % os.getpid())
        with open(tmp, 'w') as f:
            f.write(plan)
        res2 = run.run_once(exe, ['--replay', tmp, '--emit-schedule', '--disable', disabled])
        os.unlink(tmp)
        explicit = '\n'.join(res2['out']) + '\n'
        ke, _ = rp.key_of(explicit)
        start = explicit if ke == key else plan
        if rep.minimised >= rep.max_minimise:
            small, used = start, 0
        else:
            rep.minimised += 1
            small, used = checks.minimise(start, rp, key, max_replays=300)
        k3, d3 = rp.key_of(small)
        if k3 != key:
            rep.nonrepro.append('key=%s minimised plan replayed as %s' % (key, k3))
            continue
        path = checks.replay_path(PROP, key)
        with open(path, 'w') as f:
            f.write(small)
            f.write('build %s\nexpect %s\n# found by seed %d run %d; %d replays; %s\n' % (b, key, seed, r['run'], used, (d3 or '')[:400]))
        rep.add_violation(key, symbolise(exe, d3 or r.get('detail', ''))[:700], path)
    samples = []
    for i in range(3):
        res = run.run_once(exes[BUILDS[0][0]], base + ['--emit-plan', str(i)])
        samples.append(dict(run=i, plan=[l for l in res['out'] if not l.startswith('#')][:40]))
    wall = time.time() - t0
    probes = {k[6:]: v for k, v in stats_all.items() if k.startswith('probe.')}
    rep.coverage = dict(
        evaluations=total,
        distinct_nontrivial=len(scheds),
        rule=('one evaluation = one seeded run: T in {2,3,4,8,16} tasks (real threads under a baton scheduler) execute 4-32 '
              'lookups / disjoint writes each through views of one field that are shared, copied per task, built inside each task, or built by a helper thread that is gone before the tasks start; both lookup forms of the view; for stacks whose view returns values (interpolators, casts) a banded mode in which every task owns three lattice rows, writes them through the storage-order layer and looks them up before and after; yield points at every '
              'instrumented memory access; distinct = distinct hash of the (access counter, from, to) context-switch sequence; '
              'non-trivial = at least one preemption was taken inside a library call (not merely at an operation boundary)'),
        samples=samples,
        runs_per_hour=int(total / wall * 3600) if wall else 0,
        simulated_time='logical steps: %d instrumented memory accesses, %d yield points, %d context switches' % (
            stats_all.get('accesses', 0), stats_all.get('yield_points', 0), stats_all.get('switches', 0)),
        per_build=per_build,
        reach_probes=probes,
        work_modes={k[6:]: v for k, v in stats_all.items() if k.startswith('wmode.')},
        view_modes={k[6:]: v for k, v in stats_all.items() if k.startswith('vmode.')},
        scheduler_modes={k[6:]: v for k, v in stats_all.items() if k.startswith('sched.')},
        stacks={k[6:]: v for k, v in stats_all.items() if k.startswith('stack.')},
        tracked_accesses=stats_all.get('tracked_accesses', 0),
        lookups_compared_with_the_model=stats_all.get('lookups_compared_with_the_model', 0),
        synchronisation_modelled={k[5:]: v for k, v in stats_all.items() if k.startswith('sync.')},
        pool_tus_not_compiling=sorted(failed_all),
        components=dict(real=['every covfie header reached by field_view::at for the listed stacks, compiled with g++ -fsanitize=thread instrumentation',
                              'real OS threads (one per task), real thread_local storage'],
                        stub=['the TSan runtime: own __tsan_* callbacks (vector clocks, per-byte shadow, atomics, mutex / static-guard / pthread_once modelling)',
                              'the thread scheduler: seeded baton over parked threads decides every interleaving',
                              'global operator new/delete (SimAlloc)']),
        exhaustive=False,
    )
    rep.assumptions = [
        'completeness of g++ -fsanitize=thread instrumentation for inlined covfie code (inline asm and libstdc++.so internals are not instrumented)',
        'race freedom is judged by happens-before over the accesses performed; sequential equivalence by bitwise comparison with a sequential run of the same binary; in read-only runs every lookup that ends in one lattice cell or at a node of the linear interpolator is also compared with the array model',
        'condition variables / raw futexes are not modelled (covfie uses none)',
    ]
    return rep.finish()
