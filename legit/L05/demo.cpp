/*
 * Demo / regression driver for the storage order conversion rewrite (L05).
 *
 * Compile (from the root of the covfie checkout; GCC, the library does not
 * build with clang):
 *
 *   g++ -std=c++20 -O1 -g -pthread -I lib/core seeded/demo.cpp -o demo
 *   g++ -std=c++20 -O2 -DNDEBUG -pthread -I lib/core seeded/demo.cpp -o demo
 *   g++ -std=c++20 -O2 -march=haswell -pthread -I lib/core seeded/demo.cpp \
 *       -o demo                                  # BMI2 flavour of Morton
 *   g++ -std=c++20 -O1 -g -fsanitize=address,undefined \
 *       -fno-sanitize-recover=all -pthread -I lib/core seeded/demo.cpp -o demo
 *   g++ -std=c++20 -O1 -g -fsanitize=thread -pthread -I lib/core \
 *       seeded/demo.cpp -o demo
 *
 * Prints PASS and exits 0, with and without the change applied. The program
 * only uses interfaces which exist in both versions of the library.
 *
 * What is exercised, for every ordered pair of storage orders out of
 * {row-major, Morton BMI2, Morton portable, Hilbert (2D only)} (plus pairs of
 * distinct types which share one and the same storage order), for 1 to 4
 * dimensions, for float and double storage and for every extent vector up
 * to a bound (including zero extents) plus a number of lopsided ones:
 *
 *  - A -> B by copy: same configuration, same value at every lattice
 *    coordinate, source byte-for-byte unchanged;
 *  - B -> A: byte-for-byte the original (padding cells included);
 *  - the conversion result is byte-for-byte what a direct conversion from
 *    the row-major reference gives (i.e. padding is zero);
 *  - A -> B from an rvalue (which may or may not steal the storage), then
 *    re-use of the moved-from object as an assignment target;
 *  - copy assignment, self assignment, move construction, move assignment;
 *  - dump/load round trip;
 *  - whole stack conversions affine<I1<L1<array>>> -> affine<I2<L2<array>>>
 *    for I in {nearest, linear}, by copy and from an rvalue, evaluated
 *    through the whole stack;
 *  - float <-> double storage conversions;
 *  - empty (value-initialised) fields;
 *  - concurrent conversions from one shared, constant source;
 *  - the on-disk bytes of a few fields against hard-coded hashes.
 */

#include <cstdint>
#include <cstdio>
#include <cstdlib>
#include <sstream>
#include <string>
#include <thread>
#include <variant>
#include <vector>

#include <covfie/core/backend/primitive/array.hpp>
#include <covfie/core/backend/transformer/affine.hpp>
#include <covfie/core/backend/transformer/hilbert.hpp>
#include <covfie/core/backend/transformer/linear.hpp>
#include <covfie/core/backend/transformer/morton.hpp>
#include <covfie/core/backend/transformer/nearest_neighbour.hpp>
#include <covfie/core/backend/transformer/strided.hpp>
#include <covfie/core/field.hpp>
#include <covfie/core/field_view.hpp>
#include <covfie/core/parameter_pack.hpp>
#include <covfie/core/utility/nd_map.hpp>

namespace {
long g_checks = 0;

#define REQUIRE(cond)                                                          \
    do {                                                                       \
        ++g_checks;                                                            \
        if (!(cond)) {                                                         \
            std::fprintf(                                                      \
                stderr, "FAIL %s:%d: %s\n", __FILE__, __LINE__, #cond          \
            );                                                                 \
            std::exit(1);                                                      \
        }                                                                      \
    } while (0)

template <std::size_t N>
using index_d = covfie::vector::vector_d<std::size_t, N>;

template <std::size_t N>
using extents_t = covfie::array::array<std::size_t, N>;

template <std::size_t N, typename Out>
using row_major_t =
    covfie::backend::strided<index_d<N>, covfie::backend::array<Out>>;

template <std::size_t N, typename Out>
using morton_bmi2_t =
    covfie::backend::morton<index_d<N>, covfie::backend::array<Out>, true>;

template <std::size_t N, typename Out>
using morton_port_t =
    covfie::backend::morton<index_d<N>, covfie::backend::array<Out>, false>;

template <typename Out>
using hilbert_t =
    covfie::backend::hilbert<index_d<2>, covfie::backend::array<Out>>;

/*
 * A second vector descriptor with the same scalar type and size as index_d:
 * transformers instantiated with it are different types with the same
 * coordinate type and the same storage order.
 */
template <std::size_t N>
struct alt_index_d {
    using type = std::size_t;
    static constexpr std::size_t size = N;
};

template <std::size_t N, typename Out>
using row_major_alt_t =
    covfie::backend::strided<alt_index_d<N>, covfie::backend::array<Out>>;

template <typename Out>
using hilbert_alt_t =
    covfie::backend::hilbert<alt_index_d<2>, covfie::backend::array<Out>>;

template <typename L>
using nearest_stack_t =
    covfie::backend::affine<covfie::backend::nearest_neighbour<L>>;

template <typename L>
using linear_stack_t = covfie::backend::affine<covfie::backend::linear<L>>;

/*
 * An odometer over the lattice which is independent of the library.
 */
template <std::size_t N, typename F>
void for_each_coordinate(const extents_t<N> & s, F && f)
{
    for (std::size_t i = 0; i < N; ++i) {
        if (s[i] == 0) {
            return;
        }
    }

    extents_t<N> c;

    for (std::size_t i = 0; i < N; ++i) {
        c[i] = 0;
    }

    for (;;) {
        f(c);

        std::size_t k = N;

        while (k > 0) {
            --k;

            if (++c[k] < s[k]) {
                break;
            }

            c[k] = 0;

            if (k == 0) {
                return;
            }
        }
    }
}

/*
 * The value which the test field has at a coordinate: exactly representable
 * in single precision, different for every coordinate and component, never
 * zero.
 */
template <std::size_t N>
double expected_value(const extents_t<N> & c, std::size_t component)
{
    std::size_t lin = 0;

    for (std::size_t i = 0; i < N; ++i) {
        lin = lin * 67 + c[i];
    }

    return static_cast<double>(1 + 4 * (lin % 2000003) + component);
}

template <std::size_t N>
bool same_extents(const extents_t<N> & a, const extents_t<N> & b)
{
    for (std::size_t i = 0; i < N; ++i) {
        if (a[i] != b[i]) {
            return false;
        }
    }

    return true;
}

template <typename F>
std::string dump_bytes(const F & f)
{
    std::ostringstream os(std::ios::binary);
    f.dump(os);
    REQUIRE(os.good());
    return os.str();
}

std::uint64_t fnv1a(const std::string & s)
{
    std::uint64_t h = 1469598103934665603ull;

    for (unsigned char ch : s) {
        h ^= ch;
        h *= 1099511628211ull;
    }

    return h;
}

template <std::size_t N, typename Out>
covfie::field<row_major_t<N, Out>> make_reference(const extents_t<N> & s)
{
    using B = row_major_t<N, Out>;

    covfie::field<B> f(
        covfie::make_parameter_pack(typename B::configuration_t{s})
    );
    covfie::field_view<B> v(f);

    for_each_coordinate<N>(s, [&](const extents_t<N> & c) {
        for (std::size_t i = 0; i < Out::size; ++i) {
            v.at(c)[i] = static_cast<typename Out::type>(expected_value<N>(c, i)
            );
        }
    });

    return f;
}

/*
 * Check the storage order layer `o` (an owning_data_t of strided, morton or
 * hilbert) against the test field with extents `s`.
 */
template <typename L, std::size_t N>
void check_layer(const typename L::owning_data_t & o, const extents_t<N> & s)
{
    REQUIRE(same_extents<N>(o.get_configuration(), s));

    typename L::non_owning_data_t v(o);

    for_each_coordinate<N>(s, [&](const extents_t<N> & c) {
        for (std::size_t i = 0; i < L::covariant_output_t::dimensions; ++i) {
            REQUIRE(
                static_cast<double>(v.at(c)[i]) == expected_value<N>(c, i)
            );
        }
    });
}

template <typename L, std::size_t N>
void check_field(const covfie::field<L> & f, const extents_t<N> & s)
{
    check_layer<L, N>(f.backend(), s);

    // ...and through the public view, too.
    covfie::field_view<L> v(f);

    for_each_coordinate<N>(s, [&](const extents_t<N> & c) {
        REQUIRE(static_cast<double>(v.at(c)[0]) == expected_value<N>(c, 0));
    });
}

/*
 * A -> B and back, in every way the library allows.
 */
template <typename A, typename B, std::size_t N, typename Out>
void test_pair(const extents_t<N> & s)
{
    const covfie::field<row_major_t<N, Out>> ref = make_reference<N, Out>(s);
    const std::string ref_bytes = dump_bytes(ref);

    covfie::field<A> a(ref);
    check_field<A, N>(a, s);
    REQUIRE(dump_bytes(ref) == ref_bytes);

    const std::string a_bytes = dump_bytes(a);

    // Copying conversion.
    covfie::field<B> b(a);
    check_field<B, N>(b, s);
    REQUIRE(dump_bytes(a) == a_bytes);
    check_field<A, N>(a, s);

    const std::string b_bytes = dump_bytes(b);

    // Same as going there directly, so no dirt in the padding.
    {
        covfie::field<B> direct(ref);
        REQUIRE(dump_bytes(direct) == b_bytes);
    }

    // There and back again.
    {
        covfie::field<A> back(b);
        check_field<A, N>(back, s);
        REQUIRE(dump_bytes(back) == a_bytes);
        REQUIRE(dump_bytes(b) == b_bytes);
    }

    // Conversion from an expiring field, and re-use of what is left of it.
    {
        covfie::field<A> tmp(a);
        covfie::field<B> moved(std::move(tmp));
        check_field<B, N>(moved, s);
        REQUIRE(dump_bytes(moved) == b_bytes);

        tmp = a;
        check_field<A, N>(tmp, s);
        REQUIRE(dump_bytes(tmp) == a_bytes);

        covfie::field<A> moved_back(std::move(moved));
        check_field<A, N>(moved_back, s);
        REQUIRE(dump_bytes(moved_back) == a_bytes);

        moved = covfie::field<B>(std::move(moved_back));
        check_field<B, N>(moved, s);
        REQUIRE(dump_bytes(moved) == b_bytes);

        // Whatever state the expired objects are in, they can be converted,
        // copied and destroyed.
        covfie::field<B> from_expired(moved_back);
        covfie::field<A> copy_of_expired(moved_back);
        (void)from_expired;
        (void)copy_of_expired;
    }

    // Conversion from a temporary.
    {
        covfie::field<B> from_temporary{covfie::field<A>(ref)};
        REQUIRE(dump_bytes(from_temporary) == b_bytes);
    }

    // Assignments.
    {
        covfie::field<B> c;
        c = b;
        check_field<B, N>(c, s);

        covfie::field<B> & alias = c;
        c = alias;
        check_field<B, N>(c, s);
        REQUIRE(dump_bytes(c) == b_bytes);

        covfie::field<B> d(std::move(c));
        check_field<B, N>(d, s);

        c = std::move(d);
        check_field<B, N>(c, s);
        REQUIRE(dump_bytes(c) == b_bytes);

        d = c;
        REQUIRE(dump_bytes(d) == b_bytes);

        // Converting a different, smaller field into an existing object.
        extents_t<N> s2(s);
        s2[N - 1] = s[N - 1] / 2;
        covfie::field<A> small(make_reference<N, Out>(s2));
        d = covfie::field<B>(small);
        check_field<B, N>(d, s2);
        REQUIRE(dump_bytes(c) == b_bytes);
    }

    // Through the file format.
    {
        std::istringstream is(b_bytes, std::ios::binary);
        covfie::field<B> loaded(is);
        check_field<B, N>(loaded, s);
        REQUIRE(dump_bytes(loaded) == b_bytes);

        covfie::field<A> back(loaded);
        REQUIRE(dump_bytes(back) == a_bytes);

        covfie::field<A> back_moved(std::move(loaded));
        REQUIRE(dump_bytes(back_moved) == a_bytes);
    }
}

template <std::size_t N>
covfie::algebra::affine<N> make_translation(float first, float step)
{
    covfie::algebra::affine<N> m;

    for (std::size_t i = 0; i < N; ++i) {
        for (std::size_t j = 0; j < N + 1; ++j) {
            m(i, j) = (i == j) ? 1.f : 0.f;
        }

        m(i, N) = first + step * static_cast<float>(i);
    }

    return m;
}

template <std::size_t N>
bool same_matrix(
    const covfie::algebra::affine<N> & a, const covfie::algebra::affine<N> & b
)
{
    for (std::size_t i = 0; i < N; ++i) {
        for (std::size_t j = 0; j < N + 1; ++j) {
            if (a(i, j) != b(i, j)) {
                return false;
            }
        }
    }

    return true;
}

/*
 * Check a whole stack affine<interpolator<L>>: the configurations of all
 * layers, every cell of the storage order layer, and evaluation through the
 * stack. A linear interpolator touches the next cell along each axis (with
 * weight zero), so it is only evaluated where that cell exists.
 */
template <typename S, bool IsLinear, std::size_t N>
void check_stack(
    const covfie::field<S> & f,
    const extents_t<N> & s,
    const covfie::algebra::affine<N> & m
)
{
    using L = typename S::backend_t::backend_t;

    REQUIRE(same_matrix<N>(f.backend().get_configuration(), m));
    REQUIRE(
        (std::is_same_v<
            decltype(f.backend().get_backend().get_configuration()),
            std::monostate>)
    );
    check_layer<L, N>(f.backend().get_backend().get_backend(), s);

    covfie::field_view<S> v(f);

    for_each_coordinate<N>(s, [&](const extents_t<N> & c) {
        covfie::array::array<float, N> w;

        for (std::size_t i = 0; i < N; ++i) {
            if (IsLinear && c[i] + 1 >= s[i]) {
                return;
            }

            w[i] = static_cast<float>(c[i]) - m(i, N);
        }

        for (std::size_t i = 0; i < L::covariant_output_t::dimensions; ++i) {
            REQUIRE(
                static_cast<double>(v.at(w)[i]) == expected_value<N>(c, i)
            );
        }
    });
}

template <
    template <typename>
    typename SA,
    bool LinA,
    template <typename>
    typename SB,
    bool LinB,
    typename LA,
    typename LB,
    std::size_t N,
    typename Out>
void test_stack_pair(const extents_t<N> & s)
{
    using A = SA<LA>;
    using B = SB<LB>;

    const covfie::algebra::affine<N> m = make_translation<N>(1.f, 2.f);

    const covfie::field<LA> storage(make_reference<N, Out>(s));

    typename LA::owning_data_t storage_copy(storage.backend());

    covfie::field<A> a(covfie::make_parameter_pack(
        typename A::configuration_t(m),
        std::monostate{},
        std::move(storage_copy)
    ));
    check_stack<A, LinA, N>(a, s, m);

    const std::string a_bytes = dump_bytes(a);

    covfie::field<B> b(a);
    check_stack<B, LinB, N>(b, s, m);
    REQUIRE(dump_bytes(a) == a_bytes);

    const std::string b_bytes = dump_bytes(b);

    {
        covfie::field<A> back(b);
        check_stack<A, LinA, N>(back, s, m);
        REQUIRE(dump_bytes(back) == a_bytes);
    }

    {
        covfie::field<A> tmp(a);
        covfie::field<B> moved(std::move(tmp));
        check_stack<B, LinB, N>(moved, s, m);
        REQUIRE(dump_bytes(moved) == b_bytes);

        tmp = a;
        check_stack<A, LinA, N>(tmp, s, m);

        covfie::field<A> moved_back(std::move(moved));
        check_stack<A, LinA, N>(moved_back, s, m);
        REQUIRE(dump_bytes(moved_back) == a_bytes);

        moved = b;
        check_stack<B, LinB, N>(moved, s, m);
    }

    {
        std::istringstream is(b_bytes, std::ios::binary);
        covfie::field<B> loaded(is);
        check_stack<B, LinB, N>(loaded, s, m);
        REQUIRE(dump_bytes(loaded) == b_bytes);
    }
}

template <typename LA, typename LB, std::size_t N, typename Out>
void test_all_for_layouts(const extents_t<N> & s, bool with_stacks)
{
    test_pair<LA, LB, N, Out>(s);

    if (with_stacks) {
        test_stack_pair<
            nearest_stack_t,
            false,
            nearest_stack_t,
            false,
            LA,
            LB,
            N,
            Out>(s);
        test_stack_pair<
            nearest_stack_t,
            false,
            linear_stack_t,
            true,
            LA,
            LB,
            N,
            Out>(s);
        test_stack_pair<
            linear_stack_t,
            true,
            nearest_stack_t,
            false,
            LA,
            LB,
            N,
            Out>(s);
        test_stack_pair<
            linear_stack_t,
            true,
            linear_stack_t,
            true,
            LA,
            LB,
            N,
            Out>(s);
    }
}

template <typename LA, std::size_t N, typename Out>
void test_all_targets(const extents_t<N> & s, bool with_stacks)
{
    test_all_for_layouts<LA, row_major_t<N, Out>, N, Out>(s, with_stacks);
    test_all_for_layouts<LA, morton_bmi2_t<N, Out>, N, Out>(s, with_stacks);
    test_all_for_layouts<LA, morton_port_t<N, Out>, N, Out>(s, with_stacks);

    if constexpr (N == 2) {
        test_all_for_layouts<LA, hilbert_t<Out>, N, Out>(s, with_stacks);
    }
}

template <std::size_t N, typename Out>
void test_all_sources(const extents_t<N> & s, bool with_stacks)
{
    test_all_targets<row_major_t<N, Out>, N, Out>(s, with_stacks);
    test_all_targets<morton_bmi2_t<N, Out>, N, Out>(s, with_stacks);
    test_all_targets<morton_port_t<N, Out>, N, Out>(s, with_stacks);

    if constexpr (N == 2) {
        test_all_targets<hilbert_t<Out>, N, Out>(s, with_stacks);
    }

    // Distinct types which share a storage order.
    test_pair<row_major_t<N, Out>, row_major_alt_t<N, Out>, N, Out>(s);
    test_pair<row_major_alt_t<N, Out>, row_major_t<N, Out>, N, Out>(s);
    test_pair<row_major_alt_t<N, Out>, morton_bmi2_t<N, Out>, N, Out>(s);
    test_pair<morton_port_t<N, Out>, row_major_alt_t<N, Out>, N, Out>(s);

    if constexpr (N == 2) {
        test_pair<hilbert_t<Out>, hilbert_alt_t<Out>, N, Out>(s);
        test_pair<hilbert_alt_t<Out>, hilbert_t<Out>, N, Out>(s);
        test_pair<hilbert_alt_t<Out>, row_major_alt_t<N, Out>, N, Out>(s);
    }

    if (with_stacks) {
        test_stack_pair<
            nearest_stack_t,
            false,
            linear_stack_t,
            true,
            row_major_t<N, Out>,
            row_major_alt_t<N, Out>,
            N,
            Out>(s);
    }
}

template <std::size_t N>
std::vector<extents_t<N>>
all_extents(std::size_t bound, std::vector<extents_t<N>> extra)
{
    std::vector<extents_t<N>> r;
    extents_t<N> b;

    for (std::size_t i = 0; i < N; ++i) {
        b[i] = bound + 1;
    }

    for_each_coordinate<N>(b, [&](const extents_t<N> & c) { r.push_back(c); });

    for (const extents_t<N> & e : extra) {
        r.push_back(e);
    }

    return r;
}

template <std::size_t N, typename Out>
void test_dimension(const std::vector<extents_t<N>> & shapes)
{
    std::size_t k = 0;

    for (const extents_t<N> & s : shapes) {
        // The whole-stack conversions are exercised for every third shape;
        // they go through exactly the same storage order layer code.
        test_all_sources<N, Out>(s, (k++ % 3) == 0);
    }
}

/*
 * float <-> double storage.
 */
void test_precision_change()
{
    using F = covfie::vector::vector_d<float, 3>;
    using D = covfie::vector::vector_d<double, 3>;

    for (const extents_t<3> & s : all_extents<3>(
             3, {{5u, 1u, 9u}, {2u, 8u, 3u}}
         ))
    {
        covfie::field<row_major_t<3, F>> rf(make_reference<3, F>(s));
        covfie::field<row_major_t<3, D>> rd(make_reference<3, D>(s));

        covfie::field<morton_bmi2_t<3, D>> md(rf);
        check_field<morton_bmi2_t<3, D>, 3>(md, s);

        covfie::field<morton_port_t<3, F>> mf(rd);
        check_field<morton_port_t<3, F>, 3>(mf, s);

        covfie::field<row_major_t<3, D>> sd(rf);
        check_field<row_major_t<3, D>, 3>(sd, s);
        REQUIRE(dump_bytes(sd) == dump_bytes(rd));

        covfie::field<row_major_t<3, F>> sf(md);
        REQUIRE(dump_bytes(sf) == dump_bytes(rf));

        covfie::field<row_major_t<3, F>> sf2(std::move(md));
        REQUIRE(dump_bytes(sf2) == dump_bytes(rf));

        covfie::field<morton_bmi2_t<3, D>> md2(std::move(mf));
        check_field<morton_bmi2_t<3, D>, 3>(md2, s);
    }
}

/*
 * Value-initialised fields have no cells at all.
 */
template <typename A, typename B, std::size_t N>
void test_empty_pair()
{
    extents_t<N> zero;

    for (std::size_t i = 0; i < N; ++i) {
        zero[i] = 0;
    }

    covfie::field<A> e{};
    covfie::field<B> c(e);
    REQUIRE(same_extents<N>(c.backend().get_configuration(), zero));

    covfie::field<A> back(c);
    REQUIRE(same_extents<N>(back.backend().get_configuration(), zero));

    covfie::field<B> m(std::move(e));
    REQUIRE(same_extents<N>(m.backend().get_configuration(), zero));

    covfie::field<B> d{};
    d = c;
    d = std::move(m);
    REQUIRE(same_extents<N>(d.backend().get_configuration(), zero));

    std::istringstream is(dump_bytes(d), std::ios::binary);
    covfie::field<B> l(is);
    REQUIRE(same_extents<N>(l.backend().get_configuration(), zero));
}

void test_empty()
{
    using O = covfie::vector::vector_d<float, 2>;

    test_empty_pair<row_major_t<2, O>, row_major_t<2, O>, 2>();
    test_empty_pair<row_major_t<2, O>, morton_bmi2_t<2, O>, 2>();
    test_empty_pair<row_major_t<2, O>, hilbert_t<O>, 2>();
    test_empty_pair<morton_bmi2_t<2, O>, row_major_t<2, O>, 2>();
    test_empty_pair<morton_bmi2_t<2, O>, morton_port_t<2, O>, 2>();
    test_empty_pair<morton_port_t<2, O>, hilbert_t<O>, 2>();
    test_empty_pair<hilbert_t<O>, row_major_t<2, O>, 2>();
    test_empty_pair<hilbert_t<O>, morton_bmi2_t<2, O>, 2>();
    test_empty_pair<row_major_t<4, O>, morton_port_t<4, O>, 4>();
    test_empty_pair<morton_port_t<4, O>, row_major_t<4, O>, 4>();
}

/*
 * nd_map itself, in the three ways it is called in the wild.
 */
void test_nd_map()
{
    {
        std::size_t n = 0, sum = 0;
        covfie::utility::nd_map<extents_t<1>>(
            std::function([&](extents_t<1> t) {
                ++n;
                sum += t.at(0);
            }),
            {10u}
        );
        REQUIRE(n == 10 && sum == 45);
    }

    {
        extents_t<3> s{2u, 3u, 4u};
        std::vector<extents_t<3>> seen, want;
        covfie::utility::nd_map<decltype(s)>(
            [&seen](decltype(s) t) { seen.push_back(t); }, s
        );
        for_each_coordinate<3>(s, [&](const extents_t<3> & c) {
            want.push_back(c);
        });
        REQUIRE(seen.size() == 24 && seen.size() == want.size());
        for (std::size_t i = 0; i < seen.size(); ++i) {
            REQUIRE(same_extents<3>(seen[i], want[i]));
        }
    }

    {
        extents_t<5> s{2u, 1u, 3u, 2u, 2u};
        std::size_t n = 0;
        covfie::utility::nd_map(
            std::function<void(extents_t<5>)>([&n](extents_t<5>) { ++n; }), s
        );
        REQUIRE(n == 24);
    }

    {
        extents_t<4> s{3u, 0u, 2u, 2u};
        std::size_t n = 0;
        covfie::utility::nd_map<extents_t<4>>([&n](extents_t<4>) { ++n; }, s);
        REQUIRE(n == 0);
    }
}

/*
 * Several threads converting one shared, constant field at the same time.
 */
void test_threads()
{
    using O = covfie::vector::vector_d<float, 3>;

    const extents_t<3> s3{7u, 5u, 6u};
    const extents_t<2> s2{11u, 6u};

    const covfie::field<row_major_t<3, O>> r3(make_reference<3, O>(s3));
    const covfie::field<morton_bmi2_t<3, O>> m3(r3);
    const covfie::field<row_major_t<2, O>> r2(make_reference<2, O>(s2));
    const covfie::field<hilbert_t<O>> h2(r2);

    const std::string r3_bytes = dump_bytes(r3);
    const std::string m3_bytes = dump_bytes(m3);
    const std::string h2_bytes = dump_bytes(h2);

    std::vector<int> ok(6, 0);
    std::vector<std::thread> threads;

    auto body = [&](std::size_t id) {
        bool good = true;

        for (int round = 0; round < 20; ++round) {
            covfie::field<morton_port_t<3, O>> a(r3);
            covfie::field<row_major_t<3, O>> b(m3);
            covfie::field<morton_port_t<3, O>> c(m3);
            covfie::field<row_major_t<3, O>> d(r3);
            covfie::field<row_major_t<2, O>> e(h2);
            covfie::field<hilbert_t<O>> f(r2);
            covfie::field<morton_bmi2_t<2, O>> g(h2);
            covfie::field<hilbert_t<O>> h(std::move(g));
            covfie::field<morton_bmi2_t<3, O>> i(std::move(a));

            std::ostringstream ob(std::ios::binary), od(std::ios::binary),
                of(std::ios::binary), oh(std::ios::binary),
                oi(std::ios::binary);
            b.dump(ob);
            d.dump(od);
            f.dump(of);
            h.dump(oh);
            i.dump(oi);

            good = good && ob.str() == r3_bytes && od.str() == r3_bytes &&
                   of.str() == h2_bytes && oh.str() == h2_bytes &&
                   oi.str() == m3_bytes;

            typename morton_port_t<3, O>::non_owning_data_t cv(c.backend());
            typename row_major_t<2, O>::non_owning_data_t ev(e.backend());

            for (std::size_t x = 0; x < s3[0]; ++x) {
                for (std::size_t y = 0; y < s3[1]; ++y) {
                    for (std::size_t z = 0; z < s3[2]; ++z) {
                        good = good && static_cast<double>(cv.at({x, y, z})[1]
                                       ) == expected_value<3>({x, y, z}, 1);
                    }
                }
            }

            for (std::size_t x = 0; x < s2[0]; ++x) {
                for (std::size_t y = 0; y < s2[1]; ++y) {
                    good = good && static_cast<double>(ev.at({x, y})[2]) ==
                                       expected_value<2>({x, y}, 2);
                }
            }
        }

        ok[id] = good ? 1 : 0;
    };

    for (std::size_t t = 0; t < ok.size(); ++t) {
        threads.emplace_back(body, t);
    }

    for (std::thread & t : threads) {
        t.join();
    }

    for (int v : ok) {
        REQUIRE(v == 1);
    }

    REQUIRE(dump_bytes(r3) == r3_bytes);
    REQUIRE(dump_bytes(m3) == m3_bytes);
    REQUIRE(dump_bytes(h2) == h2_bytes);
}

/*
 * The bytes which end up on disk, pinned down (hashes taken from the library
 * before the change, on x86-64 Linux: the format embeds sizeof(size_t) wide,
 * little-endian integers).
 */
void test_golden_bytes()
{
    using F3 = covfie::vector::vector_d<float, 3>;
    using D1 = covfie::vector::vector_d<double, 1>;

    std::uint64_t h[5];

    {
        covfie::field<morton_bmi2_t<3, F3>> f(
            make_reference<3, F3>({3u, 2u, 5u})
        );
        h[0] = fnv1a(dump_bytes(f));
    }

    {
        covfie::field<hilbert_t<D1>> f(make_reference<2, D1>({5u, 3u}));
        h[1] = fnv1a(dump_bytes(f));
    }

    {
        covfie::field<morton_port_t<4, D1>> m(
            make_reference<4, D1>({2u, 3u, 4u, 2u})
        );
        covfie::field<row_major_t<4, D1>> f(std::move(m));
        h[2] = fnv1a(dump_bytes(f));
    }

    {
        using L = morton_port_t<2, F3>;
        using S = linear_stack_t<L>;
        covfie::field<nearest_stack_t<row_major_t<2, F3>>> n(
            covfie::make_parameter_pack(
                make_translation<2>(0.5f, 0.25f),
                std::monostate{},
                typename row_major_t<2, F3>::owning_data_t(
                    make_reference<2, F3>({6u, 7u}).backend()
                )
            )
        );
        covfie::field<S> f(n);
        h[3] = fnv1a(dump_bytes(f));
        covfie::field<S> g(std::move(n));
        REQUIRE(fnv1a(dump_bytes(g)) == h[3]);
    }

    {
        covfie::field<hilbert_t<D1>> f(make_reference<2, D1>({1u, 40u}));
        h[4] = fnv1a(dump_bytes(f));
    }

    if (std::getenv("DEMO_PRINT_HASHES")) {
        for (std::uint64_t v : h) {
            std::printf("0x%016llxull,\n", static_cast<unsigned long long>(v));
        }
    }

    static const std::uint64_t want[5] = {
        0x48e564da9c3ed944ull,
        0x285fe59bc225aaf1ull,
        0xf665ea27b6b02f0dull,
        0xfdb8c0d344101782ull,
        0x4440f9b248b712a0ull};

    for (std::size_t i = 0; i < 5; ++i) {
        REQUIRE(h[i] == want[i]);
    }
}
}

int main()
{
    using F2 = covfie::vector::vector_d<float, 2>;
    using F3 = covfie::vector::vector_d<float, 3>;
    using D1 = covfie::vector::vector_d<double, 1>;
    using D3 = covfie::vector::vector_d<double, 3>;

    test_nd_map();
    test_empty();

    test_dimension<1, F3>(all_extents<1>(40, {{64u}, {65u}, {129u}}));
    test_dimension<1, D1>(all_extents<1>(20, {{33u}}));

    {
        std::vector<extents_t<2>> extra{
            {1u, 33u},
            {33u, 1u},
            {17u, 3u},
            {2u, 64u},
            {64u, 2u},
            {31u, 32u},
            {32u, 33u},
            {16u, 16u},
            {1u, 130u},
            {9u, 15u}};
        test_dimension<2, F2>(all_extents<2>(9, extra));
        test_dimension<2, D3>(all_extents<2>(6, extra));
    }

    {
        std::vector<extents_t<3>> extra{
            {1u, 1u, 17u},
            {17u, 1u, 1u},
            {9u, 2u, 3u},
            {8u, 8u, 8u},
            {7u, 8u, 9u},
            {3u, 16u, 2u}};
        test_dimension<3, F3>(all_extents<3>(5, extra));
        test_dimension<3, D1>(all_extents<3>(3, extra));
    }

    {
        std::vector<extents_t<4>> extra{
            {5u, 1u, 2u, 4u},
            {1u, 1u, 1u, 9u},
            {4u, 4u, 4u, 4u},
            {3u, 5u, 2u, 6u}};
        test_dimension<4, F2>(all_extents<4>(3, extra));
        test_dimension<4, D1>(all_extents<4>(2, extra));
    }

    test_precision_change();
    test_threads();
    test_golden_bytes();

    std::printf("PASS (%ld checks)\n", g_checks);

    return 0;
}
