// Standalone exerciser for representation changes between covfie fields:
// every ordered pair of storage orders (row-major, Morton BMI2, Morton
// portable, Hilbert in 2D), 1 to 4 dimensions, all extent vectors up to a
// bound (including empty ones) plus some large lopsided ones, float and double
// storage, layer-level and whole-stack affine<I<L<array>>> conversions for I in
// {nearest, linear}; copying conversions, conversions from rvalues and
// temporaries, round trips, copies, moves, assignments, self-assignment,
// reuse of moved-from objects, dump and load, and concurrent conversions of a
// shared constant field.
//
// Compile (from the root of the checkout; works with and without the patch):
//
//   g++ -std=c++20 -O1 -g -mbmi2 -pthread -I lib/core seeded/demo.cpp \
//       -o /tmp/demo && /tmp/demo
//
// (-mbmi2 makes morton<..., true> a different code path from morton<...,
// false>; leave it out on a CPU without BMI2, both are then portable.)
//
// Also run as
//   g++ ... -fsanitize=address,undefined -fno-sanitize-recover=all
//   g++ ... -fsanitize=thread
//   g++ ... -O2 -DNDEBUG
//   valgrind -q --error-exitcode=9 /tmp/demo          (or "/tmp/demo quick")
//
// Against a pristine tree:
//   mkdir /tmp/p && git archive HEAD lib | tar -x -C /tmp/p
//   g++ -std=c++20 -O1 -g -mbmi2 -pthread -I /tmp/p/lib/core seeded/demo.cpp ...
//
// The program prints a digest over the dumps of every field it makes, then
// PASS. The digest is the same with and without the patch. The argument
// "quick" runs a reduced sweep.

#include <array>
#include <cstdint>
#include <cstdio>
#include <cstring>
#include <sstream>
#include <string>
#include <thread>
#include <type_traits>
#include <utility>
#include <variant>
#include <vector>

#include <covfie/core/algebra/affine.hpp>
#include <covfie/core/backend/primitive/array.hpp>
#include <covfie/core/backend/transformer/affine.hpp>
#include <covfie/core/backend/transformer/hilbert.hpp>
#include <covfie/core/backend/transformer/linear.hpp>
#include <covfie/core/backend/transformer/morton.hpp>
#include <covfie/core/backend/transformer/nearest_neighbour.hpp>
#include <covfie/core/backend/transformer/strided.hpp>
#include <covfie/core/field.hpp>
#include <covfie/core/field_view.hpp>
#include <covfie/core/parameter_pack.hpp>
#include <covfie/core/utility/nd_size.hpp>
#include <covfie/core/vector.hpp>

namespace cv = covfie;
namespace be = covfie::backend;

static long g_failures = 0;
static long g_checks = 0;
static std::uint64_t g_digest = 1469598103934665603ull;

#define CHECK(cond, ...)                                                       \
    do {                                                                       \
        ++g_checks;                                                            \
        if (!(cond)) {                                                         \
            if (++g_failures < 40) {                                           \
                std::printf("FAIL %s:%d: %s -- ", __FILE__, __LINE__, #cond);  \
                std::printf(__VA_ARGS__);                                      \
                std::printf("\n");                                             \
            }                                                                  \
        }                                                                      \
    } while (0)

static void digest(const std::string & s)
{
    for (unsigned char c : s) {
        g_digest ^= c;
        g_digest *= 1099511628211ull;
    }
}

// ---------------------------------------------------------------- type lists
template <typename... Ts>
struct type_list {
};

template <typename T>
struct tag {
    using type = T;
};

template <typename F, typename... Ts>
void for_each_type(type_list<Ts...>, F && f)
{
    (f(tag<Ts>{}), ...);
}

template <std::size_t N>
using sizeN = cv::vector::vector_d<std::size_t, N>;
template <std::size_t N>
using floatN = cv::vector::vector_d<float, N>;
template <std::size_t N>
using ext_t = cv::utility::nd_size<N>;

template <typename V, std::size_t N>
using S = be::strided<sizeN<N>, be::array<V>>;
template <typename V, std::size_t N>
using MB = be::morton<sizeN<N>, be::array<V>, true>;
template <typename V, std::size_t N>
using MP = be::morton<sizeN<N>, be::array<V>, false>;
template <typename V>
using H = be::hilbert<sizeN<2>, be::array<V>>;

template <typename V, std::size_t N>
struct layouts {
    using type = type_list<S<V, N>, MB<V, N>, MP<V, N>>;
};

template <typename V>
struct layouts<V, 2> {
    using type = type_list<S<V, 2>, MB<V, 2>, MP<V, 2>, H<V>>;
};

template <typename L>
const char * lname()
{
    return "?";
}

// ------------------------------------------------------------------ lattices
template <std::size_t N>
std::size_t volume(const ext_t<N> & e)
{
    std::size_t r = 1;
    for (std::size_t i = 0; i < N; ++i) {
        r *= e[i];
    }
    return r;
}

// Own odometer, independent of the library.
template <std::size_t N, typename F>
void lattice(const ext_t<N> & e, F && f)
{
    if (volume<N>(e) == 0) {
        return;
    }

    ext_t<N> c;
    for (std::size_t i = 0; i < N; ++i) {
        c[i] = 0;
    }

    for (;;) {
        f(c);
        std::size_t d = N;
        for (;;) {
            if (d == 0) {
                return;
            }
            --d;
            if (++c[d] < e[d]) {
                break;
            }
            c[d] = 0;
        }
    }
}

template <std::size_t N>
std::size_t row_major(const ext_t<N> & c, const ext_t<N> & e)
{
    std::size_t r = 0;
    for (std::size_t i = 0; i < N; ++i) {
        r = r * e[i] + c[i];
    }
    return r;
}

// The reference value of component k at a lattice point; a small integer, so
// exact in float and double, never zero (padding is zero).
template <std::size_t N>
double ref(const ext_t<N> & c, const ext_t<N> & e, std::size_t k, unsigned salt)
{
    return static_cast<double>(
        1 + ((row_major<N>(c, e) * 7 + k * 3 + salt * 11) % 100003)
    );
}

template <std::size_t N>
std::string estr(const ext_t<N> & e)
{
    std::string s = "{";
    for (std::size_t i = 0; i < N; ++i) {
        s += std::to_string(e[i]) + (i + 1 < N ? "," : "}");
    }
    return s;
}

// ------------------------------------------------------------------- helpers
template <typename F>
std::string dump(const F & f)
{
    std::ostringstream os(std::ios::binary);
    f.dump(os);
    return os.str();
}

template <typename F>
F load(const std::string & s)
{
    std::istringstream is(s, std::ios::binary);
    return F(is);
}

template <typename V, std::size_t N>
cv::field<S<V, N>> make_base(const ext_t<N> & e, unsigned salt)
{
    using F = cv::field<S<V, N>>;
    F f(cv::make_parameter_pack(ext_t<N>(e)));
    typename F::view_t v(f);

    lattice<N>(e, [&](const ext_t<N> & c) {
        typename F::coordinate_t cc;
        for (std::size_t i = 0; i < N; ++i) {
            cc[i] = c[i];
        }
        typename F::output_t o = v.at(cc);
        for (std::size_t k = 0; k < V::size; ++k) {
            o[k] = static_cast<typename V::type>(ref<N>(c, e, k, salt));
        }
    });

    return f;
}

// Check a layout layer's owning data: configuration and all lattice values.
template <typename L, std::size_t N>
void check_layer(
    const typename L::owning_data_t & o,
    const ext_t<N> & e,
    unsigned salt,
    const char * what
)
{
    ext_t<N> conf = o.get_configuration();

    for (std::size_t i = 0; i < N; ++i) {
        CHECK(
            conf[i] == e[i],
            "%s: extent %zu is %zu, want %zu (%s)",
            what,
            i,
            conf[i],
            e[i],
            estr<N>(e).c_str()
        );
        if (conf[i] != e[i]) {
            return;
        }
    }

    typename L::non_owning_data_t v(o);

    lattice<N>(e, [&](const ext_t<N> & c) {
        typename L::contravariant_input_t::vector_t cc;
        for (std::size_t i = 0; i < N; ++i) {
            cc[i] = c[i];
        }
        auto && r = v.at(cc);
        for (std::size_t k = 0; k < L::covariant_output_t::dimensions; ++k) {
            CHECK(
                static_cast<double>(r[k]) == ref<N>(c, e, k, salt),
                "%s: value at lattice point %zu of %s comp %zu is %g want %g",
                what,
                row_major<N>(c, e),
                estr<N>(e).c_str(),
                k,
                static_cast<double>(r[k]),
                ref<N>(c, e, k, salt)
            );
        }
    });
}

template <typename L, std::size_t N>
void check_field(
    const cv::field<L> & f, const ext_t<N> & e, unsigned salt, const char * what
)
{
    check_layer<L, N>(f.backend(), e, salt, what);
}

// ---------------------------------------------- layer-level conversion sweep
template <typename V, std::size_t N>
void sweep_layers(const ext_t<N> & e, unsigned salt)
{
    using LL = typename layouts<V, N>::type;

    const cv::field<S<V, N>> base = make_base<V, N>(e, salt);
    check_field<S<V, N>, N>(base, e, salt, "base");

    for_each_type(LL{}, [&](auto t1) {
        using L1 = typename decltype(t1)::type;
        using F1 = cv::field<L1>;

        const F1 f1(base);
        check_field<L1, N>(f1, e, salt, "from base");
        check_field<S<V, N>, N>(base, e, salt, "base after conversion");
        const std::string d1 = dump(f1);
        digest(d1);

        // Same type: copy, move, assignments, self-assignment, dump and load.
        {
            F1 a(f1);
            check_field<L1, N>(a, e, salt, "copy");
            CHECK(dump(a) == d1, "copy dump");
            F1 b(std::move(a));
            check_field<L1, N>(b, e, salt, "move");
            CHECK(dump(b) == d1, "move dump");
            a = b; // revive a moved-from object
            check_field<L1, N>(a, e, salt, "assigned to moved-from");
            check_field<L1, N>(b, e, salt, "source of assignment");
            F1 & ar = a;
            a = ar; // self-assignment
            check_field<L1, N>(a, e, salt, "self-assigned");
            CHECK(dump(a) == d1, "self-assigned dump");
            F1 c;
            c = std::move(b);
            check_field<L1, N>(c, e, salt, "move-assigned");
            b = std::move(c); // back into the moved-from one
            check_field<L1, N>(b, e, salt, "move-assigned back");
            // Overwrite with a field of another shape and back again.
            ext_t<N> e2 = e;
            e2[0] = e[0] + 1;
            F1 other((make_base<V, N>(e2, salt + 1)));
            check_field<L1, N>(other, e2, salt + 1, "other shape");
            a = other;
            check_field<L1, N>(a, e2, salt + 1, "reassigned");
            a = f1;
            check_field<L1, N>(a, e, salt, "reassigned back");
            CHECK(dump(a) == d1, "reassigned back dump");
            F1 l = load<F1>(d1);
            check_field<L1, N>(l, e, salt, "loaded");
            CHECK(dump(l) == d1, "reloaded dump");
        }

        for_each_type(LL{}, [&](auto t2) {
            using L2 = typename decltype(t2)::type;
            using F2 = cv::field<L2>;

            // Copying conversion.
            F2 f2(f1);
            check_field<L2, N>(f2, e, salt, "converted");
            check_field<L1, N>(f1, e, salt, "source after conversion");
            CHECK(dump(f1) == d1, "source bytes after conversion");
            digest(dump(f2));

            // And back again.
            F1 back(f2);
            check_field<L1, N>(back, e, salt, "converted back");
            CHECK(dump(back) == d1, "round trip bytes");

            // Conversion from an rvalue: only the result is looked at, the
            // source is then given a new value and used again.
            F1 tmp(f1);
            F2 f3(std::move(tmp));
            check_field<L2, N>(f3, e, salt, "converted from rvalue");
            CHECK(dump(f3) == dump(f2), "rvalue conversion bytes");
            tmp = f1;
            check_field<L1, N>(tmp, e, salt, "rvalue source reassigned");
            F2 f4(std::move(tmp));
            check_field<L2, N>(f4, e, salt, "converted from rvalue again");

            // Conversion of a temporary.
            F2 f5{F1(f2)};
            check_field<L2, N>(f5, e, salt, "converted from temporary");

            // Assignment of a converted field over an existing one.
            f4 = F2(back);
            check_field<L2, N>(f4, e, salt, "assigned conversion");

            // Through a file.
            F2 l2 = load<F2>(dump(f2));
            F1 l1(l2);
            check_field<L1, N>(l1, e, salt, "loaded and converted");
            CHECK(dump(l1) == d1, "loaded and converted bytes");
        });
    });
}

// ----------------------------------------- float <-> double storage, layers
template <std::size_t N, std::size_t K>
void sweep_cross_scalar(const ext_t<N> & e, unsigned salt)
{
    using VF = cv::vector::vector_d<float, K>;
    using VD = cv::vector::vector_d<double, K>;

    const cv::field<S<VF, N>> bf = make_base<VF, N>(e, salt);
    const cv::field<S<VD, N>> bd = make_base<VD, N>(e, salt);

    for_each_type(typename layouts<VD, N>::type{}, [&](auto t) {
        using LD = typename decltype(t)::type;
        cv::field<LD> fd(bf);
        check_field<LD, N>(fd, e, salt, "float to double");
        cv::field<S<VF, N>> ff(fd);
        check_field<S<VF, N>, N>(ff, e, salt, "double to float");
        CHECK(dump(ff) == dump(bf), "float/double round trip bytes");
    });

    for_each_type(typename layouts<VF, N>::type{}, [&](auto t) {
        using LF = typename decltype(t)::type;
        cv::field<LF> ff(bd);
        check_field<LF, N>(ff, e, salt, "double to float");
        cv::field<MP<VD, N>> fd{cv::field<LF>(ff)};
        check_field<MP<VD, N>, N>(fd, e, salt, "float to double, rvalue");
    });
}

// ------------------------------------------------------ whole-stack sweep
template <typename L>
using NN = be::nearest_neighbour<L>;
template <typename L>
using LI = be::linear<L>;

template <std::size_t N>
cv::algebra::affine<N> make_transform()
{
    cv::algebra::affine<N> m;
    for (std::size_t i = 0; i < N; ++i) {
        for (std::size_t j = 0; j <= N; ++j) {
            m(i, j) = (i == j) ? 1.f : 0.f;
        }
        m(i, N) = static_cast<float>(i + 1);
    }
    return m;
}

template <typename W, std::size_t N>
void check_stack(
    const cv::field<W> & w,
    const ext_t<N> & e,
    unsigned salt,
    bool interior_only,
    const char * what
)
{
    using L = typename W::backend_t::backend_t;

    // Configuration of every layer.
    const cv::algebra::affine<N> want = make_transform<N>();
    const cv::algebra::affine<N> got = w.backend().get_configuration();
    for (std::size_t i = 0; i < N; ++i) {
        for (std::size_t j = 0; j <= N; ++j) {
            CHECK(got(i, j) == want(i, j), "%s: transform", what);
        }
    }
    static_assert(std::is_same_v<
                  decltype(w.backend().get_backend().get_configuration()),
                  std::monostate>);

    // The layout layer in full.
    check_layer<L, N>(w.backend().get_backend().get_backend(), e, salt, what);

    // And through the whole stack. The transform adds (1, 2, ...), so we ask
    // for p - (1, 2, ...). Linear interpolation reads the next lattice point
    // along every axis as well, so it is only asked about interior points.
    typename cv::field<W>::view_t v(w);
    lattice<N>(e, [&](const ext_t<N> & c) {
        typename cv::field<W>::coordinate_t cc;
        for (std::size_t i = 0; i < N; ++i) {
            if (interior_only && c[i] + 1 >= e[i]) {
                return;
            }
            cc[i] = static_cast<float>(c[i]) - static_cast<float>(i + 1);
        }
        auto && r = v.at(cc);
        for (std::size_t k = 0; k < W::covariant_output_t::dimensions; ++k) {
            CHECK(
                static_cast<double>(r[k]) == ref<N>(c, e, k, salt),
                "%s: stack value at point %zu of %s",
                what,
                row_major<N>(c, e),
                estr<N>(e).c_str()
            );
        }
    });
}

template <typename V, std::size_t N>
void sweep_stacks(const ext_t<N> & e, unsigned salt)
{
    using LL = typename layouts<V, N>::type;

    const cv::field<S<V, N>> base = make_base<V, N>(e, salt);

    for_each_type(LL{}, [&](auto t1) {
        using L1 = typename decltype(t1)::type;
        const cv::field<L1> f1(base);

        auto from = [&](auto i1, bool lin1) {
            using W1 = be::affine<typename decltype(i1)::type>;
            using FW1 = cv::field<W1>;

            const FW1 w1(cv::make_parameter_pack(
                make_transform<N>(),
                std::monostate{},
                typename L1::owning_data_t(f1.backend())
            ));
            check_stack<W1, N>(w1, e, salt, lin1, "stack built");
            const std::string d1 = dump(w1);
            digest(d1);

            for_each_type(LL{}, [&](auto t2) {
                using L2 = typename decltype(t2)::type;

                auto to = [&](auto i2, bool lin2) {
                    using W2 = be::affine<typename decltype(i2)::type>;
                    using FW2 = cv::field<W2>;

                    FW2 w2(w1);
                    check_stack<W2, N>(w2, e, salt, lin2, "stack converted");
                    check_stack<W1, N>(w1, e, salt, lin1, "stack source");
                    CHECK(dump(w1) == d1, "stack source bytes");
                    digest(dump(w2));

                    FW1 back(w2);
                    check_stack<W1, N>(back, e, salt, lin1, "stack back");
                    CHECK(dump(back) == d1, "stack round trip bytes");

                    FW1 tmp(w1);
                    FW2 w3(std::move(tmp));
                    check_stack<W2, N>(w3, e, salt, lin2, "stack from rvalue");
                    CHECK(dump(w3) == dump(w2), "stack rvalue bytes");
                    tmp = w1;
                    check_stack<W1, N>(tmp, e, salt, lin1, "stack reassigned");

                    FW2 w4{FW1(w2)};
                    check_stack<W2, N>(w4, e, salt, lin2, "stack from temp");
                    w4 = w3;
                    check_stack<W2, N>(w4, e, salt, lin2, "stack assigned");
                    FW2 & w4r = w4;
                    w4 = w4r;
                    check_stack<W2, N>(w4, e, salt, lin2, "stack self-assign");
                    w3 = std::move(w4);
                    check_stack<W2, N>(w3, e, salt, lin2, "stack move-assign");

                    FW2 l = load<FW2>(dump(w2));
                    check_stack<W2, N>(l, e, salt, lin2, "stack loaded");
                    CHECK(dump(l) == dump(w2), "stack reloaded bytes");
                };

                to(tag<NN<L2>>{}, false);
                to(tag<LI<L2>>{}, true);
            });
        };

        from(tag<NN<L1>>{}, false);
        from(tag<LI<L1>>{}, true);
    });
}

// -------------------------------------------------------------------- sweeps
template <std::size_t N, typename F>
void all_extents(std::size_t bound, F && f)
{
    ext_t<N> b;
    for (std::size_t i = 0; i < N; ++i) {
        b[i] = bound + 1;
    }
    lattice<N>(b, [&](const ext_t<N> & e) { f(e); });
}

template <std::size_t N>
void run_dim(std::size_t bound_layers, std::size_t bound_stacks)
{
    unsigned salt = static_cast<unsigned>(N);

    all_extents<N>(bound_layers, [&](const ext_t<N> & e) {
        sweep_layers<cv::vector::float3, N>(e, ++salt);
        sweep_layers<cv::vector::double3, N>(e, ++salt);
        sweep_layers<cv::vector::float1, N>(e, ++salt);
    });

    all_extents<N>(bound_stacks, [&](const ext_t<N> & e) {
        sweep_stacks<cv::vector::float3, N>(e, ++salt);
        sweep_stacks<cv::vector::double3, N>(e, ++salt);
        sweep_cross_scalar<N, 2>(e, ++salt);
    });
}

// A few larger, lopsided shapes, which have many tiles and a lot of padding.
static void run_large()
{
    unsigned salt = 1000;
    sweep_layers<cv::vector::float3, 1>(ext_t<1>{5000ul}, ++salt);
    sweep_layers<cv::vector::float3, 2>(ext_t<2>{67ul, 130ul}, ++salt);
    sweep_layers<cv::vector::double3, 2>(ext_t<2>{129ul, 3ul}, ++salt);
    sweep_layers<cv::vector::float3, 3>(ext_t<3>{17ul, 9ul, 33ul}, ++salt);
    sweep_layers<cv::vector::double3, 3>(ext_t<3>{1ul, 40ul, 7ul}, ++salt);
    sweep_layers<cv::vector::float3, 4>(ext_t<4>{5ul, 9ul, 3ul, 6ul}, ++salt);
    sweep_stacks<cv::vector::float3, 3>(ext_t<3>{9ul, 17ul, 5ul}, ++salt);
    sweep_stacks<cv::vector::double3, 2>(ext_t<2>{33ul, 31ul}, ++salt);
}

// Several threads convert one shared, constant field at the same time.
static void run_threads()
{
    using V = cv::vector::float3;
    const ext_t<3> e{13ul, 6ul, 10ul};
    const cv::field<S<V, 3>> base = make_base<V, 3>(e, 77);
    const cv::field<MB<V, 3>> mb(base);

    std::vector<long> bad(8, 0);
    std::vector<std::thread> ts;

    for (int i = 0; i < 8; ++i) {
        ts.emplace_back([&, i]() {
            for (int r = 0; r < 20; ++r) {
                long before = g_failures; // not touched by the threads
                (void)before;
                // Thread-local verification, no shared counters.
                auto verify = [&](const auto & f) {
                    using L = typename std::decay_t<decltype(f)>::backend_t;
                    typename L::non_owning_data_t v(f.backend());
                    ext_t<3> conf = f.backend().get_configuration();
                    for (std::size_t k = 0; k < 3; ++k) {
                        if (conf[k] != e[k]) {
                            ++bad[i];
                        }
                    }
                    lattice<3>(e, [&](const ext_t<3> & c) {
                        typename L::contravariant_input_t::vector_t cc;
                        for (std::size_t k = 0; k < 3; ++k) {
                            cc[k] = c[k];
                        }
                        auto && x = v.at(cc);
                        for (std::size_t k = 0; k < 3; ++k) {
                            if (static_cast<double>(x[k]) !=
                                ref<3>(c, e, k, 77)) {
                                ++bad[i];
                            }
                        }
                    });
                };

                switch ((i + r) % 4) {
                    case 0:
                        verify(cv::field<MP<V, 3>>(mb));
                        break;
                    case 1:
                        verify(cv::field<S<V, 3>>(mb));
                        break;
                    case 2:
                        verify(cv::field<MB<V, 3>>(base));
                        break;
                    default:
                        verify(cv::field<MB<V, 3>>(cv::field<MP<V, 3>>(base)));
                        break;
                }
            }
        });
    }

    for (std::thread & t : ts) {
        t.join();
    }

    for (long b : bad) {
        CHECK(b == 0, "threaded conversion");
    }

    check_field<S<V, 3>, 3>(base, e, 77, "shared source after threads");
    check_field<MB<V, 3>, 3>(mb, e, 77, "shared source after threads");
}

int main(int argc, char ** argv)
{
    const bool quick = argc > 1 && std::strcmp(argv[1], "quick") == 0;

    if (quick) {
        run_dim<1>(6, 3);
        run_dim<2>(3, 2);
        run_dim<3>(2, 1);
        run_dim<4>(1, 1);
    } else {
        run_dim<1>(20, 9);
        run_dim<2>(6, 4);
        run_dim<3>(4, 2);
        run_dim<4>(2, 2);
        run_large();
    }

    run_threads();

    std::printf(
        "checks=%ld failures=%ld digest=%016llx\n",
        g_checks,
        g_failures,
        static_cast<unsigned long long>(g_digest)
    );

    if (g_failures != 0) {
        std::printf("FAILED\n");
        return 1;
    }

    std::printf("PASS\n");
    return 0;
}
