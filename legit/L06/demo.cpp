// Standalone exerciser for the covfie binary dump/load path (property C06).
//
// Compile (from anywhere; one line):
//   g++ -std=c++20 -O1 -g -Wall -Wextra -pthread -I/tmp/wt_L06/lib/core /tmp/wt_L06/seeded/demo.cpp -o /tmp/wt_L06/seeded/demo
// Sanitizers:
//   ... -fsanitize=address,undefined -fno-sanitize-recover=undefined ...
//   ... -fsanitize=thread ...
// Also meaningful with -DNDEBUG and with -O0/-O2.
//
// The program prints "PASS" and exits 0 both with the original library and
// with the reworked serialisers. It does not look at HOW bytes reach the
// stream (number/size of write calls, exception class beyond
// std::runtime_error / std::exception), only at WHAT is produced.
//
// Strategy: byte streams are synthesised by an encoder that lives in this
// file (so the on-disk format is checked against an independent oracle), are
// loaded through covfie::field(std::istream &), and the loaded field is then
//   (a) walked layer by layer and compared - bit for bit - against the
//       configuration and values that were synthesised,
//   (b) dumped again; the dump must be identical to the synthesised bytes,
//   (c) reloaded from its own dump and dumped a third time.

#include <atomic>
#include <cstdint>
#include <cstdio>
#include <cstring>
#include <fstream>
#include <iostream>
#include <sstream>
#include <stdexcept>
#include <streambuf>
#include <string>
#include <thread>
#include <utility>
#include <variant>
#include <vector>

#include <unistd.h>

#include <covfie/core/backend/primitive/array.hpp>
#include <covfie/core/backend/primitive/constant.hpp>
#include <covfie/core/backend/primitive/identity.hpp>
#include <covfie/core/backend/transformer/affine.hpp>
#include <covfie/core/backend/transformer/backup.hpp>
#include <covfie/core/backend/transformer/clamp.hpp>
#include <covfie/core/backend/transformer/covariant_cast.hpp>
#include <covfie/core/backend/transformer/dereference.hpp>
#include <covfie/core/backend/transformer/hilbert.hpp>
#include <covfie/core/backend/transformer/linear.hpp>
#include <covfie/core/backend/transformer/morton.hpp>
#include <covfie/core/backend/transformer/nearest_neighbour.hpp>
#include <covfie/core/backend/transformer/shuffle.hpp>
#include <covfie/core/backend/transformer/strided.hpp>
#include <covfie/core/field.hpp>

namespace cb = covfie::backend;
namespace cv = covfie::vector;

using bytes_t = std::string;

// ---------------------------------------------------------------------------
// bookkeeping
// ---------------------------------------------------------------------------
static std::atomic<unsigned long> g_checks{0};
static std::atomic<unsigned long> g_failures{0};

#define CHECK(cond)                                                            \
    do {                                                                       \
        ++g_checks;                                                            \
        if (!(cond)) {                                                         \
            if (++g_failures < 40) {                                           \
                std::fprintf(                                                  \
                    stderr, "FAIL %s:%d: %s\n", __FILE__, __LINE__, #cond      \
                );                                                             \
            }                                                                  \
        }                                                                      \
    } while (0)

// ---------------------------------------------------------------------------
// deterministic generator of extents and "interesting" bit patterns
// ---------------------------------------------------------------------------
struct gen {
    explicit gen(uint64_t seed)
        : s(seed * 0x9E3779B97F4A7C15ull + 0x1234567ull)
    {
    }

    uint64_t next()
    {
        s ^= s << 13;
        s ^= s >> 7;
        s ^= s << 17;
        return s;
    }

    std::size_t below(std::size_t n)
    {
        return static_cast<std::size_t>(next() % n);
    }

    uint32_t f32_bits()
    {
        static const uint32_t pool[] = {
            0x00000000u, 0x80000000u, // +0, -0
            0x00000001u, 0x80000001u, // smallest subnormals
            0x007FFFFFu, 0x807FFFFFu, // largest subnormals
            0x00800000u, 0x7F7FFFFFu, 0xFF7FFFFFu, // min normal, +-max
            0x7F800000u, 0xFF800000u, // +-inf
            0x7FC00000u, 0xFFC00000u, // default quiet NaNs
            0x7FC12345u, 0xFFEABCDEu, // quiet NaNs with payload
            0x7F800001u, 0xFF800001u, 0x7FA00000u, 0x7FBFFFFFu, // signalling
            0x3F800000u, 0xBF800000u, 0x40490FDBu};
        const std::size_t n = sizeof(pool) / sizeof(pool[0]);
        const std::size_t k = below(n + 6);
        return k < n ? pool[k] : static_cast<uint32_t>(next());
    }

    uint64_t f64_bits()
    {
        static const uint64_t pool[] = {
            0x0000000000000000ull, 0x8000000000000000ull,
            0x0000000000000001ull, 0x8000000000000001ull,
            0x000FFFFFFFFFFFFFull, 0x800FFFFFFFFFFFFFull,
            0x0010000000000000ull, 0x7FEFFFFFFFFFFFFFull,
            0xFFEFFFFFFFFFFFFFull, 0x7FF0000000000000ull,
            0xFFF0000000000000ull, 0x7FF8000000000000ull,
            0xFFF8000000000000ull, 0x7FF8000123456789ull,
            0xFFFABCDEF0123456ull, 0x7FF0000000000001ull,
            0xFFF0000000000001ull, 0x7FF4000000000000ull,
            0x7FF7FFFFFFFFFFFFull, 0x3FF0000000000000ull,
            0xBFF0000000000000ull, 0x400921FB54442D18ull};
        const std::size_t n = sizeof(pool) / sizeof(pool[0]);
        const std::size_t k = below(n + 6);
        return k < n ? pool[k] : next();
    }

    // Append one scalar of type T with an "interesting" bit pattern.
    template <typename T>
    void scalar(bytes_t & out)
    {
        if constexpr (std::is_same_v<T, float>) {
            uint32_t b = f32_bits();
            out.append(reinterpret_cast<const char *>(&b), sizeof(b));
        } else if constexpr (std::is_same_v<T, double>) {
            uint64_t b = f64_bits();
            out.append(reinterpret_cast<const char *>(&b), sizeof(b));
        } else {
            uint64_t b = next();
            if (below(4) == 0) {
                b = below(3) == 0 ? 0 : ~uint64_t(0) >> below(64);
            }
            out.append(reinterpret_cast<const char *>(&b), sizeof(T));
        }
    }

    // Array element counts: many small ones, plus values around the sizes at
    // which buffers of 4 KiB (of 1, 2, 3 floats or doubles) fill up.
    std::size_t count()
    {
        static const std::size_t pool[] = {
            0,   1,   2,   3,   5,    7,    8,    63,   64,   65,  127,
            128, 169, 170, 171, 255,  256,  257,  337,  338,  339, 340,
            341, 342, 343, 509, 510,  511,  512,  513,  514,  681, 682,
            683, 684, 1019, 1020, 1021, 1022, 1023, 1024, 1025, 1026,
            1365, 1366, 2047, 2048, 2049, 4095, 4096, 4097, 10007};
        return pool[below(sizeof(pool) / sizeof(pool[0]))];
    }

    std::size_t extent()
    {
        static const std::size_t pool[] = {0, 1, 1, 2, 2, 3, 4, 5, 7, 8, 9,
                                           11, 16, 17, 23, 32, 33};
        return pool[below(sizeof(pool) / sizeof(pool[0]))];
    }

    uint64_t s;
};

// ---------------------------------------------------------------------------
// the independent encoder / walker
// ---------------------------------------------------------------------------
static void put_u32(bytes_t & o, uint32_t v)
{
    o.append(reinterpret_cast<const char *>(&v), 4);
}

static void put_u64(bytes_t & o, uint64_t v)
{
    o.append(reinterpret_cast<const char *>(&v), 8);
}

static void put_header(bytes_t & o, uint32_t id)
{
    put_u32(o, 0xC04F1EABu);
    put_u32(o, id);
}

static void put_footer(bytes_t & o, uint32_t id)
{
    put_u32(o, 0xC04F1E70u);
    put_u32(o, id + 0x20000000u);
}

struct cursor {
    const bytes_t & b;
    std::size_t pos = 0;

    const char * take(std::size_t n)
    {
        const char * p = b.data() + pos;
        CHECK(pos + n <= b.size());
        pos += n;
        return p;
    }

    void skip_tag()
    {
        take(8);
    }
};

static std::size_t round_pow2(std::size_t v)
{
    std::size_t r = 1;
    while (r < v) {
        r *= 2;
    }
    return r;
}

template <typename B>
struct codec;

// --- array ---------------------------------------------------------------
template <typename V, typename I>
struct codec<cb::array<V, I>> {
    using B = cb::array<V, I>;
    using scalar_t = typename V::type;

    static void enc(bytes_t & o, gen & g, std::size_t n)
    {
        put_header(o, 0xAB010000u);
        put_u32(o, static_cast<uint32_t>(sizeof(scalar_t)));
        put_u64(o, n);
        for (std::size_t i = 0; i < n * V::size; ++i) {
            g.scalar<scalar_t>(o);
        }
        put_footer(o, 0xAB010000u);
    }

    static void walk(const typename B::owning_data_t & d, cursor & c)
    {
        c.skip_tag();
        c.take(4);
        uint64_t n;
        std::memcpy(&n, c.take(8), 8);
        CHECK(d.get_configuration()[0] == n);
        CHECK(d.m_size == n);
        CHECK(n == 0 || d.m_ptr);
        const std::size_t nbytes =
            static_cast<std::size_t>(n) * V::size * sizeof(scalar_t);
        const char * expect = c.take(nbytes);
        static_assert(
            sizeof(typename B::vector_t) == V::size * sizeof(scalar_t)
        );
        if (n > 0 && d.m_ptr) {
            CHECK(std::memcmp(d.m_ptr.get(), expect, nbytes) == 0);
            // and once more through the public element accessors
            typename B::non_owning_data_t v(d);
            bool same = true;
            for (std::size_t i = 0; i < n; ++i) {
                for (std::size_t j = 0; j < V::size; ++j) {
                    same = same && std::memcmp(
                                       &v.at(static_cast<I>(i))[j],
                                       expect + (i * V::size + j) *
                                                    sizeof(scalar_t),
                                       sizeof(scalar_t)
                                   ) == 0;
                }
            }
            CHECK(same);
        }
        c.skip_tag();
    }
};

// --- constant ------------------------------------------------------------
template <typename IV, typename OV>
struct codec<cb::constant<IV, OV>> {
    using B = cb::constant<IV, OV>;

    static void enc(bytes_t & o, gen & g, std::size_t)
    {
        put_header(o, 0xAB010001u);
        for (std::size_t i = 0; i < OV::size; ++i) {
            g.scalar<typename OV::type>(o);
        }
        put_footer(o, 0xAB010001u);
    }

    static void walk(const typename B::owning_data_t & d, cursor & c)
    {
        c.skip_tag();
        auto conf = d.get_configuration();
        const std::size_t nbytes = OV::size * sizeof(typename OV::type);
        static_assert(sizeof(conf) == OV::size * sizeof(typename OV::type));
        CHECK(std::memcmp(&conf, c.take(nbytes), nbytes) == 0);
        c.skip_tag();
    }
};

// --- identity ------------------------------------------------------------
template <typename V>
struct codec<cb::identity<V>> {
    using B = cb::identity<V>;

    static void enc(bytes_t & o, gen &, std::size_t)
    {
        put_header(o, 0xAB010002u);
        put_footer(o, 0xAB010002u);
    }

    static void walk(const typename B::owning_data_t &, cursor & c)
    {
        c.skip_tag();
        c.skip_tag();
    }
};

// --- the three index layouts -----------------------------------------------
template <typename B, uint32_t ID, bool POW2>
struct layout_codec {
    static constexpr std::size_t dims = B::contravariant_input_t::dimensions;

    static void enc(bytes_t & o, gen & g, std::size_t)
    {
        std::size_t sizes[dims];
        std::size_t n = 1, mx = 0;
        for (std::size_t i = 0; i < dims; ++i) {
            sizes[i] = g.extent();
            // keep the total volume moderate
            if (dims >= 3 && sizes[i] > 17) {
                sizes[i] = 17;
            }
            n *= sizes[i];
            mx = sizes[i] > mx ? sizes[i] : mx;
        }
        if (POW2) {
            n = 1;
            for (std::size_t i = 0; i < dims; ++i) {
                n *= round_pow2(mx);
            }
            if (mx == 0) {
                n = 0;
            }
        }
        put_header(o, ID);
        for (std::size_t i = 0; i < dims; ++i) {
            put_u64(o, sizes[i]);
        }
        codec<typename B::backend_t>::enc(o, g, n);
        put_footer(o, ID);
    }

    static void walk(const typename B::owning_data_t & d, cursor & c)
    {
        c.skip_tag();
        auto conf = d.get_configuration();
        static_assert(sizeof(conf) == dims * 8);
        CHECK(std::memcmp(&conf, c.take(dims * 8), dims * 8) == 0);
        codec<typename B::backend_t>::walk(d.get_backend(), c);
        c.skip_tag();
    }
};

template <typename IV, typename S>
struct codec<cb::strided<IV, S>>
    : layout_codec<cb::strided<IV, S>, 0xAB020010u, false> {
};

template <typename IV, typename S, bool X>
struct codec<cb::morton<IV, S, X>>
    : layout_codec<cb::morton<IV, S, X>, 0xAB020006u, true> {
};

template <typename IV, typename S>
struct codec<cb::hilbert<IV, S>>
    : layout_codec<cb::hilbert<IV, S>, 0xAB020004u, true> {
};

// --- clamp ---------------------------------------------------------------
template <typename S>
struct codec<cb::clamp<S>> {
    using B = cb::clamp<S>;
    using in_t = typename B::contravariant_input_t;

    static void enc(bytes_t & o, gen & g, std::size_t n)
    {
        put_header(o, 0xAB020002u);
        for (std::size_t i = 0; i < 2 * in_t::dimensions; ++i) {
            g.scalar<typename in_t::scalar_t>(o);
        }
        codec<S>::enc(o, g, n);
        put_footer(o, 0xAB020002u);
    }

    static void walk(const typename B::owning_data_t & d, cursor & c)
    {
        c.skip_tag();
        auto conf = d.get_configuration();
        const std::size_t nb =
            in_t::dimensions * sizeof(typename in_t::scalar_t);
        static_assert(sizeof(conf.min) == in_t::dimensions * sizeof(typename in_t::scalar_t));
        CHECK(std::memcmp(&conf.min, c.take(nb), nb) == 0);
        CHECK(std::memcmp(&conf.max, c.take(nb), nb) == 0);
        codec<S>::walk(d.get_backend(), c);
        c.skip_tag();
    }
};

// --- backup (out-of-range default) -----------------------------------------
template <typename S>
struct codec<cb::backup<S>> {
    using B = cb::backup<S>;
    using in_t = typename B::contravariant_input_t;
    using out_t = typename B::covariant_output_t;

    static void enc(bytes_t & o, gen & g, std::size_t n)
    {
        put_header(o, 0xAB020001u);
        for (std::size_t i = 0; i < 2 * in_t::dimensions; ++i) {
            g.scalar<typename in_t::scalar_t>(o);
        }
        for (std::size_t i = 0; i < out_t::dimensions; ++i) {
            g.scalar<typename out_t::scalar_t>(o);
        }
        codec<S>::enc(o, g, n);
        put_footer(o, 0xAB020001u);
    }

    static void walk(const typename B::owning_data_t & d, cursor & c)
    {
        c.skip_tag();
        auto conf = d.get_configuration();
        const std::size_t nb =
            in_t::dimensions * sizeof(typename in_t::scalar_t);
        const std::size_t ob =
            out_t::dimensions * sizeof(typename out_t::scalar_t);
        CHECK(std::memcmp(&conf.min, c.take(nb), nb) == 0);
        CHECK(std::memcmp(&conf.max, c.take(nb), nb) == 0);
        CHECK(std::memcmp(&conf.default_value, c.take(ob), ob) == 0);
        codec<S>::walk(d.get_backend(), c);
        c.skip_tag();
    }
};

// --- affine ----------------------------------------------------------------
template <typename S>
struct codec<cb::affine<S>> {
    using B = cb::affine<S>;
    using in_t = typename B::contravariant_input_t;
    static constexpr std::size_t N = in_t::dimensions;

    static void enc(bytes_t & o, gen & g, std::size_t n)
    {
        put_header(o, 0xAB020000u);
        for (std::size_t i = 0; i < N * (N + 1); ++i) {
            g.scalar<typename in_t::scalar_t>(o);
        }
        codec<S>::enc(o, g, n);
        put_footer(o, 0xAB020000u);
    }

    static void walk(const typename B::owning_data_t & d, cursor & c)
    {
        c.skip_tag();
        auto conf = d.get_configuration();
        using sc = typename in_t::scalar_t;
        const char * e = c.take(N * (N + 1) * sizeof(sc));
        bool same = true;
        for (std::size_t i = 0; i < N; ++i) {
            for (std::size_t j = 0; j < N + 1; ++j) {
                // element-wise, through the stored object's bytes
                same = same && std::memcmp(
                                   reinterpret_cast<const char *>(&conf) +
                                       (i * (N + 1) + j) * sizeof(sc),
                                   e + (i * (N + 1) + j) * sizeof(sc),
                                   sizeof(sc)
                               ) == 0;
            }
        }
        static_assert(sizeof(conf) == N * (N + 1) * sizeof(sc));
        CHECK(same);
        codec<S>::walk(d.get_backend(), c);
        c.skip_tag();
    }
};

// --- layers without any bytes of their own ---------------------------------
template <typename B>
struct passthrough_codec {
    static void enc(bytes_t & o, gen & g, std::size_t n)
    {
        codec<typename B::backend_t>::enc(o, g, n);
    }

    static void walk(const typename B::owning_data_t & d, cursor & c)
    {
        codec<typename B::backend_t>::walk(d.get_backend(), c);
    }
};

template <typename T, typename S>
struct codec<cb::covariant_cast<T, S>>
    : passthrough_codec<cb::covariant_cast<T, S>> {
};

template <typename S>
struct codec<cb::dereference<S>> : passthrough_codec<cb::dereference<S>> {
};

template <typename S, typename V>
struct codec<cb::linear<S, V>> : passthrough_codec<cb::linear<S, V>> {
};

template <typename S, typename V>
struct codec<cb::nearest_neighbour<S, V>>
    : passthrough_codec<cb::nearest_neighbour<S, V>> {
};

template <typename S, typename X>
struct codec<cb::shuffle<S, X>> : passthrough_codec<cb::shuffle<S, X>> {
};

template <typename B>
bytes_t synthesise(gen & g, std::size_t n)
{
    bytes_t o;
    put_header(o, 0xAB000000u);
    codec<B>::enc(o, g, n);
    put_footer(o, 0xAB000000u);
    return o;
}

// ---------------------------------------------------------------------------
// stream flavours
// ---------------------------------------------------------------------------

// Input: not seekable, hands out the data in small irregular pieces.
class dribble_inbuf : public std::streambuf
{
public:
    dribble_inbuf(const bytes_t & b, std::size_t piece)
        : m_b(b)
        , m_pos(0)
        , m_piece(piece == 0 ? 1 : piece)
    {
    }

    std::size_t consumed() const
    {
        return m_pos - static_cast<std::size_t>(egptr() - gptr());
    }

protected:
    int_type underflow() override
    {
        if (m_pos >= m_b.size()) {
            return traits_type::eof();
        }
        std::size_t n = 1 + (m_pos * 7 + 3) % m_piece;
        if (n > m_b.size() - m_pos) {
            n = m_b.size() - m_pos;
        }
        m_cur.assign(m_b.data() + m_pos, n);
        m_pos += n;
        setg(m_cur.data(), m_cur.data(), m_cur.data() + n);
        return traits_type::to_int_type(m_cur[0]);
    }

private:
    const bytes_t & m_b;
    std::size_t m_pos;
    std::size_t m_piece;
    bytes_t m_cur;
};

// Output: unbuffered, not seekable, optionally starts failing after a limit.
class sink_outbuf : public std::streambuf
{
public:
    explicit sink_outbuf(std::size_t limit = static_cast<std::size_t>(-1))
        : m_limit(limit)
    {
    }

    bytes_t data;

protected:
    int_type overflow(int_type ch) override
    {
        if (traits_type::eq_int_type(ch, traits_type::eof())) {
            return traits_type::not_eof(ch);
        }
        if (data.size() >= m_limit) {
            return traits_type::eof();
        }
        data.push_back(traits_type::to_char_type(ch));
        return ch;
    }

    std::streamsize xsputn(const char * s, std::streamsize n) override
    {
        std::size_t room = m_limit - data.size();
        std::size_t k = static_cast<std::size_t>(n) < room
                            ? static_cast<std::size_t>(n)
                            : room;
        data.append(s, k);
        return static_cast<std::streamsize>(k);
    }

private:
    std::size_t m_limit;
};

template <typename F>
bytes_t dump_sstream(const F & f)
{
    std::ostringstream os(std::ios::binary);
    f.dump(os);
    CHECK(os.good());
    return os.str();
}

template <typename F>
bytes_t dump_sink(const F & f)
{
    sink_outbuf sb;
    std::ostream os(&sb);
    f.dump(os);
    CHECK(os.good());
    return sb.data;
}

static std::string tmp_name(unsigned tid, unsigned long k)
{
    return "/tmp/covfie_c06_demo_" + std::to_string(::getpid()) + "_" +
           std::to_string(tid) + "_" + std::to_string(k) + ".cvf";
}

// ---------------------------------------------------------------------------
// the core round-trip check for one stack type and one synthesised stream
// ---------------------------------------------------------------------------
template <typename B>
void round_trip(gen & g, unsigned tid, unsigned long iter, std::size_t n)
{
    using field_t = covfie::field<B>;

    const bytes_t in = synthesise<B>(g, n);

    // 1. load from a seekable stream, with trailing bytes behind the field
    {
        std::istringstream is(in + "XYZ", std::ios::binary);
        field_t f(is);

        // the loader consumed exactly the field and left the stream usable
        CHECK(is.good());
        CHECK(!is.eof());
        CHECK(static_cast<std::size_t>(is.tellg()) == in.size());
        CHECK(is.get() == 'X');

        cursor c{in};
        c.skip_tag();
        codec<B>::walk(f.backend(), c);
        c.skip_tag();
        CHECK(c.pos == in.size());

        const bytes_t d1 = dump_sstream(f);
        CHECK(d1 == in);
        CHECK(dump_sink(f) == in);

        // 2. reload from own dump, through the dribbling stream
        dribble_inbuf ib(d1, 1 + g.below(29));
        std::istream is2(&ib);
        field_t f2(is2);
        CHECK(is2.good());
        CHECK(ib.consumed() == d1.size());
        cursor c2{in};
        c2.skip_tag();
        codec<B>::walk(f2.backend(), c2);
        CHECK(dump_sstream(f2) == in);

        // 3. copies, moves, assignments
        field_t fc(f);
        CHECK(dump_sstream(fc) == in);
        CHECK(dump_sstream(f) == in);

        field_t fm(std::move(fc));
        CHECK(dump_sstream(fm) == in);

        fc = f2; // assign to a moved-from object
        CHECK(dump_sstream(fc) == in);

        field_t & alias = fc;
        fc = alias; // self copy-assignment
        CHECK(dump_sstream(fc) == in);

        field_t fd;
        fd = std::move(fm);
        CHECK(dump_sstream(fd) == in);

        field_t & alias2 = fd;
        fd = std::move(alias2); // self move-assignment
        CHECK(dump_sstream(fd) == in);

    }

    // 4. two fields back to back in one stream
    {
        const bytes_t in2 = synthesise<B>(g, g.count());
        std::istringstream is(in + in2, std::ios::binary);
        field_t a(is);
        field_t b(is);
        CHECK(is.good());
        CHECK(static_cast<std::size_t>(is.tellg()) == in.size() + in2.size());
        CHECK(dump_sstream(a) == in);
        CHECK(dump_sstream(b) == in2);
    }

    // 5. through a real file, now and then
    if (iter % 8 == 0) {
        const std::string name = tmp_name(tid, iter);
        {
            std::istringstream is(in, std::ios::binary);
            field_t f(is);
            std::ofstream ofs(name, std::ios::binary);
            CHECK(ofs.good());
            f.dump(ofs);
            CHECK(ofs.good());
        }
        {
            std::ifstream ifs(name, std::ios::binary);
            CHECK(ifs.good());
            field_t f(ifs);
            CHECK(ifs.good());
            CHECK(static_cast<std::size_t>(ifs.tellg()) == in.size());
            CHECK(ifs.peek() == std::char_traits<char>::eof());
            CHECK(dump_sstream(f) == in);
        }
        {
            std::ifstream ifs(name, std::ios::binary);
            std::stringstream all;
            all << ifs.rdbuf();
            CHECK(all.str() == in);
        }
        std::remove(name.c_str());
    }
}

// Every strict prefix of a valid stream must be rejected with an exception
// derived from std::runtime_error, and so must streams whose markers or float
// width have been damaged.
template <typename B>
void reject_damaged(gen & g, std::size_t n)
{
    using field_t = covfie::field<B>;

    const bytes_t in = synthesise<B>(g, n);

    for (std::size_t len = 0; len < in.size();
         len += 1 + (in.size() > 600 ? g.below(in.size() / 150) : 0))
    {
        bool threw = false;
        try {
            std::istringstream is(in.substr(0, len), std::ios::binary);
            field_t f(is);
        } catch (const std::runtime_error &) {
            threw = true;
        }
        CHECK(threw);

        threw = false;
        try {
            const bytes_t cut = in.substr(0, len);
            dribble_inbuf ib(cut, 5);
            std::istream is(&ib);
            field_t f(is);
        } catch (const std::runtime_error &) {
            threw = true;
        }
        CHECK(threw);
    }

    // damage the outermost header, the outermost footer
    for (std::size_t p : {std::size_t(0), std::size_t(3), std::size_t(4),
                          std::size_t(7), in.size() - 8, in.size() - 5,
                          in.size() - 4, in.size() - 1})
    {
        bytes_t bad = in;
        bad[p] = static_cast<char>(bad[p] ^ 0x10);
        bool threw = false;
        try {
            std::istringstream is(bad, std::ios::binary);
            field_t f(is);
        } catch (const std::runtime_error &) {
            threw = true;
        }
        CHECK(threw);
    }
}

// ---------------------------------------------------------------------------
// array specific checks
// ---------------------------------------------------------------------------
template <typename T>
[[gnu::noinline]] T launder_value(T v)
{
    volatile T x = v;
    return x;
}

// A stream that stores floats of the other width must be converted value by
// value. (No signalling NaNs here: converting those is not bit-preserving.)
template <typename file_t, typename mem_t, std::size_t W>
void cross_width(gen & g, std::size_t n)
{
    using field_t =
        covfie::field<cb::array<cv::vector_d<mem_t, W>>>;

    std::vector<file_t> vals(n * W);
    for (auto & v : vals) {
        switch (g.below(8)) {
            case 0:
                v = static_cast<file_t>(0.0);
                break;
            case 1:
                v = -static_cast<file_t>(0.0);
                break;
            case 2:
                v = std::numeric_limits<file_t>::infinity();
                break;
            case 3:
                v = -std::numeric_limits<file_t>::infinity();
                break;
            case 4:
                v = std::numeric_limits<file_t>::denorm_min() *
                    static_cast<file_t>(1 + g.below(1000));
                break;
            case 5:
                v = std::numeric_limits<file_t>::quiet_NaN();
                break;
            default:
                v = static_cast<file_t>(
                    (static_cast<double>(g.next() >> 11) / 9007199254740992.0 -
                     0.5) *
                    1e6
                );
        }
    }

    bytes_t in;
    put_header(in, 0xAB000000u);
    put_header(in, 0xAB010000u);
    put_u32(in, sizeof(file_t));
    put_u64(in, n);
    in.append(
        reinterpret_cast<const char *>(vals.data()),
        vals.size() * sizeof(file_t)
    );
    put_footer(in, 0xAB010000u);
    put_footer(in, 0xAB000000u);

    for (int flavour = 0; flavour < 2; ++flavour) {
        std::istringstream ss(in + "Q", std::ios::binary);
        dribble_inbuf ib(in, 1 + g.below(40));
        std::istream ds(&ib);
        std::istream & is = flavour == 0 ? static_cast<std::istream &>(ss) : ds;

        field_t f(is);
        CHECK(is.good());
        if (flavour == 0) {
            CHECK(static_cast<std::size_t>(ss.tellg()) == in.size());
            CHECK(ss.get() == 'Q');
        } else {
            CHECK(ib.consumed() == in.size());
        }

        CHECK(f.backend().get_configuration()[0] == n);

        typename field_t::view_t v(f);
        bool same = true;
        for (std::size_t i = 0; i < n; ++i) {
            for (std::size_t j = 0; j < W; ++j) {
                const mem_t want =
                    static_cast<mem_t>(launder_value(vals[i * W + j]));
                const mem_t got = v.at(i)[j];
                same = same && std::memcmp(&want, &got, sizeof(mem_t)) == 0;
            }
        }
        CHECK(same);

        // and the converted field is itself a fixed point of dump/load
        const bytes_t d1 = dump_sstream(f);
        std::istringstream is2(d1, std::ios::binary);
        field_t f2(is2);
        CHECK(dump_sstream(f2) == d1);
        CHECK(d1.size() == 16 + 8 + 4 + 8 + n * W * sizeof(mem_t) + 8);
    }

    // truncated in the middle of the (converted) payload
    if (n > 0) {
        bool threw = false;
        try {
            std::istringstream is(
                in.substr(0, 28 + g.below(n * W * sizeof(file_t))),
                std::ios::binary
            );
            field_t f(is);
        } catch (const std::runtime_error &) {
            threw = true;
        }
        CHECK(threw);
    }
}

template <typename V>
void array_oddities(gen & g)
{
    using field_t = covfie::field<cb::array<V>>;

    // default constructed (no storage at all)
    {
        field_t e;
        const bytes_t d = dump_sstream(e);
        bytes_t want;
        put_header(want, 0xAB000000u);
        put_header(want, 0xAB010000u);
        put_u32(want, sizeof(typename V::type));
        put_u64(want, 0);
        put_footer(want, 0xAB010000u);
        put_footer(want, 0xAB000000u);
        CHECK(d == want);
        std::istringstream is(d, std::ios::binary);
        field_t r(is);
        CHECK(is.good());
        CHECK(r.backend().get_configuration()[0] == 0);
        CHECK(dump_sstream(r) == want);
        field_t c(e);
        CHECK(dump_sstream(c) == want);
        c = r;
        CHECK(dump_sstream(c) == want);
    }

    // built through the regular constructor and filled through a view
    {
        const std::size_t n = g.count();
        field_t f(covfie::make_parameter_pack(
            typename field_t::backend_t::configuration_t{n}
        ));
        typename field_t::view_t v(f);
        bytes_t payload;
        for (std::size_t i = 0; i < n * V::size; ++i) {
            g.scalar<typename V::type>(payload);
        }
        for (std::size_t i = 0; i < n; ++i) {
            std::memcpy(
                &v.at(i)[0],
                payload.data() + i * V::size * sizeof(typename V::type),
                V::size * sizeof(typename V::type)
            );
        }
        bytes_t want;
        put_header(want, 0xAB000000u);
        put_header(want, 0xAB010000u);
        put_u32(want, sizeof(typename V::type));
        put_u64(want, n);
        want += payload;
        put_footer(want, 0xAB010000u);
        put_footer(want, 0xAB000000u);
        CHECK(dump_sstream(f) == want);
        CHECK(dump_sink(f) == want);
    }

    // absurd element counts and float widths are refused with an exception
    for (uint64_t huge : {~uint64_t(0), uint64_t(1) << 62}) {
        bytes_t in;
        put_header(in, 0xAB000000u);
        put_header(in, 0xAB010000u);
        put_u32(in, sizeof(typename V::type));
        put_u64(in, huge);
        in.append(64, '\0');
        bool threw = false;
        try {
            std::istringstream is(in, std::ios::binary);
            field_t f(is);
        } catch (const std::exception &) {
            threw = true;
        }
        CHECK(threw);
    }

    for (uint32_t w : {0u, 1u, 2u, 3u, 5u, 16u, 0x04000000u, 0xFFFFFFFFu}) {
        bytes_t in;
        put_header(in, 0xAB000000u);
        put_header(in, 0xAB010000u);
        put_u32(in, w);
        put_u64(in, 1);
        in.append(64, '\0');
        bool threw = false;
        try {
            std::istringstream is(in, std::ios::binary);
            field_t f(is);
        } catch (const std::runtime_error &) {
            threw = true;
        }
        CHECK(threw);
    }

    // output streams that fail: dump must neither crash nor corrupt the field
    {
        gen g2(g.next());
        const bytes_t in = synthesise<cb::array<V>>(g2, 2000);
        std::istringstream is(in, std::ios::binary);
        field_t f(is);

        for (std::size_t limit : {std::size_t(0), std::size_t(5),
                                  std::size_t(30), std::size_t(4096),
                                  std::size_t(5000), in.size() / 2,
                                  in.size() - 9, in.size() - 1})
        {
            {
                sink_outbuf sb(limit);
                std::ostream os(&sb);
                f.dump(os); // no exceptions enabled: must simply fail
                CHECK(!os.good());
                CHECK(sb.data.size() <= limit);
                CHECK(in.compare(0, sb.data.size(), sb.data) == 0);
            }
            {
                sink_outbuf sb(limit);
                std::ostream os(&sb);
                os.exceptions(std::ios::badbit | std::ios::failbit);
                bool threw = false;
                try {
                    f.dump(os);
                } catch (const std::ios_base::failure &) {
                    threw = true;
                }
                CHECK(threw);
                CHECK(in.compare(0, sb.data.size(), sb.data) == 0);
            }
        }

        {
            std::ostringstream os(std::ios::binary);
            os.setstate(std::ios::badbit);
            f.dump(os);
            CHECK(os.str().empty());
        }

        CHECK(dump_sstream(f) == in);
    }
}

// A row-major field converted into Morton / Hilbert order, then round-tripped.
static void layout_conversion(gen & g)
{
    using base_t = cb::strided<cv::size2, cb::array<cv::float2>>;
    using mort_t = cb::morton<cv::size2, cb::array<cv::float2>>;
    using hilb_t = cb::hilbert<cv::size2, cb::array<cv::float2>>;

    const std::size_t e = std::size_t(1) << g.below(5);
    bytes_t in;
    put_header(in, 0xAB000000u);
    put_header(in, 0xAB020010u);
    put_u64(in, e);
    put_u64(in, e);
    codec<cb::array<cv::float2>>::enc(in, g, e * e);
    put_footer(in, 0xAB020010u);
    put_footer(in, 0xAB000000u);

    std::istringstream is(in, std::ios::binary);
    covfie::field<base_t> base(is);
    CHECK(dump_sstream(base) == in);
    covfie::field<base_t>::view_t bv(base);

    auto same_values = [&](auto & view) {
        bool same = true;
        for (std::size_t x = 0; x < e; ++x) {
            for (std::size_t y = 0; y < e; ++y) {
                same = same && std::memcmp(
                                   &view.at(x, y)[0],
                                   &bv.at(x, y)[0],
                                   2 * sizeof(float)
                               ) == 0;
            }
        }
        return same;
    };

    {
        covfie::field<mort_t> m(base);
        const bytes_t d = dump_sstream(m);
        std::istringstream ms(d, std::ios::binary);
        covfie::field<mort_t> m2(ms);
        CHECK(dump_sstream(m2) == d);
        covfie::field<mort_t>::view_t mv(m2);
        CHECK(same_values(mv));
        covfie::field<base_t> back(m2);
        CHECK(dump_sstream(back) == in);
    }
    {
        covfie::field<hilb_t> h(base);
        const bytes_t d = dump_sstream(h);
        std::istringstream hs(d, std::ios::binary);
        covfie::field<hilb_t> h2(hs);
        CHECK(dump_sstream(h2) == d);
        covfie::field<hilb_t>::view_t hv(h2);
        CHECK(same_values(hv));
        covfie::field<base_t> back(h2);
        CHECK(dump_sstream(back) == in);
    }
}

// ---------------------------------------------------------------------------
// the stacks
// ---------------------------------------------------------------------------
using arr_f1 = cb::array<cv::float1>;
using arr_f2 = cb::array<cv::float2>;
using arr_f3 = cb::array<cv::float3>;
using arr_d1 = cb::array<cv::double1>;
using arr_d3 = cb::array<cv::double3>;
using arr_d4 = cb::array<cv::double4>;

using str1_f1 = cb::strided<cv::size1, arr_f1>;
using str2_d1 = cb::strided<cv::size2, arr_d1>;
using str3_f3 = cb::strided<cv::size3, arr_f3>;
using str3_d3 = cb::strided<cv::size3, arr_d3>;
using str2_u_f2 = cb::strided<cv::uint2, arr_f2>;
using mor2_f2 = cb::morton<cv::size2, arr_f2>;
using mor3_d3 = cb::morton<cv::size3, arr_d3, false>;
using hil2_f3 = cb::hilbert<cv::size2, arr_f3>;
using hil2_d1 = cb::hilbert<cv::uint2, arr_d1>;

using const_f = cb::constant<cv::float3, cv::float3>;
using const_d = cb::constant<cv::int2, cv::double4>;
using ident_f = cb::identity<cv::float2>;
using ident_i = cb::identity<cv::int1>;

using atlas_nn = cb::affine<cb::nearest_neighbour<str3_f3>>;
using atlas_li = cb::affine<cb::linear<str3_f3>>;
using atlas_li_d = cb::affine<cb::linear<str3_d3, cv::double3>>;
using clamp_str = cb::clamp<str3_f3>;
using clamp_mor = cb::clamp<mor2_f2>;
using clamp_id = cb::clamp<ident_f>;
using backup_str = cb::backup<str2_d1>;
using backup_hil = cb::backup<hil2_f3>;
using shuf_str = cb::shuffle<str3_f3, std::index_sequence<2, 0, 1>>;
using cast_str = cb::covariant_cast<double, str3_f3>;
using cast_const = cb::covariant_cast<float, const_d>;
using deref_str = cb::dereference<str2_u_f2>;
using deep1 = cb::affine<cb::linear<cb::clamp<cb::covariant_cast<float, str3_d3>>>>;
using deep2 = cb::affine<cb::nearest_neighbour<cb::backup<cb::shuffle<
    str3_f3,
    std::index_sequence<1, 2, 0>>>>>;
using deep3 = cb::clamp<cb::backup<cb::dereference<mor3_d3>>>;
using aff_const = cb::affine<const_f>;

template <typename... Bs>
struct stack_list {
};

using all_stacks = stack_list<
    arr_f1, arr_f2, arr_f3, arr_d1, arr_d3, arr_d4, str1_f1, str2_d1, str3_f3,
    str3_d3, str2_u_f2, mor2_f2, mor3_d3, hil2_f3, hil2_d1, const_f, const_d,
    ident_f, ident_i, atlas_nn, atlas_li, atlas_li_d, clamp_str, clamp_mor,
    clamp_id, backup_str, backup_hil, shuf_str, cast_str, cast_const,
    deref_str, deep1, deep2, deep3, aff_const>;

template <typename... Bs>
void run_all(stack_list<Bs...>, gen & g, unsigned tid, unsigned long iter)
{
    (round_trip<Bs>(g, tid, iter, g.count()), ...);
}

template <typename... Bs>
void damage_all(stack_list<Bs...>, gen & g)
{
    (reject_damaged<Bs>(g, 1 + g.below(4)), ...);
}

static void worker(unsigned tid, unsigned long iterations)
{
    gen g(1000 + tid);

    for (unsigned long it = 0; it < iterations; ++it) {
        run_all(all_stacks{}, g, tid, it);
    }

    damage_all(all_stacks{}, g);
    reject_damaged<arr_f3>(g, 1500);
    reject_damaged<str3_d3>(g, 0);

    // every count around the chunk / staging boundaries, for plain arrays
    for (std::size_t n :
         {0u, 1u, 337u, 338u, 339u, 340u, 341u, 342u, 509u, 510u, 511u, 512u,
          513u, 1019u, 1020u, 1021u, 1022u, 1023u, 1024u, 1025u, 2048u,
          70001u})
    {
        round_trip<arr_f1>(g, tid, 1, n);
        round_trip<arr_f3>(g, tid, 1, n);
        round_trip<arr_d1>(g, tid, 1, n);
        round_trip<arr_d3>(g, tid, 1, n);

        cross_width<float, double, 1>(g, n);
        cross_width<double, float, 1>(g, n);
        cross_width<float, double, 3>(g, n);
        cross_width<double, float, 3>(g, n);
        cross_width<double, float, 2>(g, n);
    }

    array_oddities<cv::float1>(g);
    array_oddities<cv::float3>(g);
    array_oddities<cv::double2>(g);

    for (int k = 0; k < 6; ++k) {
        layout_conversion(g);
    }

    // default constructed composite fields
    {
        covfie::field<str3_f3> e;
        const bytes_t d = dump_sstream(e);
        std::istringstream is(d, std::ios::binary);
        covfie::field<str3_f3> r(is);
        CHECK(dump_sstream(r) == d);
        CHECK(r.backend().get_configuration()[0] == 0);
        CHECK(r.backend().get_backend().get_configuration()[0] == 0);
    }
}

int main()
{
    // one field shared read-only by all threads
    gen g0(7);
    const bytes_t shared_bytes = synthesise<deep2>(g0, 0);
    std::istringstream sis(shared_bytes, std::ios::binary);
    const covfie::field<deep2> shared_field(sis);

    const unsigned nthreads = 4;
    std::vector<std::thread> ts;

    for (unsigned t = 0; t < nthreads; ++t) {
        ts.emplace_back([t, &shared_field, &shared_bytes]() {
            worker(t, 8);
            for (int k = 0; k < 20; ++k) {
                CHECK(dump_sstream(shared_field) == shared_bytes);
                covfie::field<deep2> copy(shared_field);
                CHECK(dump_sink(copy) == shared_bytes);
            }
        });
    }

    for (auto & t : ts) {
        t.join();
    }

    worker(99, 3);

    if (g_failures.load() != 0) {
        std::printf(
            "FAIL (%lu of %lu checks failed)\n",
            g_failures.load(),
            g_checks.load()
        );
        return 1;
    }

    std::printf("PASS (%lu checks)\n", g_checks.load());
    return 0;
}
