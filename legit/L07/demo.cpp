// Standalone exerciser for property C07 (file portability across
// interpolation method, storage precision and revisions).
//
// Uses the public API only, so it builds and prints PASS both against the
// pinned revision and against the patched tree.
//
// Compile & run (from /tmp/wt_L07/seeded):
//   g++ -std=c++20 -O2 -g -pthread -I../lib/core demo.cpp -o demo && ./demo
// With assertions off:
//   g++ -std=c++20 -O2 -DNDEBUG -pthread -I../lib/core demo.cpp -o demo_nd && ./demo_nd
// Sanitizers:
//   g++ -std=c++20 -O1 -g -pthread -fsanitize=address,undefined -fno-sanitize-recover=all -I../lib/core demo.cpp -o demo_asan && ./demo_asan
//   g++ -std=c++20 -O1 -g -pthread -fsanitize=thread -I../lib/core demo.cpp -o demo_tsan && ./demo_tsan
// Golden strings were produced by `./demo --emit-golden` built against the
// pinned revision (git HEAD) of lib/.

#include <array>
#include <atomic>
#include <bit>
#include <cfloat>
#include <cmath>
#include <cstdint>
#include <cstdio>
#include <cstring>
#include <functional>
#include <iostream>
#include <random>
#include <sstream>
#include <stdexcept>
#include <string>
#include <thread>
#include <type_traits>
#include <vector>

#include <covfie/core/backend/primitive/array.hpp>
#include <covfie/core/backend/primitive/constant.hpp>
#include <covfie/core/backend/transformer/affine.hpp>
#include <covfie/core/backend/transformer/clamp.hpp>
#include <covfie/core/backend/transformer/linear.hpp>
#include <covfie/core/backend/transformer/nearest_neighbour.hpp>
#include <covfie/core/backend/transformer/strided.hpp>
#include <covfie/core/field.hpp>
#include <covfie/core/parameter_pack.hpp>

namespace cb = covfie::backend;
namespace cv = covfie::vector;

// ---------------------------------------------------------------------------
// bookkeeping
// ---------------------------------------------------------------------------
static std::atomic<long> g_fail{0};
static std::atomic<long> g_checks{0};

#define CHECK(cond)                                                            \
    do {                                                                       \
        ++g_checks;                                                            \
        if (!(cond)) {                                                         \
            if (g_fail++ < 25)                                                 \
                std::fprintf(                                                  \
                    stderr, "CHECK failed %s:%d: %s\n", __FILE__, __LINE__,    \
                    #cond                                                      \
                );                                                             \
        }                                                                      \
    } while (0)

// ---------------------------------------------------------------------------
// Independent reference writer for the file grammar.
// ---------------------------------------------------------------------------
struct Bytes {
    std::string s;
    template <typename T>
    Bytes & put(T v)
    {
        char tmp[sizeof(T)];
        std::memcpy(tmp, &v, sizeof(T));
        s.append(tmp, sizeof(T));
        return *this;
    }
    Bytes & hdr(uint32_t id)
    {
        return put<uint32_t>(0xC04F1EABu).put<uint32_t>(id);
    }
    Bytes & ftr(uint32_t id)
    {
        return put<uint32_t>(0xC04F1E70u).put<uint32_t>(id + 0x20000000u);
    }
};

constexpr uint32_t ID_FIELD = 0xAB000000u;
constexpr uint32_t ID_ARRAY = 0xAB010000u;
constexpr uint32_t ID_STRIDED = 0xAB020010u;
constexpr uint32_t ID_AFFINE = 0xAB020000u;
constexpr uint32_t ID_CLAMP = 0xAB020002u;

template <typename S>
void ref_array(Bytes & b, std::size_t n_vec, const std::vector<S> & scalars)
{
    b.hdr(ID_ARRAY);
    b.put<uint32_t>(sizeof(S));
    b.put<uint64_t>(n_vec);
    for (S v : scalars) b.put<S>(v);
    b.ftr(ID_ARRAY);
}

template <typename S, std::size_t D>
std::string ref_strided_file(
    const std::array<std::size_t, D> & ext,
    const std::vector<S> & scalars,
    std::size_t n_vec,
    const std::string & pre = "",
    const std::string & post = ""
)
{
    Bytes b;
    b.hdr(ID_FIELD);
    b.s += pre;
    b.hdr(ID_STRIDED);
    for (std::size_t e : ext) b.put<uint64_t>(e);
    ref_array<S>(b, n_vec, scalars);
    b.ftr(ID_STRIDED);
    b.s += post;
    b.ftr(ID_FIELD);
    return b.s;
}

// ---------------------------------------------------------------------------
// Value generators. Everything is finite and within the range of float.
// ---------------------------------------------------------------------------
template <typename T>
T launder(T v)
{
    volatile T w = v;
    return w;
}

static float ref_narrow(double d)
{
    return static_cast<float>(launder(d));
}
static double ref_widen(float f)
{
    return static_cast<double>(launder(f));
}

static float gen_float(std::mt19937_64 & rng)
{
    static const float specials[] = {
        0.f, -0.f, 1.f, -1.f, FLT_MAX, -FLT_MAX, FLT_MIN, -FLT_MIN,
        std::numeric_limits<float>::denorm_min(),
        -std::numeric_limits<float>::denorm_min(), 0.1f, 1e-40f, 3.0e38f,
        16777216.f, 16777217.f, 0.33333334f};
    uint64_t r = rng();
    switch (r % 4) {
        case 0:
            return specials[(r >> 8) % (sizeof(specials) / sizeof(float))];
        case 1: {
            // subnormal
            uint32_t b = uint32_t(r >> 16) & 0x807FFFFFu;
            return std::bit_cast<float>(b);
        }
        default: {
            uint32_t b = uint32_t(r >> 16);
            if (((b >> 23) & 0xFF) == 0xFF) b &= ~(1u << 30); // keep finite
            return std::bit_cast<float>(b);
        }
    }
}

static double gen_double(std::mt19937_64 & rng)
{
    uint64_t r = rng();
    const double sign = (r & 1) ? -1.0 : 1.0;
    switch ((r >> 1) % 8) {
        case 0:
            return ref_widen(gen_float(rng)); // exactly representable
        case 1: {
            // exact tie between two adjacent floats
            float f = std::fabs(gen_float(rng));
            if (f >= FLT_MAX) f = 1.5f;
            float g = std::nextafterf(f, INFINITY);
            return sign * (ref_widen(f) / 2 + ref_widen(g) / 2);
        }
        case 2: {
            // one double-ulp off a tie
            float f = std::fabs(gen_float(rng));
            if (f >= FLT_MAX) f = 2.5f;
            float g = std::nextafterf(f, INFINITY);
            double m = ref_widen(f) / 2 + ref_widen(g) / 2;
            return sign * std::nextafter(m, (r & 2) ? 0.0 : 1e300);
        }
        case 3: {
            // any double in the normal range of float
            uint64_t e = 1023 - 126 + (rng() % 254);
            uint64_t b = (rng() & 0x000FFFFFFFFFFFFFull) | (e << 52);
            double d = std::bit_cast<double>(b);
            // keep clear of the overflow threshold
            if (d > 3.4028234e38) d = 3.4028234e38;
            return sign * d;
        }
        case 4: {
            // doubles which land in (or just below) float's subnormal range
            uint64_t e = 1023 - 155 + (rng() % 32);
            uint64_t b = (rng() & 0x000FFFFFFFFFFFFFull) | (e << 52);
            return sign * std::bit_cast<double>(b);
        }
        case 5: {
            // sparse mantissa -> ties in the subnormal range are likely
            uint64_t e = 1023 - 152 + (rng() % 30);
            uint64_t m = (uint64_t{1} << (rng() % 52)) |
                         (uint64_t{1} << (rng() % 52));
            return sign *
                   std::bit_cast<double>((m & 0x000FFFFFFFFFFFFFull) | (e << 52)
                   );
        }
        case 6: {
            static const double sp[] = {
                0.0, 0.1, 1.0 / 3.0, 3.4028234663852886e38 /* FLT_MAX */,
                3.4028235677973362e38 /* just below the overflow tie */,
                1.1754943508222875e-38 /* FLT_MIN */,
                1.1754942106924411e-38 /* largest subnormal */,
                7.006492321624085e-46 /* half of denorm_min: tie to zero */,
                7.0064923216240862e-46 /* just above -> denorm_min */,
                2.1019476964872256e-45 /* 1.5 denorm_min: tie to even=2 */,
                4.9406564584124654e-324 /* double denorm_min */, 16777217.0,
                16777219.0, 1.0000000596046448 /* 1 + 2^-24: tie */};
            return sign * sp[(r >> 8) % (sizeof(sp) / sizeof(double))];
        }
        default: {
            // smallish "physical" looking numbers
            return sign * std::ldexp(double(rng() % 2000003) / 7.0, int(rng() % 40) - 20);
        }
    }
}

template <typename S>
std::vector<S> gen_values(std::size_t n, uint64_t seed)
{
    std::mt19937_64 rng(seed);
    std::vector<S> v(n);
    for (auto & x : v) {
        if constexpr (std::is_same_v<S, float>) {
            x = gen_float(rng);
        } else {
            x = gen_double(rng);
        }
    }
    return v;
}

template <typename To, typename From>
std::vector<To> convert_ref(const std::vector<From> & v)
{
    std::vector<To> o(v.size());
    for (std::size_t i = 0; i < v.size(); ++i) {
        if constexpr (std::is_same_v<To, From>) {
            o[i] = v[i];
        } else if constexpr (std::is_same_v<To, float>) {
            o[i] = ref_narrow(v[i]);
        } else {
            o[i] = ref_widen(v[i]);
        }
    }
    return o;
}

template <typename S>
bool same_bits(S a, S b)
{
    return std::memcmp(&a, &b, sizeof(S)) == 0;
}

// ---------------------------------------------------------------------------
// helpers around fields
// ---------------------------------------------------------------------------
template <typename F>
std::string dump(const F & f)
{
    std::ostringstream os(std::ios::binary);
    f.dump(os);
    CHECK(os.good());
    return os.str();
}

template <typename F>
F load(const std::string & s, bool expect_consumed = true)
{
    std::istringstream is(s, std::ios::binary);
    F f(is);
    if (expect_consumed) {
        CHECK(is.good());
        CHECK(static_cast<std::size_t>(is.tellg()) == s.size());
    }
    return f;
}

template <typename F>
bool load_throws_runtime_error(const std::string & s)
{
    std::istringstream is(s, std::ios::binary);
    try {
        F f(is);
        (void)f;
    } catch (const std::runtime_error &) {
        return true;
    } catch (...) {
        return false;
    }
    return false;
}

template <typename S, std::size_t N>
using vec_d = cv::vector_d<S, N>;
template <std::size_t D>
using idx_d = cv::vector_d<std::size_t, D>;

template <typename S, std::size_t N, std::size_t D>
using base_b = cb::strided<idx_d<D>, cb::array<vec_d<S, N>>>;

template <std::size_t D>
std::size_t product(const std::array<std::size_t, D> & e)
{
    std::size_t p = 1;
    for (auto x : e) p *= x;
    return p;
}

template <std::size_t D>
covfie::utility::nd_size<D> to_conf(const std::array<std::size_t, D> & e)
{
    covfie::utility::nd_size<D> c;
    for (std::size_t i = 0; i < D; ++i) c[i] = e[i];
    return c;
}

// Iterate all coordinates in row-major order.
template <std::size_t D, typename Fn>
void for_each_coord(const std::array<std::size_t, D> & e, Fn && fn)
{
    std::size_t total = product(e);
    std::array<std::size_t, D> c{};
    for (std::size_t flat = 0; flat < total; ++flat) {
        fn(c, flat);
        for (std::size_t k = D; k-- > 0;) {
            if (++c[k] < e[k]) break;
            c[k] = 0;
        }
    }
}

template <typename S, std::size_t N, std::size_t D>
covfie::field<base_b<S, N, D>>
make_base(const std::array<std::size_t, D> & ext, const std::vector<S> & sc)
{
    using F = covfie::field<base_b<S, N, D>>;
    F f(covfie::make_parameter_pack_for<F>(
        to_conf(ext), typename cb::array<vec_d<S, N>>::configuration_t{product(ext)}
    ));
    typename F::view_t v(f);
    for_each_coord(ext, [&](const std::array<std::size_t, D> & c, std::size_t flat) {
        typename F::view_t::coordinate_t cc;
        for (std::size_t i = 0; i < D; ++i) cc[i] = c[i];
        typename F::output_t p = v.at(cc);
        for (std::size_t j = 0; j < N; ++j) p[j] = sc[flat * N + j];
    });
    return f;
}

// Check the lattice values of a (strided-over-array) field through its view.
template <typename F, typename S, std::size_t D>
void check_lattice(
    const F & f, const std::array<std::size_t, D> & ext, const std::vector<S> & sc
)
{
    constexpr std::size_t N = F::backend_t::covariant_output_t::dimensions;
    typename F::view_t v(f);
    for_each_coord(ext, [&](const std::array<std::size_t, D> & c, std::size_t flat) {
        typename F::view_t::coordinate_t cc;
        for (std::size_t i = 0; i < D; ++i) cc[i] = c[i];
        typename F::output_t p = v.at(cc);
        for (std::size_t j = 0; j < N; ++j) CHECK(same_bits<S>(p[j], sc[flat * N + j]));
    });
}

// Sample an interpolating field at lattice points.
template <typename F, typename S, std::size_t D>
void check_nn(
    const F & f, const std::array<std::size_t, D> & ext, const std::vector<S> & sc
)
{
    constexpr std::size_t N = F::backend_t::covariant_output_t::dimensions;
    typename F::view_t v(f);
    for_each_coord(ext, [&](const std::array<std::size_t, D> & c, std::size_t flat) {
        typename F::view_t::coordinate_t cc;
        for (std::size_t i = 0; i < D; ++i) cc[i] = static_cast<float>(c[i]);
        auto p = v.at(cc);
        for (std::size_t j = 0; j < N; ++j) CHECK(same_bits<S>(p[j], sc[flat * N + j]));
    });
}

template <typename F, std::size_t D>
void check_linear_float(
    const F & f, const std::array<std::size_t, D> & ext, const std::vector<float> & sc
)
{
    constexpr std::size_t N = F::backend_t::covariant_output_t::dimensions;
    for (auto e : ext)
        if (e < 2) return;
    typename F::view_t v(f);
    for_each_coord(ext, [&](const std::array<std::size_t, D> & c, std::size_t flat) {
        for (std::size_t i = 0; i < D; ++i)
            if (c[i] + 1 >= ext[i]) return; // needs the +1 neighbours
        typename F::view_t::coordinate_t cc;
        for (std::size_t i = 0; i < D; ++i) cc[i] = static_cast<float>(c[i]);
        auto p = v.at(cc);
        for (std::size_t j = 0; j < N; ++j) CHECK(p[j] == sc[flat * N + j]);
    });
}

// ---------------------------------------------------------------------------
// The main matrix: one shape, one component count, one source precision.
// ---------------------------------------------------------------------------
template <typename S, std::size_t N, std::size_t D>
void run_shape(const std::array<std::size_t, D> & ext, uint64_t seed)
{
    using O = std::conditional_t<std::is_same_v<S, float>, double, float>;

    using B_s = base_b<S, N, D>;
    using B_o = base_b<O, N, D>;
    using F_s = covfie::field<B_s>;
    using F_o = covfie::field<B_o>;
    using F_s_li = covfie::field<cb::linear<B_s>>;
    using F_s_nn = covfie::field<cb::nearest_neighbour<B_s>>;
    using F_o_li = covfie::field<cb::linear<B_o>>;
    using F_o_nn = covfie::field<cb::nearest_neighbour<B_o>>;

    const std::size_t n_vec = product(ext);
    const std::vector<S> sc = gen_values<S>(n_vec * N, seed);
    const std::vector<O> sc_o = convert_ref<O>(sc);
    const bool small = n_vec <= 5000;

    const std::string ref_s = ref_strided_file<S, D>(ext, sc, n_vec);
    const std::string ref_o = ref_strided_file<O, D>(ext, sc_o, n_vec);

    // 1. writer follows the grammar byte for byte
    F_s f = make_base<S, N, D>(ext, sc);
    const std::string bytes = dump(f);
    CHECK(bytes == ref_s);

    // 2. same type: load, compare, re-dump
    {
        F_s g = load<F_s>(ref_s);
        CHECK(dump(g) == ref_s);
        if (small) check_lattice<F_s, S, D>(g, ext, sc);
    }

    // 3. only the interpolator differs
    {
        F_s_li gl = load<F_s_li>(ref_s);
        F_s_nn gn = load<F_s_nn>(ref_s);
        CHECK(dump(gl) == ref_s);
        CHECK(dump(gn) == ref_s);
        // and back again, through a file written by the other interpolator
        F_s_nn gn2 = load<F_s_nn>(dump(gl));
        F_s_li gl2 = load<F_s_li>(dump(gn));
        CHECK(dump(gn2) == ref_s);
        CHECK(dump(gl2) == ref_s);
        if (small) {
            check_nn<F_s_nn, S, D>(gn, ext, sc);
            if constexpr (std::is_same_v<S, float>) {
                check_linear_float<F_s_li, D>(gl, ext, sc);
            }
        }
    }

    // 4. storage precision differs (with and without interpolator change)
    {
        F_o g = load<F_o>(ref_s);
        CHECK(dump(g) == ref_o);
        if (small) check_lattice<F_o, O, D>(g, ext, sc_o);

        F_o_li gl = load<F_o_li>(ref_s);
        F_o_nn gn = load<F_o_nn>(ref_s);
        CHECK(dump(gl) == ref_o);
        CHECK(dump(gn) == ref_o);
        if (small) check_nn<F_o_nn, O, D>(gn, ext, sc_o);

        // and the converted file goes back into the original precision
        const std::vector<S> sc_back = convert_ref<S>(sc_o);
        const std::string ref_back = ref_strided_file<S, D>(ext, sc_back, n_vec);
        F_s_nn back = load<F_s_nn>(ref_o);
        CHECK(dump(back) == ref_back);
        if constexpr (std::is_same_v<S, float>) {
            // float -> double -> float is the identity
            CHECK(ref_back == ref_s);
        }
    }

    // 5. value semantics do not disturb what ends up in a file
    {
        F_s_li a = load<F_s_li>(ref_s);
        F_s_li b(a);
        CHECK(dump(b) == ref_s);
        F_s_li c;
        c = a;
        CHECK(dump(c) == ref_s);
        F_s_li & alias = c;
        c = alias; // self assignment
        CHECK(dump(c) == ref_s);
        F_s_li d(std::move(b));
        CHECK(dump(d) == ref_s);
        F_s_li e;
        e = std::move(d);
        CHECK(dump(e) == ref_s);
        // overwrite a populated field with a different one and back
        std::array<std::size_t, D> one;
        one.fill(1);
        const std::vector<S> sc1 = gen_values<S>(N, seed + 1);
        const std::string ref1 = ref_strided_file<S, D>(one, sc1, 1);
        F_s_li small_f = load<F_s_li>(ref1);
        e = small_f;
        CHECK(dump(e) == ref1);
        e = a;
        CHECK(dump(e) == ref_s);
        CHECK(dump(a) == ref_s);
        // cross-type construction (interpolator swap in memory), then dump
        F_s base_again(load<F_s>(ref_s));
        CHECK(dump(base_again) == ref_s);
    }

    // 6. no over-read: two files back to back plus trailing garbage
    {
        std::string two = ref_s + ref_o + "trailing";
        std::istringstream is(two, std::ios::binary);
        F_o first(is);
        CHECK(static_cast<std::size_t>(is.tellg()) == ref_s.size());
        F_s_nn second(is);
        CHECK(static_cast<std::size_t>(is.tellg()) == ref_s.size() + ref_o.size());
        CHECK(dump(first) == ref_o);
        const std::vector<S> sc_back = convert_ref<S>(sc_o);
        CHECK(dump(second) == (ref_strided_file<S, D>(ext, sc_back, n_vec)));
        char rest[8];
        is.read(rest, 8);
        CHECK(is.gcount() == 8 && std::memcmp(rest, "trailing", 8) == 0);
    }
}

// ---------------------------------------------------------------------------
// Malformed input: every strict prefix of a file must be rejected with a
// std::runtime_error, for same- and cross-precision loads, and nothing leaks.
// ---------------------------------------------------------------------------
template <typename S>
void run_truncation()
{
    using O = std::conditional_t<std::is_same_v<S, float>, double, float>;
    constexpr std::size_t N = 3, D = 2;
    std::array<std::size_t, D> ext{3, 2};
    auto sc = gen_values<S>(product(ext) * N, 99);
    const std::string ref = ref_strided_file<S, D>(ext, sc, product(ext));

    for (std::size_t len = 0; len < ref.size(); ++len) {
        const std::string cut = ref.substr(0, len);
        CHECK((load_throws_runtime_error<covfie::field<base_b<S, N, D>>>(cut)));
        CHECK((load_throws_runtime_error<covfie::field<cb::linear<base_b<O, N, D>>>>(cut)));
        CHECK((load_throws_runtime_error<
               covfie::field<cb::nearest_neighbour<base_b<S, N, D>>>>(cut)));
    }

    // a payload that is long enough to span several read chunks, cut in the
    // middle of the payload and in the middle of the footer
    {
        std::array<std::size_t, 1> e1{3000};
        auto big = gen_values<S>(3000, 5);
        const std::string r = ref_strided_file<S, 1>(e1, big, 3000);
        for (std::size_t len :
             {r.size() - 1, r.size() - 9, r.size() - 24, r.size() - 25,
              r.size() / 2, std::size_t(8192), std::size_t(8193), std::size_t(60)})
        {
            const std::string cut = r.substr(0, len);
            CHECK((load_throws_runtime_error<covfie::field<base_b<S, 1, 1>>>(cut)));
            CHECK((load_throws_runtime_error<covfie::field<base_b<O, 1, 1>>>(cut)));
        }
    }

    // corrupt single words: width tag, magic numbers, footers
    {
        // offsets: field hdr 0..7, strided hdr 8..15, sizes 16..31,
        // array hdr 32..39, width 40..43, count 44..51
        for (uint32_t w : {0u, 1u, 2u, 3u, 5u, 16u, 0xFFFFFFFFu}) {
            std::string bad = ref;
            std::memcpy(&bad[40], &w, 4);
            CHECK((load_throws_runtime_error<covfie::field<base_b<S, N, D>>>(bad)));
            CHECK((load_throws_runtime_error<covfie::field<base_b<O, N, D>>>(bad)));
        }
        for (std::size_t off : {std::size_t(0), std::size_t(4), std::size_t(8), std::size_t(12),
                                std::size_t(32), std::size_t(36), ref.size() - 4,
                                ref.size() - 8, ref.size() - 12, ref.size() - 16,
                                ref.size() - 20, ref.size() - 24})
        {
            std::string bad = ref;
            bad[off] = static_cast<char>(bad[off] ^ 0x5A);
            CHECK((load_throws_runtime_error<covfie::field<base_b<S, N, D>>>(bad)));
            CHECK((load_throws_runtime_error<covfie::field<cb::linear<base_b<O, N, D>>>>(bad)));
        }
    }
}

// ---------------------------------------------------------------------------
// Empty fields.
// ---------------------------------------------------------------------------
template <typename S>
void run_empty()
{
    using O = std::conditional_t<std::is_same_v<S, float>, double, float>;
    using A = covfie::field<cb::array<vec_d<S, 2>>>;
    using Ao = covfie::field<cb::array<vec_d<O, 2>>>;

    Bytes b;
    b.hdr(ID_FIELD);
    ref_array<S>(b, 0, {});
    b.ftr(ID_FIELD);
    Bytes bo;
    bo.hdr(ID_FIELD);
    ref_array<O>(bo, 0, {});
    bo.ftr(ID_FIELD);

    A def;
    CHECK(dump(def) == b.s);
    A zero(covfie::make_parameter_pack(typename A::backend_t::configuration_t{0ul}));
    CHECK(dump(zero) == b.s);
    A l = load<A>(b.s);
    CHECK(dump(l) == b.s);
    Ao lo = load<Ao>(b.s);
    CHECK(dump(lo) == bo.s);
    A copy(l);
    CHECK(dump(copy) == b.s);
    A assigned = load<A>(b.s);
    assigned = def;
    CHECK(dump(assigned) == b.s);
    A moved(std::move(assigned));
    CHECK(dump(moved) == b.s);

    // non-empty <- empty and empty <- non-empty
    Bytes c;
    c.hdr(ID_FIELD);
    std::vector<S> two = gen_values<S>(4, 3);
    ref_array<S>(c, 2, two);
    c.ftr(ID_FIELD);
    A ne = load<A>(c.s);
    A tmp = ne;
    tmp = def;
    CHECK(dump(tmp) == b.s);
    tmp = ne;
    CHECK(dump(tmp) == c.s);

    // an empty stream position check: the empty array must not disturb what
    // follows it in the stream
    {
        std::string s = b.s + c.s;
        std::istringstream is(s, std::ios::binary);
        Ao e1(is);
        A e2(is);
        CHECK(dump(e1) == bo.s);
        CHECK(dump(e2) == c.s);
        CHECK(static_cast<std::size_t>(is.tellg()) == s.size());
    }

    // strided with a zero extent
    run_shape<S, 2, 2>({0, 5}, 11);
    run_shape<S, 1, 1>({0}, 12);
    run_shape<S, 3, 3>({4, 0, 2}, 13);
}

// ---------------------------------------------------------------------------
// Layers with a footprint stay untouched around a precision / interpolator
// change: affine<I<strided<array>>> and I<clamp<strided<array>>>.
// ---------------------------------------------------------------------------
template <typename S>
void run_wrapped()
{
    using O = std::conditional_t<std::is_same_v<S, float>, double, float>;
    constexpr std::size_t N = 3, D = 3;
    std::array<std::size_t, D> ext{5, 9, 31}; // 1395 vectors: spans chunks
    const std::size_t n_vec = product(ext);
    auto sc = gen_values<S>(n_vec * N, 2024);
    auto sc_o = convert_ref<O>(sc);

    using A_li_s = cb::affine<cb::linear<base_b<S, N, D>>>;
    using A_nn_s = cb::affine<cb::nearest_neighbour<base_b<S, N, D>>>;
    using A_li_o = cb::affine<cb::linear<base_b<O, N, D>>>;
    using A_nn_o = cb::affine<cb::nearest_neighbour<base_b<O, N, D>>>;

    typename A_li_s::configuration_t m =
        covfie::algebra::affine<3>::translation(1.25f, -2.5f, 1e-3f) *
        covfie::algebra::affine<3>::scaling(0.5f, 3.f, 0.1f);
    std::string mbytes(reinterpret_cast<const char *>(&m), sizeof(m));
    CHECK(sizeof(m) == 12 * sizeof(float));

    Bytes pre, post;
    pre.hdr(ID_AFFINE);
    pre.s += mbytes;
    post.ftr(ID_AFFINE);
    const std::string ref_s = ref_strided_file<S, D>(ext, sc, n_vec, pre.s, post.s);
    const std::string ref_o = ref_strided_file<O, D>(ext, sc_o, n_vec, pre.s, post.s);

    covfie::field<base_b<S, N, D>> base = make_base<S, N, D>(ext, sc);
    covfie::field<A_li_s> f(covfie::make_parameter_pack(
        typename A_li_s::configuration_t(m),
        typename A_li_s::backend_t::configuration_t{},
        typename base_b<S, N, D>::owning_data_t(base.backend())
    ));
    CHECK(dump(f) == ref_s);
    CHECK(dump(load<covfie::field<A_li_s>>(ref_s)) == ref_s);
    CHECK(dump(load<covfie::field<A_nn_s>>(ref_s)) == ref_s);
    CHECK(dump(load<covfie::field<A_li_o>>(ref_s)) == ref_o);
    CHECK(dump(load<covfie::field<A_nn_o>>(ref_s)) == ref_o);
    CHECK(dump(load<covfie::field<A_nn_s>>(dump(load<covfie::field<A_li_s>>(ref_s)))) == ref_s);

    // clamp below the interpolator
    using C_s = cb::clamp<base_b<S, N, D>>;
    using C_o = cb::clamp<base_b<O, N, D>>;
    typename C_s::configuration_t cc{{0ul, 1ul, 2ul}, {4ul, 8ul, 30ul}};
    Bytes cpre, cpost;
    cpre.hdr(ID_CLAMP);
    for (std::size_t v : {0, 1, 2}) cpre.put<uint64_t>(v);
    for (std::size_t v : {4, 8, 30}) cpre.put<uint64_t>(v);
    cpost.ftr(ID_CLAMP);
    const std::string cref_s = ref_strided_file<S, D>(ext, sc, n_vec, cpre.s, cpost.s);
    const std::string cref_o = ref_strided_file<O, D>(ext, sc_o, n_vec, cpre.s, cpost.s);

    covfie::field<cb::linear<C_s>> cf(covfie::make_parameter_pack(
        typename cb::linear<C_s>::configuration_t{},
        typename C_s::configuration_t(cc),
        typename base_b<S, N, D>::owning_data_t(base.backend())
    ));
    CHECK(dump(cf) == cref_s);
    CHECK(dump(load<covfie::field<cb::linear<C_s>>>(cref_s)) == cref_s);
    CHECK(dump(load<covfie::field<cb::nearest_neighbour<C_s>>>(cref_s)) == cref_s);
    CHECK(dump(load<covfie::field<cb::nearest_neighbour<C_o>>>(cref_s)) == cref_o);
    CHECK(dump(load<covfie::field<cb::linear<C_o>>>(cref_s)) == cref_o);
    CHECK(dump(load<covfie::field<C_o>>(cref_s)) == cref_o);
}

// ---------------------------------------------------------------------------
// Golden files from the pinned revision.
// ---------------------------------------------------------------------------
static std::string to_hex(const std::string & s)
{
    static const char * d = "0123456789abcdef";
    std::string o;
    for (unsigned char c : s) {
        o += d[c >> 4];
        o += d[c & 15];
    }
    return o;
}

static std::string from_hex(const std::string & h)
{
    auto nib = [](char c) { return c <= '9' ? c - '0' : c - 'a' + 10; };
    std::string o;
    for (std::size_t i = 0; i + 1 < h.size(); i += 2)
        o += static_cast<char>((nib(h[i]) << 4) | nib(h[i + 1]));
    return o;
}

template <typename S>
S golden_value(std::size_t k)
{
    // deterministic, precision-exercising, exactly reproducible
    static const double sp[] = {0.1, -1.0 / 3.0, 16777217.0, 1e-41, -3.0e38, 0.0, 1.0000000596046448};
    double d = (k % 3 == 0) ? sp[(k / 3) % 7] : std::ldexp(double(k * 2654435761u % 1000003) / 7.0, int(k % 11) - 5);
    return static_cast<S>(launder(d));
}

using G1 = covfie::field<cb::array<cv::float1>>;
using G2 = covfie::field<cb::array<cv::double3>>;
using G3 = covfie::field<base_b<float, 3, 3>>;
using G4 = covfie::field<cb::affine<cb::linear<base_b<float, 3, 3>>>>;
using G5 = covfie::field<cb::affine<cb::nearest_neighbour<base_b<double, 2, 2>>>>;
using G6 = covfie::field<cb::nearest_neighbour<cb::clamp<base_b<float, 1, 2>>>>;
using G7 = covfie::field<cb::constant<cv::float2, cv::float3>>;

template <typename A>
A make_golden_array(std::size_t n)
{
    using S = typename A::backend_t::covariant_output_t::scalar_t;
    constexpr std::size_t N = A::backend_t::covariant_output_t::dimensions;
    A f(covfie::make_parameter_pack(typename A::backend_t::configuration_t{n}));
    typename A::view_t v(f);
    for (std::size_t i = 0; i < n; ++i)
        for (std::size_t j = 0; j < N; ++j) v.at(i)[j] = golden_value<S>(i * N + j);
    return f;
}

template <typename S, std::size_t N, std::size_t D>
covfie::field<base_b<S, N, D>> make_golden_base(const std::array<std::size_t, D> & ext)
{
    std::vector<S> sc(product(ext) * N);
    for (std::size_t k = 0; k < sc.size(); ++k) sc[k] = golden_value<S>(k);
    return make_base<S, N, D>(ext, sc);
}

static std::vector<std::string> make_goldens()
{
    std::vector<std::string> g;
    g.push_back(dump(make_golden_array<G1>(7)));
    g.push_back(dump(make_golden_array<G2>(3)));
    g.push_back(dump(make_golden_base<float, 3, 3>({2, 3, 2})));
    {
        auto b = make_golden_base<float, 3, 3>({2, 2, 3});
        G4 f(covfie::make_parameter_pack(
            G4::backend_t::configuration_t(covfie::algebra::affine<3>::translation(1.f, -2.f, 0.5f)),
            G4::backend_t::backend_t::configuration_t{},
            base_b<float, 3, 3>::owning_data_t(b.backend())
        ));
        g.push_back(dump(f));
    }
    {
        auto b = make_golden_base<double, 2, 2>({3, 2});
        G5 f(covfie::make_parameter_pack(
            G5::backend_t::configuration_t(covfie::algebra::affine<2>::scaling(2.f, 0.25f)),
            G5::backend_t::backend_t::configuration_t{},
            base_b<double, 2, 2>::owning_data_t(b.backend())
        ));
        g.push_back(dump(f));
    }
    {
        auto b = make_golden_base<float, 1, 2>({4, 3});
        G6 f(covfie::make_parameter_pack(
            G6::backend_t::configuration_t{},
            G6::backend_t::backend_t::configuration_t{{0ul, 0ul}, {3ul, 2ul}},
            base_b<float, 1, 2>::owning_data_t(b.backend())
        ));
        g.push_back(dump(f));
    }
    {
        G7 f(covfie::make_parameter_pack(G7::backend_t::configuration_t{0.1f, -2.f, 3.5f}));
        g.push_back(dump(f));
    }
    return g;
}

// clang-format off
static const char * const GOLDEN[] = {
    "ab1e4fc0000000abab1e4fc0000001ab040000000700000000000000cdcccc3d25ba6e4525ba6e46abaaaabe806f4647251f9b460000804b701e4fc0000001cb701e4fc0000000cb",
    "ab1e4fc0000000abab1e4fc0000001ab0800000003000000000000009a9999999999b93f9224499244d7ad409224499244d7cd40555555555555d5bf00000000f0cde84092244992e463d3400000001000007041dbb66ddb1e582141b76ddbb68d761d41701e4fc0000001cb701e4fc0000000cb",
    "ab1e4fc0000000abab1e4fc0100002ab020000000000000003000000000000000200000000000000ab1e4fc0000001ab040000000c00000000000000cdcccc3d25ba6e4525ba6e46abaaaabe806f4647251f9b460000804bf7c00a496eb4eb48e01b0000251f9b49a5ec4445e6b161ff00a21c4689ff0947000000006eb4eb476e1998470000803f49080f48251f9b49cdcccc3d00a9e5449231ea45abaaaabeeee6c146dbfc08460000804bae7c884849a36248e01b0000000e12491264404ae6b161ff6e19984540bb8746701e4fc0000001cb701e4fc0100002cb701e4fc0000000cb",
    "ab1e4fc0000000abab1e4fc0000002ab0000803f00000000000000000000803f000000000000803f00000000000000c000000000000000000000803f0000003fab1e4fc0100002ab020000000000000002000000000000000300000000000000ab1e4fc0000001ab040000000c00000000000000cdcccc3d25ba6e4525ba6e46abaaaabe806f4647251f9b460000804bf7c00a496eb4eb48e01b0000251f9b49a5ec4445e6b161ff00a21c4689ff0947000000006eb4eb476e1998470000803f49080f48251f9b49cdcccc3d00a9e5449231ea45abaaaabeeee6c146dbfc08460000804bae7c884849a36248e01b0000000e12491264404ae6b161ff6e19984540bb8746701e4fc0000001cb701e4fc0100002cb701e4fc0000002cb701e4fc0000000cb",
    "ab1e4fc0000000abab1e4fc0000002ab000000400000000000000000000000000000803e00000000ab1e4fc0100002ab03000000000000000200000000000000ab1e4fc0000001ab0800000006000000000000009a9999999999b93f9224499244d7ad409224499244d7cd40555555555555d5bf00000000f0cde84092244992e463d3400000001000007041dbb66ddb1e582141b76ddbb68d761d41c725f20b3de06b3792244992e463334192244992949da840701e4fc0000001cb701e4fc0100002cb701e4fc0000002cb701e4fc0000000cb",
    "ab1e4fc0000000abab1e4fc0020002ab0000000000000000000000000000000003000000000000000200000000000000ab1e4fc0100002ab04000000000000000300000000000000ab1e4fc0000001ab040000000c00000000000000cdcccc3d25ba6e4525ba6e46abaaaabe806f4647251f9b460000804bf7c00a496eb4eb48e01b0000251f9b49a5ec4445701e4fc0000001cb701e4fc0100002cb701e4fc0020002cb701e4fc0000000cb",
    "ab1e4fc0000000abab1e4fc0010001abcdcccc3d000000c000006040701e4fc0010001cb701e4fc0000000cb",
};
// clang-format on

static void run_golden()
{
    const std::vector<std::string> now = make_goldens();
    constexpr std::size_t n_golden = sizeof(GOLDEN) / sizeof(GOLDEN[0]);
    CHECK(now.size() == n_golden);
    for (std::size_t i = 0; i < n_golden && i < now.size(); ++i) {
        CHECK(to_hex(now[i]) == GOLDEN[i]); // writer still produces the pinned bytes
    }
    std::vector<std::string> g;
    for (std::size_t i = 0; i < n_golden; ++i) g.push_back(from_hex(GOLDEN[i]));

    // pinned files load and re-dump to themselves
    CHECK(dump(load<G1>(g[0])) == g[0]);
    CHECK(dump(load<G2>(g[1])) == g[1]);
    CHECK(dump(load<G3>(g[2])) == g[2]);
    CHECK(dump(load<G4>(g[3])) == g[3]);
    CHECK(dump(load<G5>(g[4])) == g[4]);
    CHECK(dump(load<G6>(g[5])) == g[5]);
    CHECK(dump(load<G7>(g[6])) == g[6]);

    // interpolator swaps on pinned files
    using G4n = covfie::field<cb::affine<cb::nearest_neighbour<base_b<float, 3, 3>>>>;
    using G5l = covfie::field<cb::affine<cb::linear<base_b<double, 2, 2>>>>;
    using G6l = covfie::field<cb::linear<cb::clamp<base_b<float, 1, 2>>>>;
    CHECK(dump(load<G4n>(g[3])) == g[3]);
    CHECK(dump(load<G5l>(g[4])) == g[4]);
    CHECK(dump(load<G6l>(g[5])) == g[5]);
    CHECK(dump(load<covfie::field<cb::linear<base_b<float, 3, 3>>>>(g[2])) == g[2]);

    // widening a pinned float file and narrowing it back gives the pinned file
    using G1d = covfie::field<cb::array<cv::double1>>;
    using G4d = covfie::field<cb::affine<cb::linear<base_b<double, 3, 3>>>>;
    CHECK(dump(load<G1>(dump(load<G1d>(g[0])))) == g[0]);
    CHECK(dump(load<G4n>(dump(load<G4d>(g[3])))) == g[3]);

    // narrowing a pinned double file: every payload value equals static_cast
    {
        using G2f = covfie::field<cb::array<cv::float3>>;
        G2 d = load<G2>(g[1]);
        G2f f = load<G2f>(g[1]);
        G2::view_t dv(d);
        G2f::view_t fv(f);
        for (std::size_t i = 0; i < 3; ++i)
            for (std::size_t j = 0; j < 3; ++j) CHECK(same_bits<float>(fv.at(i)[j], ref_narrow(dv.at(i)[j])));
    }
}

// ---------------------------------------------------------------------------
// Threads: independent loads/dumps from shared immutable inputs.
// ---------------------------------------------------------------------------
static void run_threads()
{
    constexpr std::size_t N = 3, D = 3;
    std::array<std::size_t, D> ext{6, 7, 40};
    const std::size_t n_vec = product(ext);
    const auto scf = gen_values<float>(n_vec * N, 77);
    const auto scd = gen_values<double>(n_vec * N, 78);
    const std::string rf = ref_strided_file<float, D>(ext, scf, n_vec);
    const std::string rd = ref_strided_file<double, D>(ext, scd, n_vec);
    const std::string rf_as_d = ref_strided_file<double, D>(ext, convert_ref<double>(scf), n_vec);
    const std::string rd_as_f = ref_strided_file<float, D>(ext, convert_ref<float>(scd), n_vec);

    const covfie::field<cb::linear<base_b<float, N, D>>> shared =
        load<covfie::field<cb::linear<base_b<float, N, D>>>>(rf);

    std::vector<std::thread> ts;
    for (int t = 0; t < 8; ++t) {
        ts.emplace_back([&, t] {
            for (int it = 0; it < 6; ++it) {
                switch ((t + it) % 4) {
                    case 0:
                        CHECK(dump(load<covfie::field<cb::linear<base_b<double, N, D>>>>(rf)) == rf_as_d);
                        break;
                    case 1:
                        CHECK(dump(load<covfie::field<cb::nearest_neighbour<base_b<float, N, D>>>>(rd)) == rd_as_f);
                        break;
                    case 2:
                        CHECK(dump(shared) == rf); // concurrent const dumps
                        break;
                    default: {
                        covfie::field<cb::linear<base_b<float, N, D>>> c(shared);
                        CHECK(dump(c) == rf);
                        break;
                    }
                }
            }
        });
    }
    for (auto & t : ts) t.join();
}

int main(int argc, char ** argv)
{
    if (argc > 1 && std::string(argv[1]) == "--emit-golden") {
        for (const auto & s : make_goldens()) std::printf("    \"%s\",\n", to_hex(s).c_str());
        return 0;
    }

    uint64_t seed = 1;
    auto shapes1 = std::vector<std::array<std::size_t, 1>>{
        {1}, {2}, {5}, {511}, {682}, {683}, {1023}, {1024}, {1025}, {1365}, {2047}, {2048}, {2049}, {4097}, {10007}};
    auto shapes2 = std::vector<std::array<std::size_t, 2>>{
        {1, 1}, {3, 5}, {31, 33}, {32, 32}, {64, 64}, {1, 2049}, {2049, 1}, {17, 241}};
    auto shapes3 = std::vector<std::array<std::size_t, 3>>{
        {1, 1, 1}, {2, 3, 2}, {3, 3, 3}, {7, 11, 13}, {16, 16, 8}, {16, 16, 17}, {1, 1, 1025}};

    for (auto & e : shapes1) {
        run_shape<float, 1, 1>(e, ++seed);
        run_shape<double, 1, 1>(e, ++seed);
        run_shape<float, 2, 1>(e, ++seed);
        run_shape<double, 2, 1>(e, ++seed);
        run_shape<float, 3, 1>(e, ++seed);
        run_shape<double, 3, 1>(e, ++seed);
    }
    for (auto & e : shapes2) {
        run_shape<float, 1, 2>(e, ++seed);
        run_shape<double, 1, 2>(e, ++seed);
        run_shape<float, 2, 2>(e, ++seed);
        run_shape<double, 2, 2>(e, ++seed);
        run_shape<float, 3, 2>(e, ++seed);
        run_shape<double, 3, 2>(e, ++seed);
    }
    for (auto & e : shapes3) {
        run_shape<float, 1, 3>(e, ++seed);
        run_shape<double, 1, 3>(e, ++seed);
        run_shape<float, 2, 3>(e, ++seed);
        run_shape<double, 2, 3>(e, ++seed);
        run_shape<float, 3, 3>(e, ++seed);
        run_shape<double, 3, 3>(e, ++seed);
    }

    run_truncation<float>();
    run_truncation<double>();
    run_empty<float>();
    run_empty<double>();
    run_wrapped<float>();
    run_wrapped<double>();
    run_golden();
    run_threads();

    std::printf("checks=%ld failures=%ld\n", g_checks.load(), g_fail.load());
    if (g_fail.load() != 0 || g_checks.load() < 1000) {
        std::printf("FAIL\n");
        return 1;
    }
    std::printf("PASS\n");
    return 0;
}
