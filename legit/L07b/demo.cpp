/*
 * Demo / regression driver for the reworked binary load path (property C07).
 *
 * Compile (from /tmp/wt_L07b):
 *
 *   g++ -std=c++20 -O1 -g -pthread -Ilib/core seeded/demo.cpp -o /tmp/demo_L07b
 *
 * against a pristine export of HEAD (must print PASS as well):
 *
 *   mkdir -p _pristine && git archive HEAD lib | tar -x -C _pristine
 *   g++ -std=c++20 -O1 -g -pthread -I_pristine/lib/core seeded/demo.cpp -o
 *       /tmp/demo_L07b_pristine
 *
 * sanitizers:
 *
 *   g++ -std=c++20 -O1 -g -pthread -fsanitize=address,undefined
 *       -fno-sanitize-recover=all -Ilib/core seeded/demo.cpp -o /tmp/demo_asan
 *   g++ -std=c++20 -O1 -g -pthread -fsanitize=thread -Ilib/core
 *       seeded/demo.cpp -o /tmp/demo_tsan
 *
 * Also build with -DNDEBUG and with -O0 / -O3. With -DDEMO_WITH_CHANGE an
 * extra section is enabled that only the changed library can pass: loads
 * under non-default rounding modes must still round to nearest, must leave the
 * rounding mode alone and must not raise floating point exception flags.
 *
 * The program never relies on the library to produce its reference data: all
 * "golden" byte streams are assembled by hand from the documented grammar
 * (header / payload / footer, nested), and the reference for narrowing is a
 * plain static_cast<float> evaluated in the default rounding mode.
 */

#include <array>
#include <atomic>
#include <cfenv>
#include <cfloat>
#include <cmath>
#include <cstdint>
#include <cstdio>
#include <cstdlib>
#include <cstring>
#include <fstream>
#include <iostream>
#include <limits>
#include <sstream>
#include <stdexcept>
#include <streambuf>
#include <string>
#include <thread>
#include <type_traits>
#include <vector>

#include <unistd.h>

#include <covfie/core/backend/primitive/array.hpp>
#include <covfie/core/backend/transformer/affine.hpp>
#include <covfie/core/backend/transformer/linear.hpp>
#include <covfie/core/backend/transformer/nearest_neighbour.hpp>
#include <covfie/core/backend/transformer/strided.hpp>
#include <covfie/core/field.hpp>

namespace {
std::atomic<unsigned long> g_checks{0};
std::atomic<unsigned long> g_failures{0};

void fail(const std::string & what)
{
    if (g_failures.fetch_add(1) < 25) {
        std::fprintf(stderr, "FAIL: %s\n", what.c_str());
    }
}

#define CHECK(cond, msg)                                                       \
    do {                                                                       \
        g_checks.fetch_add(1, std::memory_order_relaxed);                      \
        if (!(cond)) {                                                         \
            std::ostringstream _os;                                            \
            _os << __LINE__ << ": " << #cond << " -- " << msg;                 \
            fail(_os.str());                                                   \
        }                                                                      \
    } while (0)

/* ---------------------------------------------------------------------- */
/* hand-written serialiser for the file grammar                           */
/* ---------------------------------------------------------------------- */

constexpr uint32_t MAGIC_HEADER = 0xC04F1EABu;
constexpr uint32_t MAGIC_FOOTER = 0xC04F1E70u;
constexpr uint32_t ID_FIELD = 0xAB000000u;
constexpr uint32_t ID_ARRAY = 0xAB010000u;
constexpr uint32_t ID_AFFINE = 0xAB020000u;
constexpr uint32_t ID_STRIDED = 0xAB020010u;

struct bytes {
    std::string d;

    template <typename T>
    void put(T v)
    {
        char b[sizeof(T)];
        std::memcpy(b, &v, sizeof(T));
        d.append(b, sizeof(T));
    }

    void open(uint32_t id)
    {
        put<uint32_t>(MAGIC_HEADER);
        put<uint32_t>(id);
    }

    void close(uint32_t id)
    {
        put<uint32_t>(MAGIC_FOOTER);
        put<uint32_t>(id + 0x20000000u);
    }
};

template <typename S>
void put_array(bytes & b, std::size_t count, std::size_t N, const std::vector<S> & v)
{
    b.open(ID_ARRAY);
    b.put<uint32_t>(static_cast<uint32_t>(sizeof(S)));
    b.put<uint64_t>(count);
    for (std::size_t i = 0; i < count * N; ++i) {
        b.put<S>(v[i]);
    }
    b.close(ID_ARRAY);
}

enum class wrap {
    none,
    strided,
    affine_strided
};

/* affine matrices are N x (N+1) floats on disk */
template <std::size_t D>
std::vector<float> affine_matrix()
{
    std::vector<float> m;
    for (std::size_t i = 0; i < D; ++i) {
        for (std::size_t j = 0; j < D + 1; ++j) {
            m.push_back(
                i == j ? 1.f + 0.25f * static_cast<float>(i)
                       : (j == D ? -3.5f + static_cast<float>(i) : 0.f)
            );
        }
    }
    return m;
}

template <typename S, std::size_t D>
std::string make_file(
    wrap w,
    const std::array<std::size_t, D> & ext,
    std::size_t N,
    const std::vector<S> & v
)
{
    std::size_t count = 1;
    for (std::size_t e : ext) {
        count *= e;
    }

    bytes b;
    b.open(ID_FIELD);
    if (w == wrap::affine_strided) {
        b.open(ID_AFFINE);
        for (float f : affine_matrix<D>()) {
            b.put<float>(f);
        }
    }
    if (w != wrap::none) {
        b.open(ID_STRIDED);
        for (std::size_t e : ext) {
            b.put<uint64_t>(e);
        }
    }
    put_array<S>(b, count, N, v);
    if (w != wrap::none) {
        b.close(ID_STRIDED);
    }
    if (w == wrap::affine_strided) {
        b.close(ID_AFFINE);
    }
    b.close(ID_FIELD);
    return b.d;
}

/* ---------------------------------------------------------------------- */
/* reference conversion and value generation                              */
/* ---------------------------------------------------------------------- */

template <typename To, typename From>
[[gnu::noinline]] To reference_convert(From f)
{
    volatile From in = f;
    volatile To out = static_cast<To>(in);
    return out;
}

template <typename T>
auto bits_of(T v)
{
    std::conditional_t<sizeof(T) == 4, uint32_t, uint64_t> r;
    static_assert(sizeof(r) == sizeof(T));
    std::memcpy(&r, &v, sizeof(T));
    return r;
}

struct rng {
    uint64_t s;
    uint64_t next()
    {
        s ^= s << 13;
        s ^= s >> 7;
        s ^= s << 17;
        return s;
    }
};

double from_bits(uint64_t b)
{
    double d;
    std::memcpy(&d, &b, 8);
    return d;
}

float f_from_bits(uint32_t b)
{
    float d;
    std::memcpy(&d, &b, 4);
    return d;
}

/*
 * Doubles within the range of float (so that narrowing is well defined in
 * the pristine library as well), with a heavy bias towards the nasty ones.
 */
double nasty_double(rng & r, std::size_t k)
{
    const double sign = (r.next() & 1) ? -1.0 : 1.0;
    switch (k % 16) {
        case 0:
            return sign * 0.0;
        case 1: {
            /* exact float */
            uint32_t b = static_cast<uint32_t>(r.next()) & 0x7FFFFFFFu;
            if ((b >> 23) == 0xFF) {
                b &= 0x7F7FFFFFu;
            }
            return sign * static_cast<double>(f_from_bits(b));
        }
        case 2:
        case 3:
        case 4: {
            /* exact tie between two neighbouring floats, and one double ulp to
             * either side of it */
            uint32_t b = static_cast<uint32_t>(r.next()) & 0x7FFFFFFFu;
            if ((b >> 23) >= 0xFE) {
                b = (b & 0x007FFFFFu) | (0x60u << 23);
            }
            const double lo = static_cast<double>(f_from_bits(b));
            const double hi = static_cast<double>(f_from_bits(b + 1));
            const double mid = lo + (hi - lo) / 2;
            if (k % 16 == 2) {
                return sign * mid;
            } else if (k % 16 == 3) {
                return sign * std::nextafter(mid, 0.0);
            } else {
                return sign * std::nextafter(mid, HUGE_VAL);
            }
        }
        case 5: {
            /* float subnormal range with random low bits */
            const uint64_t e = 1023 - 149 + (r.next() % 24);
            return sign *
                   from_bits((e << 52) | (r.next() & 0x000FFFFFFFFFFFFFull));
        }
        case 6: {
            /* around half of the smallest float subnormal, and far below */
            static const uint64_t c[] = {
                0x3690000000000000ull,
                0x3690000000000001ull,
                0x368FFFFFFFFFFFFFull,
                0x36A0000000000000ull,
                0x36A8000000000000ull,
                0x36A7FFFFFFFFFFFFull,
                0x36A8000000000001ull,
                0x3680000000000000ull,
                0x0000000000000001ull,
                0x000FFFFFFFFFFFFFull,
                0x0010000000000000ull,
                0x380FFFFFFFFFFFFFull,
                0x380FFFFFF0000000ull,
                0x380FFFFFEFFFFFFFull,
                0x3810000000000000ull,
                0x3800000000000000ull};
            return sign * from_bits(c[r.next() % (sizeof(c) / sizeof(c[0]))]);
        }
        case 7: {
            /* at the top of the float range, but still rounding to finite */
            static const uint64_t c[] = {
                0x47EFFFFFE0000000ull,
                0x47EFFFFFEFFFFFFFull,
                0x47EFFFFFE0000001ull,
                0x47EFFFFFD0000000ull,
                0x47EFFFFFC0000000ull,
                0x47EFFFFFCFFFFFFFull,
                0x47E0000000000000ull};
            return sign * from_bits(c[r.next() % (sizeof(c) / sizeof(c[0]))]);
        }
        case 8: {
            /* carries that ripple through the whole mantissa */
            const uint64_t e = 1023 - 100 + (r.next() % 200);
            return sign * from_bits(
                              (e << 52) | 0x000FFFFFF0000000ull |
                              (r.next() & 0x1FFFFFFFull)
                          );
        }
        case 9:
            return sign * static_cast<double>(r.next() % 1000) / 7.0;
        case 10:
            return sign * 0.1 * static_cast<double>(k);
        default: {
            /* random normal within float range */
            const uint64_t e = 1023 - 126 + (r.next() % 253);
            return sign *
                   from_bits((e << 52) | (r.next() & 0x000FFFFFFFFFFFFFull));
        }
    }
}

float nasty_float(rng & r, std::size_t k)
{
    switch (k % 8) {
        case 0:
            return (r.next() & 1) ? -0.0f : 0.0f;
        case 1:
            return f_from_bits(
                (static_cast<uint32_t>(r.next()) & 0x807FFFFFu)
            ); /* subnormal */
        case 2:
            return f_from_bits(0x00000001u);
        case 3:
            return (r.next() & 1) ? FLT_MAX : -FLT_MAX;
        case 4:
            return FLT_MIN;
        default: {
            uint32_t b = static_cast<uint32_t>(r.next());
            if (((b >> 23) & 0xFF) == 0xFF) {
                b &= 0xFF7FFFFFu;
            }
            return f_from_bits(b);
        }
    }
}

template <typename S>
std::vector<S> make_values(std::size_t n, uint64_t seed)
{
    rng r{seed * 0x9E3779B97F4A7C15ull + 12345};
    std::vector<S> v(n);
    for (std::size_t i = 0; i < n; ++i) {
        if constexpr (std::is_same_v<S, double>) {
            v[i] = nasty_double(r, i + seed);
        } else {
            v[i] = nasty_float(r, i + seed);
        }
    }
    return v;
}

/* ---------------------------------------------------------------------- */
/* stacks                                                                 */
/* ---------------------------------------------------------------------- */

namespace cb = covfie::backend;
namespace cv = covfie::vector;

template <typename S, std::size_t N>
using arr_t = cb::array<cv::vector_d<S, N>>;
template <typename S, std::size_t N, std::size_t D>
using str_t = cb::strided<cv::vector_d<std::size_t, D>, arr_t<S, N>>;
template <typename S, std::size_t N, std::size_t D>
using lin_t = cb::linear<str_t<S, N, D>>;
template <typename S, std::size_t N, std::size_t D>
using nn_t = cb::nearest_neighbour<str_t<S, N, D>>;
/* interpolators with a double precision coordinate type */
template <typename S, std::size_t N, std::size_t D>
using lind_t = cb::linear<str_t<S, N, D>, cv::vector_d<double, D>>;
template <typename S, std::size_t N, std::size_t D>
using nnd_t = cb::nearest_neighbour<str_t<S, N, D>, cv::vector_d<double, D>>;
template <typename S, std::size_t N, std::size_t D>
using afflin_t = cb::affine<lin_t<S, N, D>>;
template <typename S, std::size_t N, std::size_t D>
using affnn_t = cb::affine<nn_t<S, N, D>>;

template <typename S>
const auto & innermost(const S & s)
{
    if constexpr (requires { s.get_backend(); }) {
        return innermost(s.get_backend());
    } else {
        return s;
    }
}

template <typename S>
const auto & strided_layer(const S & s)
{
    if constexpr (requires { s.m_sizes; }) {
        return s;
    } else {
        return strided_layer(s.get_backend());
    }
}

template <typename F>
std::string dump_of(const F & f)
{
    std::ostringstream os(std::ios::binary);
    f.dump(os);
    CHECK(os.good(), "dump stream state");
    return os.str();
}

/*
 * Load `file` (holding values of type Ssrc) as field<B>, whose storage scalar
 * is T, verify every lattice value, the configuration, and the re-dump.
 */
template <typename B, typename T, typename Ssrc, std::size_t N, std::size_t D>
void load_and_verify(
    const char * tag,
    wrap w,
    const std::array<std::size_t, D> & ext,
    const std::vector<Ssrc> & vals,
    const std::string & file
)
{
    std::size_t count = 1;
    for (std::size_t e : ext) {
        count *= e;
    }

    std::ostringstream where;
    where << tag << " N=" << N << " D=" << D << " count=" << count
          << " src=" << sizeof(Ssrc) << " dst=" << sizeof(T);

    std::istringstream is(file, std::ios::binary);
    covfie::field<B> f(is);

    CHECK(is.good(), where.str() << " stream state after load");
    CHECK(
        static_cast<std::size_t>(is.tellg()) == file.size(),
        where.str() << " stream position after load"
    );

    const auto & a = innermost(f.backend());
    CHECK(a.m_size == count, where.str() << " element count " << a.m_size);
    CHECK(a.get_configuration()[0] == count, where.str() << " array config");

    std::vector<T> expect(count * N);
    for (std::size_t i = 0; i < count * N; ++i) {
        expect[i] = reference_convert<T, Ssrc>(vals[i]);
    }

    if (a.m_size == count) {
        for (std::size_t i = 0; i < count; ++i) {
            for (std::size_t j = 0; j < N; ++j) {
                const T got = a.m_ptr[i][j];
                CHECK(
                    bits_of(got) == bits_of(expect[i * N + j]),
                    where.str() << " element " << i << "/" << j << " src "
                                << std::hexfloat << vals[i * N + j] << " got "
                                << got << " expected " << expect[i * N + j]
                );
            }
        }
    }

    if constexpr (!std::is_same_v<B, arr_t<T, N>>) {
        if (w != wrap::none) {
            const auto conf = strided_layer(f.backend()).get_configuration();
            for (std::size_t k = 0; k < D; ++k) {
                CHECK(conf[k] == ext[k], where.str() << " extent " << k);
            }
        }
    }

    /* the view must see the same lattice */
    if (count > 0) {
        typename covfie::field<B>::view_t v(f);
        (void)v;
    }

    const std::string expected_dump = make_file<T, D>(w, ext, N, expect);
    const std::string got_dump = dump_of(f);
    CHECK(got_dump == expected_dump, where.str() << " re-dump bytes");
    if constexpr (std::is_same_v<T, Ssrc>) {
        CHECK(got_dump == file, where.str() << " re-dump equals input");
    }

    /* copies, moves, assignments keep the bytes */
    {
        covfie::field<B> c(f);
        CHECK(dump_of(c) == expected_dump, where.str() << " copy");
        covfie::field<B> m(std::move(c));
        CHECK(dump_of(m) == expected_dump, where.str() << " move");
        covfie::field<B> d;
        d = m;
        CHECK(dump_of(d) == expected_dump, where.str() << " copy-assign");
        covfie::field<B> & dr = d;
        d = dr;
        CHECK(dump_of(d) == expected_dump, where.str() << " self-assign");
        covfie::field<B> e;
        e = std::move(d);
        CHECK(dump_of(e) == expected_dump, where.str() << " move-assign");
        d = e; /* assign into moved-from */
        CHECK(dump_of(d) == expected_dump, where.str() << " reuse moved-from");
        CHECK(dump_of(m) == expected_dump, where.str() << " source intact");
    }

    /* a second load of the re-dump is a fixed point */
    {
        std::istringstream is2(got_dump, std::ios::binary);
        covfie::field<B> g(is2);
        CHECK(dump_of(g) == got_dump, where.str() << " fixed point");
    }
}

template <typename Ssrc, std::size_t N, std::size_t D>
void sweep_one(const std::array<std::size_t, D> & ext, uint64_t seed)
{
    std::size_t count = 1;
    for (std::size_t e : ext) {
        count *= e;
    }

    const std::vector<Ssrc> vals = make_values<Ssrc>(count * N, seed);

    const std::string fs = make_file<Ssrc, D>(wrap::strided, ext, N, vals);
    const std::string fa =
        make_file<Ssrc, D>(wrap::affine_strided, ext, N, vals);

    auto one_width = [&]<typename T>() {
        load_and_verify<str_t<T, N, D>, T, Ssrc, N, D>(
            "strided", wrap::strided, ext, vals, fs
        );
        load_and_verify<nn_t<T, N, D>, T, Ssrc, N, D>(
            "nn", wrap::strided, ext, vals, fs
        );
        load_and_verify<lin_t<T, N, D>, T, Ssrc, N, D>(
            "linear", wrap::strided, ext, vals, fs
        );
        load_and_verify<nnd_t<T, N, D>, T, Ssrc, N, D>(
            "nn/double-coord", wrap::strided, ext, vals, fs
        );
        load_and_verify<lind_t<T, N, D>, T, Ssrc, N, D>(
            "linear/double-coord", wrap::strided, ext, vals, fs
        );
        load_and_verify<affnn_t<T, N, D>, T, Ssrc, N, D>(
            "affine/nn", wrap::affine_strided, ext, vals, fa
        );
        load_and_verify<afflin_t<T, N, D>, T, Ssrc, N, D>(
            "affine/linear", wrap::affine_strided, ext, vals, fa
        );
    };

    one_width.template operator()<float>();
    one_width.template operator()<double>();

    if constexpr (D == 1) {
        /* the bare array, no strided layer */
        const std::string fb = make_file<Ssrc, D>(wrap::none, ext, N, vals);
        load_and_verify<arr_t<float, N>, float, Ssrc, N, D>(
            "array", wrap::none, ext, vals, fb
        );
        load_and_verify<arr_t<double, N>, double, Ssrc, N, D>(
            "array", wrap::none, ext, vals, fb
        );
    }
}

template <std::size_t N>
void sweep_components()
{
    uint64_t seed = 1000 * N;

    /* 1D: counts around every block boundary of the staged reader, for all
     * of 4, 8, 12, 16, 24 and 32 byte elements */
    const std::size_t counts[] = {0,   1,   2,   3,   5,   31,   32,   33,
                                  63,  64,  65,  85,  86,  127,  128,  129,
                                  169, 170, 171, 255, 256, 257,  341,  342,
                                  343, 511, 512, 513, 682, 683,  1023, 1024,
                                  1025, 2047, 2048, 2049, 4099};
    for (std::size_t c : counts) {
        sweep_one<float, N, 1>({c}, ++seed);
        sweep_one<double, N, 1>({c}, ++seed);
    }

    const std::array<std::size_t, 2> e2[] = {
        {0, 0}, {0, 4}, {3, 0}, {1, 1}, {2, 3}, {16, 8}, {17, 31}, {64, 64}};
    for (const auto & e : e2) {
        sweep_one<float, N, 2>(e, ++seed);
        sweep_one<double, N, 2>(e, ++seed);
    }

    const std::array<std::size_t, 3> e3[] = {
        {0, 0, 0},
        {0, 3, 3},
        {1, 1, 1},
        {2, 2, 2},
        {3, 3, 3},
        {1, 7, 1},
        {5, 4, 3},
        {8, 8, 8},
        {11, 13, 7},
        {4, 8, 16}};
    for (const auto & e : e3) {
        sweep_one<float, N, 3>(e, ++seed);
        sweep_one<double, N, 3>(e, ++seed);
    }
}

/* ---------------------------------------------------------------------- */
/* fields built through the API, written by the library                   */
/* ---------------------------------------------------------------------- */

template <typename S>
void api_built()
{
    using base_t = str_t<S, 3, 3>;
    using nnf_t = cb::affine<cb::nearest_neighbour<base_t>>;
    using lif_t = cb::affine<cb::linear<base_t>>;
    using O = std::conditional_t<std::is_same_v<S, float>, double, float>;
    using obase_t = str_t<O, 3, 3>;
    using olif_t = cb::affine<cb::linear<obase_t>>;
    using onnf_t = cb::affine<cb::nearest_neighbour<obase_t>>;

    const std::array<std::size_t, 3> ext{4, 5, 6};
    const std::size_t count = 4 * 5 * 6;
    std::vector<S> vals;
    {
        /* values that are representable in both widths or that need rounding
         * when S is double */
        const std::vector<double> dv = make_values<double>(count * 3, 77);
        for (double d : dv) {
            vals.push_back(reference_convert<S, double>(d));
        }
        if constexpr (std::is_same_v<S, double>) {
            vals = dv;
        }
    }

    covfie::field<base_t> bf(
        covfie::make_parameter_pack_for<covfie::field<base_t>>(
            {4u, 5u, 6u}, {count}
        )
    );
    {
        typename covfie::field<base_t>::view_t bv(bf);
        std::size_t i = 0;
        for (std::size_t x = 0; x < 4; ++x) {
            for (std::size_t y = 0; y < 5; ++y) {
                for (std::size_t z = 0; z < 6; ++z) {
                    auto & p = bv.at(x, y, z);
                    p[0] = vals[3 * i + 0];
                    p[1] = vals[3 * i + 1];
                    p[2] = vals[3 * i + 2];
                    ++i;
                }
            }
        }
    }

    CHECK(
        dump_of(bf) == (make_file<S, 3>(wrap::strided, ext, 3, vals)),
        "API-built strided field has the golden byte layout"
    );

    /* identity-like affine whose bytes we can predict */
    covfie::algebra::affine<3> tr =
        covfie::algebra::affine<3>::translation(0.f, 0.f, 0.f);
    bytes b;
    b.open(ID_FIELD);
    b.open(ID_AFFINE);
    for (std::size_t i = 0; i < 3; ++i) {
        for (std::size_t j = 0; j < 4; ++j) {
            b.put<float>(i == j ? 1.f : 0.f);
        }
    }
    {
        const std::string inner = make_file<S, 3>(wrap::strided, ext, 3, vals);
        b.d.append(inner.substr(8, inner.size() - 16));
    }
    b.close(ID_AFFINE);
    b.close(ID_FIELD);

    covfie::field<nnf_t> nnf(covfie::make_parameter_pack(
        typename nnf_t::configuration_t(tr),
        typename nnf_t::backend_t::configuration_t{},
        std::move(bf.backend())
    ));
    const std::string nn_bytes = dump_of(nnf);
    CHECK(nn_bytes == b.d, "API-built affine/nn field has the golden layout");

    /* nn file -> linear field, same precision */
    {
        std::istringstream is(nn_bytes, std::ios::binary);
        covfie::field<lif_t> lf(is);
        CHECK(dump_of(lf) == nn_bytes, "nn -> linear keeps the bytes");

        /* interpolation at interior lattice points returns the lattice */
        typename covfie::field<lif_t>::view_t lv(lf);
        typename covfie::field<nnf_t>::view_t nv(nnf);
        for (std::size_t x = 0; x < 3; ++x) {
            for (std::size_t y = 0; y < 4; ++y) {
                for (std::size_t z = 0; z < 5; ++z) {
                    const auto lp = lv.at(
                        static_cast<float>(x),
                        static_cast<float>(y),
                        static_cast<float>(z)
                    );
                    const auto & np = nv.at(
                        static_cast<float>(x),
                        static_cast<float>(y),
                        static_cast<float>(z)
                    );
                    const std::size_t i = (x * 5 + y) * 6 + z;
                    for (std::size_t q = 0; q < 3; ++q) {
                        CHECK(
                            bits_of(np[q]) == bits_of(vals[3 * i + q]),
                            "nn view sees the lattice"
                        );
                        CHECK(
                            lp[q] == static_cast<S>(
                                         1.f * static_cast<float>(np[q])
                                     ) ||
                                lp[q] == np[q],
                            "linear view agrees with nn at lattice points"
                        );
                    }
                }
            }
        }
    }

    /* nn file -> other precision, linear and nn; then back again */
    {
        std::vector<O> ovals;
        for (S s : vals) {
            ovals.push_back(reference_convert<O, S>(s));
        }

        std::istringstream is(nn_bytes, std::ios::binary);
        covfie::field<olif_t> olf(is);
        const std::string obytes = dump_of(olf);

        std::istringstream is2(nn_bytes, std::ios::binary);
        covfie::field<onnf_t> onf(is2);
        CHECK(dump_of(onf) == obytes, "other precision: nn == linear bytes");

        const auto & a = innermost(olf.backend());
        CHECK(a.m_size == count, "other precision: count");
        for (std::size_t i = 0; i < count && a.m_size == count; ++i) {
            for (std::size_t q = 0; q < 3; ++q) {
                CHECK(
                    bits_of(static_cast<O>(a.m_ptr[i][q])) ==
                        bits_of(ovals[3 * i + q]),
                    "other precision: value"
                );
            }
        }

        /* and back: widening then narrowing is the identity; narrowing then
         * widening gives the rounded values */
        std::istringstream is3(obytes, std::ios::binary);
        covfie::field<nnf_t> back(is3);
        const auto & ba = innermost(back.backend());
        for (std::size_t i = 0; i < count && ba.m_size == count; ++i) {
            for (std::size_t q = 0; q < 3; ++q) {
                const S want = reference_convert<S, O>(ovals[3 * i + q]);
                CHECK(
                    bits_of(static_cast<S>(ba.m_ptr[i][q])) == bits_of(want),
                    "round trip through the other precision"
                );
                if constexpr (std::is_same_v<S, float>) {
                    CHECK(
                        bits_of(want) == bits_of(vals[3 * i + q]),
                        "float -> double -> float is the identity"
                    );
                }
            }
        }
    }
}

/* ---------------------------------------------------------------------- */
/* empty and default constructed fields                                   */
/* ---------------------------------------------------------------------- */

void empty_fields()
{
    {
        using F = covfie::field<arr_t<float, 3>>;
        F f;
        const std::string d = dump_of(f);
        const std::string want =
            make_file<float, 1>(wrap::none, {0}, 3, std::vector<float>{});
        CHECK(d == want, "default constructed array field dumps as empty");
        std::istringstream is(d, std::ios::binary);
        F g(is);
        CHECK(dump_of(g) == want, "empty array field round trip");
        CHECK(innermost(g.backend()).m_size == 0, "empty count");
        F h(g);
        F k;
        k = h;
        k = std::move(h);
        CHECK(dump_of(k) == want, "empty copies");

        std::istringstream is2(d, std::ios::binary);
        covfie::field<arr_t<double, 3>> gd(is2);
        CHECK(
            dump_of(gd) == (make_file<double, 1>(
                               wrap::none, {0}, 3, std::vector<double>{}
                           )),
            "empty float file into double field"
        );
    }
    {
        using F = covfie::field<lin_t<double, 2, 3>>;
        F f;
        const std::string d = dump_of(f);
        std::istringstream is(d, std::ios::binary);
        F g(is);
        CHECK(dump_of(g) == d, "default constructed linear/strided field");
        std::istringstream is2(d, std::ios::binary);
        covfie::field<nn_t<float, 2, 3>> h(is2);
        std::istringstream is3(dump_of(h), std::ios::binary);
        F k(is3);
        CHECK(dump_of(k) == d, "default constructed field across stacks");
    }
}

/* ---------------------------------------------------------------------- */
/* damaged and unusual input                                              */
/* ---------------------------------------------------------------------- */

/* a stream buffer that cannot seek and hands out one byte at a time */
struct trickle_buf : std::streambuf {
    explicit trickle_buf(const std::string & s)
        : m_s(s)
        , m_pos(0)
    {
    }

    int_type underflow() override
    {
        if (m_pos >= m_s.size()) {
            return traits_type::eof();
        }
        m_c = m_s[m_pos++];
        setg(&m_c, &m_c, &m_c + 1);
        return traits_type::to_int_type(m_c);
    }

    std::string m_s;
    std::size_t m_pos;
    char m_c = 0;
};

template <typename F>
bool throws_runtime_error(const std::string & data, bool seekable)
{
    try {
        if (seekable) {
            std::istringstream is(data, std::ios::binary);
            F f(is);
        } else {
            trickle_buf tb(data);
            std::istream is(&tb);
            F f(is);
        }
    } catch (const std::runtime_error &) {
        return true;
    } catch (...) {
        return false;
    }
    return false;
}

template <typename F>
bool throws_std_exception(const std::string & data)
{
    try {
        std::istringstream is(data, std::ios::binary);
        F f(is);
    } catch (const std::exception &) {
        return true;
    } catch (...) {
        return false;
    }
    return false;
}

void damaged_input()
{
    const std::array<std::size_t, 2> ext{3, 5};
    const std::vector<double> dv = make_values<double>(15 * 3, 5);
    const std::vector<float> fv = make_values<float>(15 * 3, 6);
    const std::string fd = make_file<double, 2>(wrap::affine_strided, ext, 3, dv);
    const std::string ff = make_file<float, 2>(wrap::affine_strided, ext, 3, fv);

    using Ff = covfie::field<afflin_t<float, 3, 2>>;
    using Fd = covfie::field<affnn_t<double, 3, 2>>;

    /* every proper prefix is rejected, whatever the widths, seekable or not */
    for (const std::string * s : {&fd, &ff}) {
        for (std::size_t l = 0; l < s->size(); ++l) {
            const std::string cut = s->substr(0, l);
            CHECK(throws_runtime_error<Ff>(cut, true), "prefix " << l);
            CHECK(throws_runtime_error<Fd>(cut, true), "prefix " << l);
            CHECK(throws_runtime_error<Ff>(cut, false), "prefix/ns " << l);
            CHECK(throws_runtime_error<Fd>(cut, false), "prefix/ns " << l);
        }
        /* the complete file from a non-seekable, byte-wise source is fine */
        CHECK(!throws_runtime_error<Ff>(*s, false), "non-seekable load");
        CHECK(!throws_runtime_error<Fd>(*s, false), "non-seekable load");
    }

    /* with stream exceptions enabled a short read is still a runtime_error
     * (ios_base::failure is one) */
    {
        std::istringstream is(fd.substr(0, fd.size() - 40), std::ios::binary);
        is.exceptions(std::ios::failbit | std::ios::badbit | std::ios::eofbit);
        bool ok = false;
        try {
            Ff f(is);
        } catch (const std::runtime_error &) {
            ok = true;
        } catch (...) {
        }
        CHECK(ok, "short read with stream exceptions enabled");
    }

    /* the position of the array record inside these files */
    const std::size_t array_at = 8 /*field*/ + 8 + 2 * 3 * 4 /*affine*/ + 8 +
                                 2 * 8 /*strided*/;
    {
        uint32_t id;
        std::memcpy(&id, fd.data() + array_at + 4, 4);
        CHECK(id == ID_ARRAY, "array record located");
    }

    /* unsupported scalar widths */
    for (uint32_t w : {0u, 1u, 2u, 3u, 5u, 12u, 16u, 0x04000000u, 0xFFFFFFFFu})
    {
        std::string bad = fd;
        std::memcpy(bad.data() + array_at + 8, &w, 4);
        CHECK(throws_runtime_error<Ff>(bad, true), "width " << w);
        CHECK(throws_runtime_error<Fd>(bad, false), "width " << w);
    }

    /* a width that does not match the payload: 4 announced, 8 stored; the
     * reader then finds payload where the footer should be */
    {
        std::string bad = fd;
        const uint32_t w = 4;
        std::memcpy(bad.data() + array_at + 8, &w, 4);
        CHECK(throws_runtime_error<Ff>(bad, true), "width/payload mismatch");
        CHECK(throws_runtime_error<Fd>(bad, true), "width/payload mismatch");
    }

    /* element counts that are off by one in either direction */
    for (uint64_t c : {uint64_t{14}, uint64_t{16}, uint64_t{0}, uint64_t{1000}})
    {
        std::string bad = ff;
        std::memcpy(bad.data() + array_at + 12, &c, 8);
        CHECK(throws_runtime_error<Ff>(bad, true), "count " << c);
        CHECK(throws_runtime_error<Fd>(bad, true), "count " << c);
        CHECK(throws_runtime_error<Fd>(bad, false), "count/ns " << c);
    }

    /* absurd element counts must be reported, not attempted */
    for (uint64_t c :
         {uint64_t{1} << 62,
          uint64_t{1} << 63,
          ~uint64_t{0},
          (~uint64_t{0}) / 12 + 1})
    {
        std::string bad = ff;
        std::memcpy(bad.data() + array_at + 12, &c, 8);
        CHECK(throws_std_exception<Ff>(bad), "count " << c);
        CHECK(throws_std_exception<Fd>(bad), "count " << c);
    }

    /* broken magic numbers at every level */
    for (std::size_t off :
         {std::size_t{0},
          std::size_t{4},
          std::size_t{8},
          std::size_t{12},
          array_at,
          array_at + 4,
          fd.size() - 4,
          fd.size() - 8,
          fd.size() - 12,
          fd.size() - 16,
          fd.size() - 20,
          fd.size() - 24,
          fd.size() - 28,
          fd.size() - 32})
    {
        std::string bad = fd;
        bad[off] = static_cast<char>(bad[off] ^ 0x40);
        CHECK(throws_runtime_error<Ff>(bad, true), "magic at " << off);
        CHECK(throws_runtime_error<Fd>(bad, true), "magic at " << off);
    }

    /* several records in one stream, with trailing bytes */
    {
        const std::string all = fd + ff + fd + std::string("trailing garbage");
        std::istringstream is(all, std::ios::binary);
        Ff a(is);
        CHECK(static_cast<std::size_t>(is.tellg()) == fd.size(), "pos 1");
        Fd b(is);
        CHECK(
            static_cast<std::size_t>(is.tellg()) == fd.size() + ff.size(),
            "pos 2"
        );
        Fd c(is);
        CHECK(
            static_cast<std::size_t>(is.tellg()) == 2 * fd.size() + ff.size(),
            "pos 3"
        );
        CHECK(is.good(), "stream still good");
        std::string rest;
        std::getline(is, rest);
        CHECK(rest == "trailing garbage", "rest of the stream is untouched");
        CHECK(dump_of(c) == fd, "third record, same width");
        std::istringstream i2(ff, std::ios::binary);
        Fd b2(i2);
        CHECK(dump_of(b) == dump_of(b2), "second record");

        /* same thing, non-seekable */
        trickle_buf tb(all);
        std::istream ns(&tb);
        Ff na(ns);
        Fd nb(ns);
        Fd nc(ns);
        CHECK(dump_of(na) == dump_of(a), "ns record 1");
        CHECK(dump_of(nb) == dump_of(b), "ns record 2");
        CHECK(dump_of(nc) == fd, "ns record 3");
        std::getline(ns, rest);
        CHECK(rest == "trailing garbage", "ns rest of the stream");
    }

    /* a read/write stringstream that is being appended to */
    {
        std::stringstream ss(
            std::ios::in | std::ios::out | std::ios::binary
        );
        ss.write(fd.data(), static_cast<std::streamsize>(fd.size()));
        Ff a(ss);
        ss.write(ff.data(), static_cast<std::streamsize>(ff.size()));
        Ff b(ss);
        std::istringstream i1(fd, std::ios::binary), i2(ff, std::ios::binary);
        Ff a2(i1), b2(i2);
        CHECK(dump_of(a) == dump_of(a2), "stringstream record 1");
        CHECK(dump_of(b) == dump_of(b2), "stringstream record 2");
    }

    /* real files */
    {
        const std::string path =
            "/tmp/covfie_demo_L07b_" + std::to_string(::getpid()) + ".cvf";
        {
            std::ofstream ofs(path, std::ios::binary);
            ofs.write(fd.data(), static_cast<std::streamsize>(fd.size()));
            ofs.write(ff.data(), static_cast<std::streamsize>(ff.size()));
        }
        {
            std::ifstream ifs(path, std::ios::binary);
            Ff a(ifs);
            CHECK(
                static_cast<std::size_t>(ifs.tellg()) == fd.size(),
                "file position"
            );
            Fd b(ifs);
            CHECK(ifs.good(), "file stream state");
            CHECK(ifs.peek() == std::char_traits<char>::eof(), "file at end");
            std::istringstream i1(fd, std::ios::binary);
            Ff a2(i1);
            CHECK(dump_of(a) == dump_of(a2), "file record 1");
            std::ofstream ofs(path + ".out", std::ios::binary);
            b.dump(ofs);
            a.dump(ofs);
            ofs.close();
            std::ifstream back(path + ".out", std::ios::binary);
            std::stringstream all;
            all << back.rdbuf();
            CHECK(all.str() == dump_of(b) + dump_of(a), "file dump bytes");
        }
        {
            /* truncated file */
            std::ofstream ofs(path, std::ios::binary | std::ios::trunc);
            ofs.write(fd.data(), static_cast<std::streamsize>(fd.size() - 100));
            ofs.close();
            std::ifstream ifs(path, std::ios::binary);
            bool ok = false;
            try {
                Ff a(ifs);
            } catch (const std::runtime_error &) {
                ok = true;
            }
            CHECK(ok, "truncated file");
        }
        std::remove(path.c_str());
        std::remove((path + ".out").c_str());
    }
}

/* the array reader also accepts non floating point targets */
void integer_target()
{
    std::vector<float> fv;
    std::vector<double> dv;
    for (int i = 0; i < 2 * 700; ++i) {
        fv.push_back(static_cast<float>(i % 97) - 40.f + 0.75f);
        dv.push_back(static_cast<double>(i % 89) - 30.0 + 0.25);
    }
    bytes bf, bd;
    put_array<float>(bf, 700, 2, fv);
    put_array<double>(bd, 700, 2, dv);

    using A = cb::array<cv::vector_d<int, 2>>;
    {
        std::istringstream is(bf.d, std::ios::binary);
        auto a = A::owning_data_t::read_binary(is);
        CHECK(a.m_size == 700, "int target count");
        for (std::size_t i = 0; i < 700 && a.m_size == 700; ++i) {
            for (std::size_t j = 0; j < 2; ++j) {
                CHECK(
                    a.m_ptr[i][j] == static_cast<int>(fv[2 * i + j]),
                    "int from float"
                );
            }
        }
    }
    {
        std::istringstream is(bd.d, std::ios::binary);
        auto a = A::owning_data_t::read_binary(is);
        CHECK(a.m_size == 700, "int target count");
        for (std::size_t i = 0; i < 700 && a.m_size == 700; ++i) {
            for (std::size_t j = 0; j < 2; ++j) {
                CHECK(
                    a.m_ptr[i][j] == static_cast<int>(dv[2 * i + j]),
                    "int from double"
                );
            }
        }
    }
}

/* infinities are carried across, too */
void non_finite()
{
    const double inf = std::numeric_limits<double>::infinity();
    const std::vector<double> dv = {inf, -inf, 1.0, -0.0, inf, 2.5};
    const std::string f = make_file<double, 1>(wrap::none, {3}, 2, dv);
    std::istringstream is(f, std::ios::binary);
    covfie::field<arr_t<float, 2>> g(is);
    const auto & a = innermost(g.backend());
    for (std::size_t i = 0; i < 6; ++i) {
        CHECK(
            bits_of(static_cast<float>(a.m_ptr[i / 2][i % 2])) ==
                bits_of(static_cast<float>(dv[i])),
            "non-finite narrowing"
        );
    }
    std::istringstream is2(dump_of(g), std::ios::binary);
    covfie::field<arr_t<double, 2>> h(is2);
    CHECK(dump_of(h) == f, "non-finite back to double");
}

/* ---------------------------------------------------------------------- */
/* threads                                                                */
/* ---------------------------------------------------------------------- */

void threaded()
{
    const std::array<std::size_t, 3> ext{9, 10, 11};
    const std::size_t count = 990;
    const std::vector<double> dv = make_values<double>(count * 3, 4242);
    const std::string fd = make_file<double, 3>(wrap::affine_strided, ext, 3, dv);
    std::vector<float> fv;
    for (double d : dv) {
        fv.push_back(reference_convert<float, double>(d));
    }
    const std::string ff = make_file<float, 3>(wrap::affine_strided, ext, 3, fv);
    std::vector<double> dfv(fv.begin(), fv.end());
    const std::string fdf =
        make_file<double, 3>(wrap::affine_strided, ext, 3, dfv);

    /* one shared, immutable source field that every thread copies from */
    std::istringstream is0(fd, std::ios::binary);
    const covfie::field<afflin_t<double, 3, 3>> shared(is0);

    std::vector<std::thread> ts;
    for (int t = 0; t < 8; ++t) {
        ts.emplace_back([&, t]() {
            for (int rep = 0; rep < 20; ++rep) {
                if ((t + rep) % 2 == 0) {
                    std::istringstream is(fd, std::ios::binary);
                    covfie::field<afflin_t<float, 3, 3>> f(is);
                    CHECK(dump_of(f) == ff, "thread: double -> float/linear");
                    std::istringstream is2(ff, std::ios::binary);
                    covfie::field<affnn_t<double, 3, 3>> g(is2);
                    CHECK(dump_of(g) == fdf, "thread: float -> double/nn");
                } else {
                    covfie::field<afflin_t<double, 3, 3>> c(shared);
                    CHECK(dump_of(c) == fd, "thread: copy of shared field");
                    covfie::field<afflin_t<double, 3, 3>> d;
                    d = c;
                    d = std::move(c);
                    CHECK(dump_of(d) == fd, "thread: assigned copy");
                    CHECK(dump_of(shared) == fd, "thread: shared dump");
                }
            }
        });
    }
    for (std::thread & t : ts) {
        t.join();
    }
}

/* ---------------------------------------------------------------------- */
/* only valid with the change applied                                     */
/* ---------------------------------------------------------------------- */

#ifdef DEMO_WITH_CHANGE
void environment_independence()
{
    const std::size_t count = 3000;
    const std::vector<double> dv = make_values<double>(count * 3, 99);
    std::vector<float> want;
    for (double d : dv) {
        want.push_back(reference_convert<float, double>(d));
    }
    const std::string fd = make_file<double, 1>(wrap::none, {count}, 3, dv);
    const std::string ff = make_file<float, 1>(wrap::none, {count}, 3, want);

    for (int mode : {FE_UPWARD, FE_DOWNWARD, FE_TOWARDZERO, FE_TONEAREST}) {
        std::fesetround(mode);
        std::feclearexcept(FE_ALL_EXCEPT);
        std::string got;
        int flags_after_load;
        {
            std::istringstream is(fd, std::ios::binary);
            covfie::field<arr_t<float, 3>> f(is);
            flags_after_load = std::fetestexcept(FE_ALL_EXCEPT);
            got = dump_of(f);
        }
        const int mode_after = std::fegetround();
        std::fesetround(FE_TONEAREST);
        CHECK(got == ff, "rounds to nearest in rounding mode " << mode);
        CHECK(mode_after == mode, "rounding mode untouched");
        CHECK(flags_after_load == 0, "no exception flags raised");
    }

    /* sticky flags that were set before the load stay set */
    std::feraiseexcept(FE_INEXACT | FE_UNDERFLOW);
    {
        std::istringstream is(fd, std::ios::binary);
        covfie::field<arr_t<float, 3>> f(is);
        CHECK(dump_of(f) == ff, "load with sticky flags");
    }
    CHECK(
        std::fetestexcept(FE_ALL_EXCEPT) == (FE_INEXACT | FE_UNDERFLOW),
        "sticky flags are preserved"
    );
    std::feclearexcept(FE_ALL_EXCEPT);

    /* the bit level conversions against the hardware, default environment */
    rng r{0xC0FFEE};
    for (std::size_t i = 0; i < 4000000; ++i) {
        uint64_t b = r.next();
        if (i % 3 == 0) {
            /* squeeze the exponent into the float range */
            const uint64_t e = 1023 - 160 + (r.next() % 300);
            b = (b & 0x800FFFFFFFFFFFFFull) | (e << 52);
        }
        if (i % 5 == 0) {
            b &= 0xFFFFFFFFF0000000ull; /* many ties */
        }
        const double d = from_bits(b);
        if (d != d) {
            continue;
        }
        const float hw = reference_convert<float, double>(d);
        CHECK(
            covfie::utility::ieee754::narrow_bits(b) == bits_of(hw),
            "narrow_bits " << std::hex << b
        );
    }
    for (uint64_t i = 0; i <= 0xFFFFFFFFull; i += 4093) {
        const uint32_t b = static_cast<uint32_t>(i);
        const float f = f_from_bits(b);
        if (f != f) {
            continue;
        }
        const double hw = reference_convert<double, float>(f);
        CHECK(
            covfie::utility::ieee754::widen_bits(b) == bits_of(hw),
            "widen_bits " << std::hex << b
        );
    }
}
#endif
}

int main()
{
    sweep_components<1>();
    sweep_components<2>();
    sweep_components<3>();
    sweep_components<4>();
    api_built<float>();
    api_built<double>();
    empty_fields();
    damaged_input();
    integer_target();
    non_finite();
    threaded();
#ifdef DEMO_WITH_CHANGE
    environment_independence();
#endif

    if (g_failures.load() != 0) {
        std::printf(
            "FAIL (%lu of %lu checks)\n", g_failures.load(), g_checks.load()
        );
        return 1;
    }

    std::printf("PASS (%lu checks)\n", g_checks.load());
    return 0;
}
