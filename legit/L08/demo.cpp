/*
 * Demo / regression program for the deserialization paths of covfie
 * (binary_io.hpp, field.hpp, array.hpp, strided.hpp).
 *
 * It only uses the public interface which exists both before and after the
 * change, and prints PASS and exits 0 in both cases.
 *
 * Compile (from anywhere):
 *   g++ -std=c++20 -O1 -g -Wall -Wextra -I/tmp/wt_L08/lib/core \
 *       /tmp/wt_L08/seeded/demo.cpp -o /tmp/wt_L08/seeded/demo -pthread
 * Variants which were run as well:
 *   ... -DNDEBUG
 *   ... -fsanitize=address,undefined -fno-sanitize-recover=all
 *   ... -fsanitize=thread
 *   valgrind --error-exitcode=9 -q ./demo
 */

#include <atomic>
#include <cstdint>
#include <cstdio>
#include <cstring>
#include <iostream>
#include <sstream>
#include <stdexcept>
#include <streambuf>
#include <string>
#include <thread>
#include <vector>

#include <covfie/core/backend/primitive/array.hpp>
#include <covfie/core/backend/primitive/constant.hpp>
#include <covfie/core/backend/transformer/affine.hpp>
#include <covfie/core/backend/transformer/backup.hpp>
#include <covfie/core/backend/transformer/clamp.hpp>
#include <covfie/core/backend/transformer/hilbert.hpp>
#include <covfie/core/backend/transformer/linear.hpp>
#include <covfie/core/backend/transformer/morton.hpp>
#include <covfie/core/backend/transformer/nearest_neighbour.hpp>
#include <covfie/core/backend/transformer/strided.hpp>
#include <covfie/core/field.hpp>
#include <covfie/core/parameter_pack.hpp>

namespace cv = covfie::vector;
namespace cb = covfie::backend;

static std::atomic<long> g_checks{0};
static std::atomic<long> g_failures{0};

#define CHECK(cond)                                                            \
    do {                                                                       \
        ++g_checks;                                                            \
        if (!(cond)) {                                                         \
            ++g_failures;                                                      \
            std::fprintf(stderr, "FAILED %s:%d: %s\n", __FILE__, __LINE__, #cond); \
        }                                                                      \
    } while (0)

/* ------------------------------------------------------------------------ */
/* Stream buffers                                                           */
/* ------------------------------------------------------------------------ */

/*
 * A non-seekable, unbuffered input: one character per underflow, no xsgetn
 * override, no seekoff/seekpos (so the defaults answer -1).
 */
class trickle_buf : public std::streambuf
{
public:
    explicit trickle_buf(const std::string & s)
        : m_data(s)
    {
    }

protected:
    int_type underflow() override
    {
        if (m_pos >= m_data.size()) {
            return traits_type::eof();
        }
        m_ch = m_data[m_pos++];
        setg(&m_ch, &m_ch, &m_ch + 1);
        return traits_type::to_int_type(m_ch);
    }

private:
    std::string m_data;
    std::size_t m_pos = 0;
    char m_ch = 0;
};

/*
 * An input which starts to fail at its n-th transfer request, either by
 * reporting end of file or by throwing from inside the buffer. Transfers are
 * also cut into pieces of at most `piece` bytes.
 */
class failing_buf : public std::streambuf
{
public:
    failing_buf(const std::string & s, long fail_at, bool do_throw, std::size_t piece)
        : m_data(s)
        , m_fail_at(fail_at)
        , m_throw(do_throw)
        , m_piece(piece)
    {
    }

    long calls() const
    {
        return m_calls;
    }

protected:
    bool tick()
    {
        if (m_fail_at >= 0 && m_calls >= m_fail_at) {
            m_dead = true;
        }
        ++m_calls;
        if (m_dead && m_throw) {
            throw std::runtime_error("failing_buf: injected failure");
        }
        return !m_dead;
    }

    std::streamsize xsgetn(char * dst, std::streamsize n) override
    {
        std::streamsize done = 0;
        while (done < n) {
            if (!tick()) {
                break;
            }
            std::size_t avail = m_data.size() - m_pos;
            std::size_t want = static_cast<std::size_t>(n - done);
            std::size_t k = std::min(std::min(avail, want), m_piece);
            if (k == 0) {
                break;
            }
            std::memcpy(dst + done, m_data.data() + m_pos, k);
            m_pos += k;
            done += static_cast<std::streamsize>(k);
        }
        return done;
    }

    int_type underflow() override
    {
        if (!tick() || m_pos >= m_data.size()) {
            return traits_type::eof();
        }
        m_ch = m_data[m_pos++];
        setg(&m_ch, &m_ch, &m_ch + 1);
        return traits_type::to_int_type(m_ch);
    }

private:
    std::string m_data;
    std::size_t m_pos = 0;
    long m_fail_at;
    long m_calls = 0;
    bool m_throw;
    bool m_dead = false;
    std::size_t m_piece;
    char m_ch = 0;
};

/* ------------------------------------------------------------------------ */
/* Helpers                                                                  */
/* ------------------------------------------------------------------------ */

template <typename F>
std::string dump_str(const F & f)
{
    std::ostringstream os(std::ios::binary);
    f.dump(os);
    CHECK(os.good());
    return os.str();
}

enum class outcome {
    loaded,
    threw
};

/* Load F from `is`; if that works, give back its re-dump in `redump`. */
template <typename F>
outcome try_load(std::istream & is, std::string * redump = nullptr)
{
    try {
        F f(is);
        if (redump != nullptr) {
            *redump = dump_str(f);
        }
        return outcome::loaded;
    } catch (const std::exception & e) {
        CHECK(e.what() != nullptr && std::strlen(e.what()) > 0);
        return outcome::threw;
    }
}

template <typename F>
outcome try_load_seekable(const std::string & bytes, std::string * redump = nullptr)
{
    std::istringstream is(bytes, std::ios::binary);
    return try_load<F>(is, redump);
}

template <typename F>
outcome try_load_trickle(const std::string & bytes, std::string * redump = nullptr)
{
    trickle_buf tb(bytes);
    std::istream is(&tb);
    return try_load<F>(is, redump);
}

static uint32_t word_at(const std::string & s, std::size_t off)
{
    uint32_t w = 0;
    std::memcpy(&w, s.data() + off, 4);
    return w;
}

static void put_word(std::string & s, std::size_t off, uint32_t w)
{
    std::memcpy(s.data() + off, &w, 4);
}

static bool looks_like_tag(uint32_t w)
{
    return w == 0xC04F1EABu || w == 0xC04F1E70u ||
           (w & 0xFF000000u) == 0xAB000000u || (w & 0xFF000000u) == 0xCB000000u;
}

/*
 * Offsets of all header/footer words and of the float width word. Payload
 * values used by this program are small numbers, whose bit patterns can not be
 * mistaken for tags. Dumps are walked in steps of four bytes; every structure
 * in the format is a multiple of four bytes long.
 */
static std::vector<std::size_t> tag_offsets(const std::string & s)
{
    std::vector<std::size_t> rv;
    for (std::size_t off = 0; off + 4 <= s.size(); off += 4) {
        uint32_t w = word_at(s, off);
        if (looks_like_tag(w)) {
            rv.push_back(off);
            if (w == 0xAB010000u && off + 8 <= s.size()) {
                /* array backend: the next word is the float width */
                rv.push_back(off + 4);
                uint32_t fw = word_at(s, off + 4);
                CHECK(fw == 4 || fw == 8);
                off += 4;
            }
        }
    }
    return rv;
}

/* ------------------------------------------------------------------------ */
/* The battery which is run for every field                                  */
/* ------------------------------------------------------------------------ */

template <typename F>
void battery(const F & f, bool exhaustive_failing_streams)
{
    const std::string bytes = dump_str(f);
    CHECK(bytes.size() >= 16);
    CHECK(bytes.size() % 4 == 0);

    /* 1. complete dump loads, from both kinds of stream, and is reproduced */
    {
        std::string again;
        CHECK(try_load_seekable<F>(bytes, &again) == outcome::loaded);
        CHECK(again == bytes);
        again.clear();
        CHECK(try_load_trickle<F>(bytes, &again) == outcome::loaded);
        CHECK(again == bytes);
    }

    /* 1b. the stream is left exactly behind the dump; two dumps in a row */
    {
        std::istringstream is(bytes + bytes + "x", std::ios::binary);
        std::string a, b;
        CHECK(try_load<F>(is, &a) == outcome::loaded);
        CHECK(static_cast<std::size_t>(is.tellg()) == bytes.size());
        CHECK(try_load<F>(is, &b) == outcome::loaded);
        CHECK(a == bytes && b == bytes);
        CHECK(is.good());
        CHECK(is.get() == 'x');
    }

    /* 1c. a stream which is already unusable */
    {
        std::istringstream is(bytes, std::ios::binary);
        is.setstate(std::ios::failbit);
        CHECK(try_load<F>(is) == outcome::threw);
        std::istringstream is2(bytes, std::ios::binary);
        is2.setstate(std::ios::eofbit);
        CHECK(try_load<F>(is2) == outcome::threw);
        std::istringstream is3(bytes, std::ios::binary);
        is3.setstate(std::ios::badbit);
        CHECK(try_load<F>(is3) == outcome::threw);
        std::istream is4(nullptr);
        CHECK(try_load<F>(is4) == outcome::threw);
    }

    /* 2. every proper prefix is rejected */
    for (std::size_t n = 0; n < bytes.size(); ++n) {
        const std::string prefix = bytes.substr(0, n);
        CHECK(try_load_seekable<F>(prefix) == outcome::threw);
        if (n % 3 == 0 || n + 24 > bytes.size()) {
            CHECK(try_load_trickle<F>(prefix) == outcome::threw);
        }
    }

    /* 3. every altered tag / width word is rejected */
    const std::vector<std::size_t> tags = tag_offsets(bytes);
    CHECK(tags.size() >= 4);
    for (std::size_t off : tags) {
        const uint32_t orig = word_at(bytes, off);
        const uint32_t repl[] = {
            0u,
            0xFFFFFFFFu,
            orig ^ 1u,
            orig ^ 0x80000000u,
            orig + 0x20000000u,
            orig - 0x20000000u,
            orig ^ 0x00010000u,
            0xC04F1EABu,
            0xC04F1E70u,
            0xAB010000u,
            0xCB010000u,
            4u,
            8u,
            12u,
            0x3F800000u};
        for (uint32_t r : repl) {
            if (r == orig) {
                continue;
            }
            /*
             * 4 <-> 8 in the width word changes the payload length, which is
             * caught by what follows; unless the array is empty, in which
             * case both widths describe the very same (valid) dump.
             */
            if ((orig == 4u || orig == 8u) && (r == 4u || r == 8u)) {
                uint64_t count = 0;
                std::memcpy(&count, bytes.data() + off + 4, 8);
                if (count == 0) {
                    continue;
                }
            }
            std::string bad = bytes;
            put_word(bad, off, r);
            CHECK(try_load_seekable<F>(bad) == outcome::threw);
            CHECK(try_load_trickle<F>(bad) == outcome::threw);
        }
    }

    /* 4. streams which start failing at the n-th transfer */
    {
        const std::size_t pieces[] = {1, 3, 7, 4096};
        for (std::size_t piece : pieces) {
            failing_buf probe(bytes, -1, false, piece);
            {
                std::istream is(&probe);
                CHECK(try_load<F>(is) == outcome::loaded);
            }
            const long total = probe.calls();
            CHECK(total > 0);
            long step = 1;
            if (!exhaustive_failing_streams && total > 400) {
                step = total / 200;
            }
            for (long n = 0; n < total; n += step) {
                for (int thr = 0; thr < 2; ++thr) {
                    failing_buf fb(bytes, n, thr == 1, piece);
                    std::istream is(&fb);
                    CHECK(try_load<F>(is) == outcome::threw);
                }
            }
            /* with exceptions enabled on the stream it must still be an
             * exception, whichever type */
            for (long n = 0; n < total; n += (step * 5 + 1)) {
                failing_buf fb(bytes, n, true, piece);
                std::istream is(&fb);
                is.exceptions(std::ios::badbit | std::ios::failbit | std::ios::eofbit);
                bool threw = false;
                try {
                    F g(is);
                } catch (...) {
                    threw = true;
                }
                CHECK(threw);
            }
        }
    }

    /* 5. copies, moves, assignments of loaded fields */
    {
        std::istringstream is(bytes, std::ios::binary);
        F a(is);
        F b(a);
        CHECK(dump_str(b) == bytes);
        F c(std::move(b));
        CHECK(dump_str(c) == bytes);
        F d;
        d = c;
        CHECK(dump_str(d) == bytes);
        F e;
        e = std::move(d);
        CHECK(dump_str(e) == bytes);
        F & er = e;
        e = er;
        CHECK(dump_str(e) == bytes);
        a = e;
        CHECK(dump_str(a) == bytes);
        /* moved-from objects can be assigned to again */
        b = a;
        CHECK(dump_str(b) == bytes);
        d = std::move(a);
        CHECK(dump_str(d) == bytes);
    }
}

/* Load a dump of A as B: must throw. */
template <typename B>
void expect_incompatible(const std::string & bytes)
{
    CHECK(try_load_seekable<B>(bytes) == outcome::threw);
    CHECK(try_load_trickle<B>(bytes) == outcome::threw);
}

/* ------------------------------------------------------------------------ */
/* Field types                                                              */
/* ------------------------------------------------------------------------ */

template <typename In, typename Out>
using strided_t = cb::strided<In, cb::array<Out>>;

using s1f1 = strided_t<cv::size1, cv::float1>;
using s1d2 = strided_t<cv::size1, cv::double2>;
using s2f1 = strided_t<cv::size2, cv::float1>;
using s2f2 = strided_t<cv::size2, cv::float2>;
using s2d3 = strided_t<cv::size2, cv::double3>;
using s3f3 = strided_t<cv::size3, cv::float3>;
using s3d3 = strided_t<cv::size3, cv::double3>;
using s3f1 = strided_t<cv::size3, cv::float1>;
using s3d1 = strided_t<cv::size3, cv::double1>;

using m2f2 = cb::morton<cv::size2, cb::array<cv::float2>, false>;
using m3f3 = cb::morton<cv::size3, cb::array<cv::float3>, false>;
using h2f2 = cb::hilbert<cv::size2, cb::array<cv::float2>>;

using aff_lin = cb::affine<cb::linear<s3f3>>;
using aff_nn = cb::affine<cb::nearest_neighbour<s3f3>>;
using aff_nn_d = cb::affine<cb::nearest_neighbour<s3d3>>;
using clamp_s2 = cb::clamp<s2f2>;
using backup_s2 = cb::backup<s2f2>;
using const_33 = cb::constant<cv::float3, cv::float3>;
using const_21d = cb::constant<cv::double2, cv::double1>;

/* Fill the array at the bottom of a strided field with small numbers. */
template <typename Arr>
void fill_array(const Arr & arr, float seed)
{
    using vec_t = std::remove_reference_t<decltype(arr.m_ptr[0])>;
    for (std::size_t i = 0; i < arr.m_size; ++i) {
        for (std::size_t j = 0; j < vec_t::dimensions; ++j) {
            arr.m_ptr[i][j] = static_cast<typename vec_t::scalar_t>(
                seed + 0.25f * static_cast<float>(i % 97) + 0.5f * static_cast<float>(j)
            );
        }
    }
}

template <typename B, typename... Ns>
covfie::field<B> make_strided(float seed, Ns... ns)
{
    covfie::field<B> f(covfie::make_parameter_pack(
        typename B::configuration_t{static_cast<std::size_t>(ns)...}
    ));
    fill_array(f.backend().get_backend(), seed);
    return f;
}

/* ------------------------------------------------------------------------ */

static void run_all(bool exhaustive)
{
    /* plain strided/array fields, many shapes, including empty and 1-wide */
    {
        const std::size_t shapes1[] = {0, 1, 2, 5, 17, 700, 5000};
        for (std::size_t a : shapes1) {
            auto f = make_strided<s1f1>(1.f, a);
            battery(f, exhaustive && a < 100);
            auto g = make_strided<s1d2>(2.f, a);
            battery(g, exhaustive && a < 100);
        }
        const std::size_t shapes2[][2] = {
            {0, 0}, {0, 3}, {3, 0}, {1, 1}, {1, 7}, {7, 1}, {2, 3}, {5, 4}, {31, 33}};
        for (auto & s : shapes2) {
            battery(make_strided<s2f1>(1.f, s[0], s[1]), exhaustive);
            battery(make_strided<s2f2>(3.f, s[0], s[1]), exhaustive);
            battery(make_strided<s2d3>(4.f, s[0], s[1]), exhaustive && s[0] < 10);
        }
        const std::size_t shapes3[][3] = {
            {0, 0, 0}, {1, 1, 1}, {2, 2, 2}, {1, 2, 3}, {3, 1, 2}, {4, 0, 4}, {3, 4, 5}, {9, 10, 11}};
        for (auto & s : shapes3) {
            battery(make_strided<s3f3>(5.f, s[0], s[1], s[2]), exhaustive && s[0] < 9);
            battery(make_strided<s3d3>(6.f, s[0], s[1], s[2]), exhaustive && s[0] < 9);
            battery(make_strided<s3f1>(7.f, s[0], s[1], s[2]), exhaustive && s[0] < 9);
        }
    }

    /* default constructed (empty) fields round-trip, too */
    {
        covfie::field<s2f2> e{};
        battery(e, true);
        covfie::field<const_33> ce{};
        (void)ce;
    }

    /* storage larger than the extents need: legal, and must stay loadable */
    {
        covfie::field<s3f3> f(covfie::make_parameter_pack_for<covfie::field<s3f3>>(
            {2u, 2u, 2u}, {8u}
        ));
        fill_array(f.backend().get_backend(), 1.f);
        battery(f, true);
        covfie::field<s3f3> g(covfie::make_parameter_pack_for<covfie::field<s3f3>>(
            {2u, 2u, 2u}, {11u}
        ));
        fill_array(g.backend().get_backend(), 1.f);
        battery(g, true);
    }

    /* float <-> double: a dump of one width loads into the other */
    {
        auto f = make_strided<s3f3>(1.f, 3u, 2u, 4u);
        auto d = make_strided<s3d3>(1.f, 3u, 2u, 4u);
        const std::string fb = dump_str(f), db = dump_str(d);
        std::string again;
        CHECK(try_load_seekable<covfie::field<s3d3>>(fb, &again) == outcome::loaded);
        CHECK(again == db);
        again.clear();
        CHECK(try_load_trickle<covfie::field<s3f3>>(db, &again) == outcome::loaded);
        CHECK(again == fb);
        /* and every truncation of the cross-width load is rejected as well */
        for (std::size_t n = 0; n < fb.size(); ++n) {
            CHECK(try_load_seekable<covfie::field<s3d3>>(fb.substr(0, n)) == outcome::threw);
        }
        for (std::size_t n = 0; n < db.size(); ++n) {
            CHECK(try_load_seekable<covfie::field<s3f3>>(db.substr(0, n)) == outcome::threw);
        }
    }

    /* morton / hilbert orderings on top of array */
    {
        auto base2 = make_strided<s2f2>(1.f, 4u, 4u);
        covfie::field<m2f2> m2(base2);
        battery(m2, exhaustive);
        covfie::field<h2f2> h2(base2);
        battery(h2, exhaustive);
        auto base2b = make_strided<s2f2>(2.f, 3u, 5u);
        covfie::field<m2f2> m2b(base2b);
        battery(m2b, exhaustive);
        auto base3 = make_strided<s3f3>(1.f, 2u, 3u, 4u);
        covfie::field<m3f3> m3(base3);
        battery(m3, exhaustive);
    }

    /* interpolating / transforming stacks */
    {
        auto base = make_strided<s3f3>(1.f, 3u, 4u, 2u);
        covfie::algebra::affine<3> tr =
            covfie::algebra::affine<3>::translation(1.0f, -2.0f, 0.5f);

        covfie::field<aff_lin> al(covfie::make_parameter_pack(
            aff_lin::configuration_t(tr),
            aff_lin::backend_t::configuration_t{},
            base.backend()
        ));
        battery(al, exhaustive);

        covfie::field<aff_nn> an(covfie::make_parameter_pack(
            aff_nn::configuration_t(tr),
            aff_nn::backend_t::configuration_t{},
            base.backend()
        ));
        battery(an, exhaustive);

        auto based = make_strided<s3d3>(1.f, 2u, 2u, 3u);
        covfie::field<aff_nn_d> and_(covfie::make_parameter_pack(
            aff_nn_d::configuration_t(tr),
            aff_nn_d::backend_t::configuration_t{},
            based.backend()
        ));
        battery(and_, exhaustive);

        auto base2 = make_strided<s2f2>(1.f, 5u, 3u);
        covfie::field<clamp_s2> cl(covfie::make_parameter_pack(
            clamp_s2::configuration_t{{0ul, 0ul}, {4ul, 2ul}}, base2.backend()
        ));
        battery(cl, exhaustive);

        covfie::field<backup_s2> bk(covfie::make_parameter_pack(
            backup_s2::configuration_t{{0ul, 0ul}, {5ul, 3ul}, {-1.f, -2.f}},
            base2.backend()
        ));
        battery(bk, exhaustive);

        covfie::field<const_33> c33(covfie::make_parameter_pack(
            const_33::configuration_t{1.f, 2.f, 3.f}
        ));
        battery(c33, true);
        covfie::field<const_21d> c21(covfie::make_parameter_pack(
            const_21d::configuration_t{2.5}
        ));
        battery(c21, true);

        /* every ordered pair of distinct stacks is incompatible */
        const std::string d_base = dump_str(base);
        const std::string d_base2 = dump_str(base2);
        const std::string d_al = dump_str(al);
        const std::string d_an = dump_str(an);
        const std::string d_cl = dump_str(cl);
        const std::string d_bk = dump_str(bk);
        const std::string d_c33 = dump_str(c33);
        covfie::field<m2f2> mo(base2);
        covfie::field<h2f2> hi(base2);
        const std::string d_mo = dump_str(mo);
        const std::string d_hi = dump_str(hi);
        auto s1 = make_strided<s1f1>(1.f, 24u);
        const std::string d_s1 = dump_str(s1);
        auto s3f1_ = make_strided<s3f1>(1.f, 3u, 4u, 2u);
        const std::string d_s3f1 = dump_str(s3f1_);

#define INCOMPAT(bytes, self_t)                                                \
    do {                                                                       \
        if (!std::is_same_v<self_t, s3f3>)                                     \
            expect_incompatible<covfie::field<s3f3>>(bytes);                   \
        if (!std::is_same_v<self_t, s2f2>)                                     \
            expect_incompatible<covfie::field<s2f2>>(bytes);                   \
        if (!std::is_same_v<self_t, s1f1>)                                     \
            expect_incompatible<covfie::field<s1f1>>(bytes);                   \
        if (!std::is_same_v<self_t, s3f1>)                                     \
            expect_incompatible<covfie::field<s3f1>>(bytes);                   \
        /* linear and nearest_neighbour leave no trace in a dump, so        \
         * these two stacks are compatible with each other by design */        \
        if (!std::is_same_v<self_t, aff_lin> && !std::is_same_v<self_t, aff_nn>) { \
            expect_incompatible<covfie::field<aff_lin>>(bytes);                \
            expect_incompatible<covfie::field<aff_nn>>(bytes);                 \
        }                                                                      \
        if (!std::is_same_v<self_t, clamp_s2>)                                 \
            expect_incompatible<covfie::field<clamp_s2>>(bytes);               \
        if (!std::is_same_v<self_t, backup_s2>)                                \
            expect_incompatible<covfie::field<backup_s2>>(bytes);              \
        if (!std::is_same_v<self_t, const_33>)                                 \
            expect_incompatible<covfie::field<const_33>>(bytes);               \
        if (!std::is_same_v<self_t, m2f2>)                                     \
            expect_incompatible<covfie::field<m2f2>>(bytes);                   \
        if (!std::is_same_v<self_t, h2f2>)                                     \
            expect_incompatible<covfie::field<h2f2>>(bytes);                   \
    } while (0)

        INCOMPAT(d_base, s3f3);
        INCOMPAT(d_base2, s2f2);
        INCOMPAT(d_s1, s1f1);
        INCOMPAT(d_s3f1, s3f1);
        INCOMPAT(d_al, aff_lin);
        INCOMPAT(d_an, aff_nn);
        INCOMPAT(d_cl, clamp_s2);
        INCOMPAT(d_bk, backup_s2);
        INCOMPAT(d_c33, const_33);
        INCOMPAT(d_mo, m2f2);
        INCOMPAT(d_hi, h2f2);
#undef INCOMPAT
    }

    /* garbage */
    {
        CHECK(try_load_seekable<covfie::field<s3f3>>(std::string()) == outcome::threw);
        CHECK(try_load_seekable<covfie::field<s3f3>>(std::string(4096, '\0')) == outcome::threw);
        CHECK(try_load_seekable<covfie::field<s3f3>>(std::string(4096, '\xff')) == outcome::threw);
        CHECK(try_load_trickle<covfie::field<const_33>>(std::string(7, 'a')) == outcome::threw);
    }
}

int main()
{
    run_all(true);

    /* the readers keep no shared state: concurrent loads from private streams */
    {
        auto f = make_strided<s3f3>(1.f, 6u, 5u, 4u);
        const std::string bytes = dump_str(f);
        std::vector<std::thread> ts;
        for (int t = 0; t < 4; ++t) {
            ts.emplace_back([&bytes, t]() {
                for (int k = 0; k < 20; ++k) {
                    std::string again;
                    CHECK(try_load_seekable<covfie::field<s3f3>>(bytes, &again) == outcome::loaded);
                    CHECK(again == bytes);
                    const std::size_t cut =
                        (static_cast<std::size_t>(t) * 131u + static_cast<std::size_t>(k) * 17u) % bytes.size();
                    CHECK(try_load_trickle<covfie::field<s3f3>>(bytes.substr(0, cut)) == outcome::threw);
                    CHECK(try_load_seekable<covfie::field<s3d3>>(bytes.substr(0, cut)) == outcome::threw);
                }
            });
        }
        for (auto & t : ts) {
            t.join();
        }
    }

    if (g_failures.load() != 0) {
        std::printf("FAIL (%ld of %ld checks)\n", g_failures.load(), g_checks.load());
        return 1;
    }

    std::printf("PASS (%ld checks)\n", g_checks.load());
    return 0;
}
