/*
 * Demo / regression driver for the reworked deserialisation path.
 *
 * Compile (from the root of the checkout; header-only, no other deps):
 *
 *   g++ -std=c++20 -O1 -g -Wall -Wextra -pthread -I lib/core \
 *       seeded/demo.cpp -o /tmp/demo_L08b && /tmp/demo_L08b
 *
 * Also run as:
 *   ... -DNDEBUG ...
 *   ... -fsanitize=address,undefined -fno-sanitize-recover=all ...
 *   ... -fsanitize=thread ...
 *   valgrind --error-exitcode=9 --leak-check=full /tmp/demo_L08b quick
 *
 * The argument "quick" skips the multi-megabyte case (useful for valgrind).
 *
 * The program only uses the public interface that exists both before and
 * after the change, and prints PASS / exits 0 in both worlds.
 */

#include <algorithm>
#include <atomic>
#include <cstdint>
#include <cstdio>
#include <cstdlib>
#include <cstring>
#include <fstream>
#include <functional>
#include <iostream>
#include <sstream>
#include <stdexcept>
#include <string>
#include <thread>
#include <vector>

#include <unistd.h>

#include <covfie/core/algebra/affine.hpp>
#include <covfie/core/backend/primitive/array.hpp>
#include <covfie/core/backend/primitive/constant.hpp>
#include <covfie/core/backend/transformer/affine.hpp>
#include <covfie/core/backend/transformer/clamp.hpp>
#include <covfie/core/backend/transformer/linear.hpp>
#include <covfie/core/backend/transformer/morton.hpp>
#include <covfie/core/backend/transformer/nearest_neighbour.hpp>
#include <covfie/core/backend/transformer/strided.hpp>
#include <covfie/core/field.hpp>
#include <covfie/core/parameter_pack.hpp>

namespace {
/* ------------------------------------------------------------------ */
/* bookkeeping                                                         */
/* ------------------------------------------------------------------ */
std::atomic<unsigned long> g_checks{0};
std::atomic<unsigned long> g_failures{0};

void fail(const std::string & msg)
{
    if (g_failures++ < 25) {
        std::fprintf(stderr, "FAIL: %s\n", msg.c_str());
    }
}

#define CHECK(cond, msg)                                                       \
    do {                                                                       \
        ++g_checks;                                                            \
        if (!(cond)) {                                                         \
            fail(std::string(msg) + " [" #cond "] line " +                    \
                 std::to_string(__LINE__));                                    \
        }                                                                      \
    } while (0)

/* ------------------------------------------------------------------ */
/* a non-seekable stream buffer which delivers `chunk` bytes per        */
/* underflow and can be told to misbehave at the n-th underflow         */
/* ------------------------------------------------------------------ */
class chunkbuf : public std::streambuf
{
public:
    enum class mode {
        none,
        eof,
        throw_runtime,
        throw_ios
    };

    chunkbuf(
        const std::string & data,
        std::size_t chunk,
        mode m = mode::none,
        long fail_at = -1
    )
        : m_data(data)
        , m_pos(0)
        , m_chunk(std::max<std::size_t>(1, std::min<std::size_t>(chunk, 4096)))
        , m_mode(m)
        , m_fail_at(fail_at)
        , m_calls(0)
    {
        setg(m_buf, m_buf, m_buf);
    }

    long calls() const
    {
        return m_calls;
    }

protected:
    int_type underflow() override
    {
        if (gptr() < egptr()) {
            return traits_type::to_int_type(*gptr());
        }

        const long call = m_calls++;

        if (m_mode != mode::none && call >= m_fail_at) {
            switch (m_mode) {
                case mode::eof:
                    return traits_type::eof();
                case mode::throw_runtime:
                    throw std::runtime_error("chunkbuf: induced failure");
                case mode::throw_ios:
                    throw std::ios_base::failure("chunkbuf: induced failure");
                default:
                    break;
            }
        }

        if (m_pos >= m_data.size()) {
            return traits_type::eof();
        }

        const std::size_t n = std::min(m_chunk, m_data.size() - m_pos);
        std::memcpy(m_buf, m_data.data() + m_pos, n);
        m_pos += n;
        setg(m_buf, m_buf, m_buf + n);

        return traits_type::to_int_type(*gptr());
    }

private:
    std::string m_data;
    std::size_t m_pos;
    std::size_t m_chunk;
    mode m_mode;
    long m_fail_at;
    long m_calls;
    char m_buf[4096];
};

const std::ios::iostate all_masks[] = {
    std::ios::goodbit,
    std::ios::failbit,
    std::ios::eofbit,
    std::ios::badbit,
    std::ios::failbit | std::ios::badbit,
    std::ios::eofbit | std::ios::failbit | std::ios::badbit};

/* ------------------------------------------------------------------ */
/* generic helpers                                                     */
/* ------------------------------------------------------------------ */
template <typename F>
std::string dump_to_string(const F & f)
{
    std::ostringstream os(std::ios::binary);
    f.dump(os);
    CHECK(os.good(), "dump leaves the stream in a good state");
    return os.str();
}

enum class outcome {
    loaded,
    threw
};

/*
 * Try to load a field of type F from the stream; never lets anything escape.
 * On success the field is re-dumped into `redump`.
 */
template <typename F>
outcome try_load(std::istream & is, std::string * redump = nullptr)
{
    try {
        F f(is);
        if (redump != nullptr) {
            *redump = dump_to_string(f);
        }
        return outcome::loaded;
    } catch (const std::exception &) {
        return outcome::threw;
    } catch (...) {
        ++g_checks;
        fail("something which is not a std::exception was thrown");
        return outcome::threw;
    }
}

/*
 * A damaged input must end in an exception: on a seekable stream, on
 * non-seekable streams with various chunk sizes, and under every mask. The
 * mask must be what it was afterwards.
 */
template <typename F>
void expect_rejected(const std::string & bytes, const std::string & what)
{
    for (std::ios::iostate mask : all_masks) {
        {
            std::istringstream is(bytes, std::ios::binary);
            is.exceptions(mask);
            CHECK(try_load<F>(is) == outcome::threw, what + " (seekable)");
            CHECK(is.exceptions() == mask, what + " mask kept (seekable)");
        }

        for (std::size_t chunk : {std::size_t(1), std::size_t(7), std::size_t(4096)})
        {
            chunkbuf cb(bytes, chunk);
            std::istream is(&cb);
            is.exceptions(mask);
            CHECK(try_load<F>(is) == outcome::threw, what + " (chunked)");
            CHECK(is.exceptions() == mask, what + " mask kept (chunked)");
        }
    }
}

/*
 * A sound input must load, reproduce itself byte for byte, leave the stream
 * positioned right behind the dump, and leave state and mask alone.
 */
template <typename F>
void expect_accepted(
    const std::string & bytes,
    const std::string & expected_redump,
    const std::string & what
)
{
    const std::string trailer = "XYZ!";

    for (std::ios::iostate mask : all_masks) {
        {
            std::istringstream is(bytes + trailer, std::ios::binary);
            is.exceptions(mask);
            std::string re;
            CHECK(try_load<F>(is, &re) == outcome::loaded, what + " loads");
            CHECK(re == expected_redump, what + " reproduces itself");
            CHECK(is.good(), what + " stream good");
            CHECK(is.exceptions() == mask, what + " mask kept");
            CHECK(
                static_cast<std::size_t>(is.tellg()) == bytes.size(),
                what + " position"
            );
            char t[4] = {0, 0, 0, 0};
            is.read(t, 4);
            CHECK(std::string(t, 4) == trailer, what + " trailer intact");
        }

        for (std::size_t chunk : {std::size_t(1), std::size_t(5), std::size_t(4096)})
        {
            chunkbuf cb(bytes + trailer, chunk);
            std::istream is(&cb);
            is.exceptions(mask);
            std::string re;
            CHECK(try_load<F>(is, &re) == outcome::loaded, what + " loads/c");
            CHECK(re == expected_redump, what + " reproduces itself/c");
            CHECK(is.good(), what + " stream good/c");
            CHECK(is.exceptions() == mask, what + " mask kept/c");
            char t[4] = {0, 0, 0, 0};
            is.read(t, 4);
            CHECK(std::string(t, 4) == trailer, what + " trailer intact/c");
        }

        {
            /* exactly the dump and nothing else */
            std::istringstream is(bytes, std::ios::binary);
            is.exceptions(mask);
            std::string re;
            CHECK(try_load<F>(is, &re) == outcome::loaded, what + " loads/x");
            CHECK(re == expected_redump, what + " reproduces itself/x");
            CHECK(is.exceptions() == mask, what + " mask kept/x");
        }
    }
}

uint32_t word_at(const std::string & s, std::size_t off)
{
    uint32_t w;
    std::memcpy(&w, s.data() + off, 4);
    return w;
}

std::string with_word(std::string s, std::size_t off, uint32_t w)
{
    std::memcpy(s.data() + off, &w, 4);
    return s;
}

constexpr uint32_t MAGIC_HEADER = 0xC04F1EAB;
constexpr uint32_t MAGIC_FOOTER = 0xC04F1E70;
constexpr uint32_t ARRAY_TAG = 0xAB010000;

uint32_t bswap(uint32_t w)
{
    return (w >> 24) | ((w >> 8) & 0xFF00u) | ((w << 8) & 0xFF0000u) |
           (w << 24);
}

/*
 * Every truncation point.
 */
template <typename F>
void all_truncations(const std::string & bytes, const std::string & what)
{
    for (std::size_t n = 0; n < bytes.size(); ++n) {
        expect_rejected<F>(
            bytes.substr(0, n), what + " truncated at " + std::to_string(n)
        );
    }
}

/*
 * Streams which start to fail at the n-th refill, by pretending to be at the
 * end or by throwing.
 */
template <typename F>
void all_failing_reads(const std::string & bytes, const std::string & what)
{
    for (std::size_t chunk : {std::size_t(3), std::size_t(16)}) {
        long total;
        {
            chunkbuf cb(bytes, chunk);
            std::istream is(&cb);
            CHECK(try_load<F>(is) == outcome::loaded, what + " calibration");
            total = cb.calls();
        }

        for (chunkbuf::mode m :
             {chunkbuf::mode::eof,
              chunkbuf::mode::throw_runtime,
              chunkbuf::mode::throw_ios})
        {
            for (long n = 0; n < total; ++n) {
                for (std::ios::iostate mask : all_masks) {
                    chunkbuf cb(bytes, chunk, m, n);
                    std::istream is(&cb);
                    is.exceptions(mask);
                    CHECK(
                        try_load<F>(is) == outcome::threw,
                        what + " failing at refill " + std::to_string(n)
                    );
                    CHECK(is.exceptions() == mask, what + " mask kept/f");
                }
            }
        }
    }
}

/*
 * Every header / footer / tag / width word, with a sample of replacements.
 * `elements` is the number of elements in the array at the bottom (needed to
 * know whether swapping the two legal float widths yields a damaged stream).
 */
template <typename F>
void all_tag_damage(
    const std::string & bytes, std::size_t elements, const std::string & what
)
{
    CHECK(bytes.size() % 4 == 0, "dump is a whole number of words");

    for (std::size_t off = 0; off + 8 <= bytes.size(); off += 4) {
        const uint32_t w = word_at(bytes, off);

        if (w != MAGIC_HEADER && w != MAGIC_FOOTER) {
            continue;
        }

        const uint32_t tag = word_at(bytes, off + 4);

        const uint32_t magic_repl[] = {
            w ^ 1u,
            w ^ 0x80000000u,
            0u,
            0xFFFFFFFFu,
            w == MAGIC_HEADER ? MAGIC_FOOTER : MAGIC_HEADER,
            bswap(w),
            tag};

        for (uint32_t r : magic_repl) {
            if (r != w) {
                expect_rejected<F>(
                    with_word(bytes, off, r),
                    what + " magic word at " + std::to_string(off)
                );
            }
        }

        const uint32_t tag_repl[] = {
            tag ^ 1u,
            tag ^ 0x80000000u,
            tag ^ 0x00010000u,
            0u,
            0xFFFFFFFFu,
            tag + 0x20000000u,
            tag - 0x20000000u,
            bswap(tag),
            MAGIC_HEADER,
            MAGIC_FOOTER,
            ARRAY_TAG + 1};

        for (uint32_t r : tag_repl) {
            if (r != tag) {
                expect_rejected<F>(
                    with_word(bytes, off + 4, r),
                    what + " tag word at " + std::to_string(off + 4)
                );
            }
        }

        if (w == MAGIC_HEADER && tag == ARRAY_TAG) {
            const std::size_t woff = off + 8;
            const uint32_t width = word_at(bytes, woff);

            CHECK(width == 4 || width == 8, "width word found");

            const uint32_t width_repl[] = {
                0u,
                1u,
                2u,
                3u,
                5u,
                6u,
                7u,
                9u,
                16u,
                0x04000000u,
                0x08000000u,
                0x00000104u,
                0xFFFFFFFFu};

            for (uint32_t r : width_repl) {
                expect_rejected<F>(
                    with_word(bytes, woff, r),
                    what + " width word " + std::to_string(r)
                );
            }

            if (elements > 0) {
                expect_rejected<F>(
                    with_word(bytes, woff, width == 4 ? 8u : 4u),
                    what + " width word swapped"
                );
            }
        }
    }
}

/*
 * Copies, moves and assignments must carry the content along, and a field
 * which has been moved from must be assignable and destructible.
 */
template <typename F>
void value_semantics(const F & f, const F & other, const std::string & what)
{
    const std::string ref = dump_to_string(f);
    const std::string oref = dump_to_string(other);

    F c(f);
    CHECK(dump_to_string(c) == ref, what + " copy");

    F m(std::move(c));
    CHECK(dump_to_string(m) == ref, what + " move");

    c = other; /* assign into moved-from */
    CHECK(dump_to_string(c) == oref, what + " assign into moved-from");

    c = m;
    CHECK(dump_to_string(c) == ref, what + " copy assign");

    F & alias = c;
    c = alias;
    CHECK(dump_to_string(c) == ref, what + " self copy assign");

    F o2(other);
    c = std::move(o2);
    CHECK(dump_to_string(c) == oref, what + " move assign");

    o2 = f; /* revive */
    CHECK(dump_to_string(o2) == ref, what + " revive moved-from");

    F * p = &o2;
    o2 = std::move(*p);
    CHECK(dump_to_string(o2) == ref, what + " self move assign");

    /* load, then overwrite a loaded field and vice versa */
    std::istringstream is(ref, std::ios::binary);
    F l(is);
    CHECK(dump_to_string(l) == ref, what + " loaded");
    l = other;
    CHECK(dump_to_string(l) == oref, what + " loaded, overwritten");
    std::istringstream is2(ref, std::ios::binary);
    l = F(is2);
    CHECK(dump_to_string(l) == ref, what + " overwritten by loaded");
}

template <typename F>
void full_treatment(
    const F & f, const F & other, std::size_t elements, const std::string & what
)
{
    const std::string bytes = dump_to_string(f);

    expect_accepted<F>(bytes, bytes, what);
    all_truncations<F>(bytes, what);
    all_failing_reads<F>(bytes, what);
    all_tag_damage<F>(bytes, elements, what);
    value_semantics<F>(f, other, what);
}

/* ------------------------------------------------------------------ */
/* the field types                                                     */
/* ------------------------------------------------------------------ */
namespace cb = covfie::backend;
namespace cv = covfie::vector;

template <typename V>
using arr_f = covfie::field<cb::array<V>>;

template <typename V>
using s1_b = cb::strided<cv::size1, cb::array<V>>;
template <typename V>
using s2_b = cb::strided<cv::size2, cb::array<V>>;
template <typename V>
using s3_b = cb::strided<cv::size3, cb::array<V>>;

template <typename V>
using s1_f = covfie::field<s1_b<V>>;
template <typename V>
using s2_f = covfie::field<s2_b<V>>;
template <typename V>
using s3_f = covfie::field<s3_b<V>>;

using double1 = cv::vector_d<double, 1>;
using double2 = cv::vector_d<double, 2>;
using double3 = cv::vector_d<double, 3>;

template <typename V>
typename V::type sample(std::size_t i, std::size_t j)
{
    /* exactly representable in single precision, never a magic word */
    return static_cast<typename V::type>(
        0.25 * static_cast<double>((i * 7 + j * 3) % 1021) -
        17.0 * static_cast<double>(j)
    );
}

template <typename V>
arr_f<V> make_array(std::size_t n, std::size_t salt = 0)
{
    using F = arr_f<V>;
    F f(covfie::make_parameter_pack(typename F::backend_t::configuration_t{n}));
    typename F::view_t v(f);
    for (std::size_t i = 0; i < n; ++i) {
        for (std::size_t j = 0; j < V::size; ++j) {
            v.at(i)[j] = sample<V>(i + salt, j);
        }
    }
    return f;
}

template <typename V>
s1_f<V> make_s1(std::size_t a, std::size_t salt = 0)
{
    using F = s1_f<V>;
    F f(covfie::make_parameter_pack(typename F::backend_t::configuration_t{a}));
    typename F::view_t v(f);
    for (std::size_t x = 0; x < a; ++x) {
        for (std::size_t j = 0; j < V::size; ++j) {
            v.at(x)[j] = sample<V>(x + salt, j);
        }
    }
    return f;
}

template <typename V>
s2_f<V> make_s2(std::size_t a, std::size_t b, std::size_t salt = 0)
{
    using F = s2_f<V>;
    F f(covfie::make_parameter_pack(typename F::backend_t::configuration_t{a, b}
    ));
    typename F::view_t v(f);
    for (std::size_t x = 0; x < a; ++x) {
        for (std::size_t y = 0; y < b; ++y) {
            for (std::size_t j = 0; j < V::size; ++j) {
                v.at(x, y)[j] = sample<V>(x * b + y + salt, j);
            }
        }
    }
    return f;
}

template <typename V>
s3_f<V>
make_s3(std::size_t a, std::size_t b, std::size_t c, std::size_t salt = 0)
{
    using F = s3_f<V>;
    F f(covfie::make_parameter_pack(typename F::backend_t::configuration_t{
        a, b, c}));
    typename F::view_t v(f);
    for (std::size_t x = 0; x < a; ++x) {
        for (std::size_t y = 0; y < b; ++y) {
            for (std::size_t z = 0; z < c; ++z) {
                for (std::size_t j = 0; j < V::size; ++j) {
                    v.at(x, y, z)[j] = sample<V>((x * b + y) * c + z + salt, j);
                }
            }
        }
    }
    return f;
}

using aff_lin_b = cb::affine<cb::linear<s3_b<cv::float3>>>;
using aff_nn_b = cb::affine<cb::nearest_neighbour<s3_b<cv::float3>>>;
using aff_lin_f = covfie::field<aff_lin_b>;
using aff_nn_f = covfie::field<aff_nn_b>;
using aff_lin_d_f =
    covfie::field<cb::affine<cb::linear<s3_b<double3>>>>;

template <typename F, typename S>
F make_affine(const S & base, float tx, float ty, float tz)
{
    covfie::algebra::affine<3> tr =
        covfie::algebra::affine<3>::translation(tx, ty, tz);
    return F(covfie::make_parameter_pack(
        typename F::backend_t::configuration_t(tr),
        typename F::backend_t::backend_t::configuration_t{},
        base.backend()
    ));
}

using clamp_b = cb::clamp<s3_b<cv::float3>>;
using clamp_f = covfie::field<clamp_b>;

clamp_f make_clamp(const s3_f<cv::float3> & base, std::size_t hi)
{
    return clamp_f(covfie::make_parameter_pack(
        clamp_b::configuration_t{{0ul, 0ul, 0ul}, {hi, hi, hi}}, base.backend()
    ));
}

using const_f = covfie::field<cb::constant<cv::float3, cv::float3>>;
using const_d_f = covfie::field<cb::constant<cv::float2, double2>>;

using morton_b = cb::morton<cv::size2, cb::array<cv::float2>>;
using morton_f = covfie::field<morton_b>;

morton_f make_morton(std::size_t side, std::size_t salt)
{
    morton_f f(covfie::make_parameter_pack(
        morton_b::configuration_t{side, side},
        cb::array<cv::float2>::configuration_t{side * side}
    ));
    morton_f::view_t v(f);
    for (std::size_t x = 0; x < side; ++x) {
        for (std::size_t y = 0; y < side; ++y) {
            v.at(x, y)[0] = sample<cv::float2>(x * side + y + salt, 0);
            v.at(x, y)[1] = sample<cv::float2>(x * side + y + salt, 1);
        }
    }
    return f;
}

/* ------------------------------------------------------------------ */
/* scenarios                                                           */
/* ------------------------------------------------------------------ */
void scenario_arrays()
{
    for (std::size_t n : {0u, 1u, 2u, 5u, 33u}) {
        full_treatment(
            make_array<cv::float1>(n),
            make_array<cv::float1>(n + 2, 9),
            n,
            "array<float1>/" + std::to_string(n)
        );
        full_treatment(
            make_array<double3>(n),
            make_array<double3>(3, 4),
            n,
            "array<double3>/" + std::to_string(n)
        );
    }
    full_treatment(
        make_array<cv::float3>(7),
        make_array<cv::float3>(0),
        7,
        "array<float3>/7"
    );
    full_treatment(
        make_array<double1>(4), make_array<double1>(1), 4, "array<double1>/4"
    );

    /* default constructed */
    arr_f<cv::float3> e;
    full_treatment(e, make_array<cv::float3>(2), 0, "array<float3>/default");
}

void scenario_strided()
{
    const std::size_t shapes2[][2] = {{1, 1}, {3, 4}, {0, 5}, {5, 0}, {7, 1}};

    for (const auto & s : shapes2) {
        full_treatment(
            make_s2<cv::float2>(s[0], s[1]),
            make_s2<cv::float2>(2, 2, 5),
            s[0] * s[1],
            "strided2<float2>"
        );
        full_treatment(
            make_s2<double1>(s[0], s[1]),
            make_s2<double1>(1, 3, 5),
            s[0] * s[1],
            "strided2<double1>"
        );
    }

    const std::size_t shapes3[][3] = {
        {1, 1, 1}, {2, 2, 2}, {3, 1, 4}, {0, 0, 0}, {2, 0, 3}, {1, 5, 2}};

    for (const auto & s : shapes3) {
        full_treatment(
            make_s3<cv::float3>(s[0], s[1], s[2]),
            make_s3<cv::float3>(1, 2, 1, 3),
            s[0] * s[1] * s[2],
            "strided3<float3>"
        );
        full_treatment(
            make_s3<double3>(s[0], s[1], s[2]),
            make_s3<double3>(2, 1, 1, 3),
            s[0] * s[1] * s[2],
            "strided3<double3>"
        );
    }

    for (std::size_t a : {0u, 1u, 6u}) {
        full_treatment(
            make_s1<cv::float4>(a), make_s1<cv::float4>(3, 1), a, "strided1"
        );
    }

    s3_f<cv::float3> e;
    full_treatment(e, make_s3<cv::float3>(1, 1, 2), 0, "strided3/default");
}

void scenario_stacks()
{
    auto base = make_s3<cv::float3>(2, 3, 2);
    auto base2 = make_s3<cv::float3>(1, 1, 3, 11);

    full_treatment(
        make_affine<aff_lin_f>(base, 1.f, 2.f, 3.f),
        make_affine<aff_lin_f>(base2, 0.f, 0.f, 0.f),
        12,
        "affine<linear<strided3>>"
    );
    full_treatment(
        make_affine<aff_nn_f>(base, -1.f, 0.5f, 3.f),
        make_affine<aff_nn_f>(base2, 0.f, 0.f, 0.f),
        12,
        "affine<nn<strided3>>"
    );
    full_treatment(
        make_clamp(base, 1), make_clamp(base2, 0), 12, "clamp<strided3>"
    );
    full_treatment(make_morton(4, 0), make_morton(2, 5), 16, "morton2");

    const_f c1(covfie::make_parameter_pack(const_f::backend_t::configuration_t{
        1.5f, -2.f, 8.f}));
    const_f c2(covfie::make_parameter_pack(const_f::backend_t::configuration_t{
        0.f, 0.f, 0.f}));
    full_treatment(c1, c2, 0, "constant<float3>");

    const_d_f d1(covfie::make_parameter_pack(
        const_d_f::backend_t::configuration_t{1.5, -2.}
    ));
    /* (a default constructed constant field holds an indeterminate value) */
    const_d_f d2(covfie::make_parameter_pack(
        const_d_f::backend_t::configuration_t{0., 0.25}
    ));
    full_treatment(d1, d2, 0, "constant<double2>");

    /* same bytes, different interpolation: compatible by design */
    {
        auto l = make_affine<aff_lin_f>(base, 1.f, 2.f, 3.f);
        const std::string bytes = dump_to_string(l);
        expect_accepted<aff_nn_f>(bytes, bytes, "lin dump as nn");
    }
}

/*
 * The reader converts between the two float widths.
 */
void scenario_width_conversion()
{
    const std::size_t shapes3[][3] = {{1, 1, 1}, {2, 3, 2}, {0, 2, 2}, {9, 9, 13}};

    for (const auto & s : shapes3) {
        auto f = make_s3<cv::float3>(s[0], s[1], s[2]);
        auto d = make_s3<double3>(s[0], s[1], s[2]);
        const std::string fb = dump_to_string(f);
        const std::string db = dump_to_string(d);

        /* the samples are exact in both widths */
        expect_accepted<s3_f<double3>>(fb, db, "float dump as double field");
        expect_accepted<s3_f<cv::float3>>(db, fb, "double dump as float field");

        if (fb.size() < 600) {
            all_truncations<s3_f<double3>>(fb, "float dump as double field");
            all_truncations<s3_f<cv::float3>>(db, "double dump as float field");
            all_failing_reads<s3_f<double3>>(fb, "float dump as double field");
            all_failing_reads<s3_f<cv::float3>>(
                db, "double dump as float field"
            );
            all_tag_damage<s3_f<double3>>(
                fb, s[0] * s[1] * s[2], "float dump as double field"
            );
            all_tag_damage<s3_f<cv::float3>>(
                db, s[0] * s[1] * s[2], "double dump as float field"
            );
        }
    }

    {
        auto a = make_array<cv::float2>(1500);
        auto b = make_array<double2>(1500);
        expect_accepted<arr_f<double2>>(
            dump_to_string(a), dump_to_string(b), "array float->double"
        );
        expect_accepted<arr_f<cv::float2>>(
            dump_to_string(b), dump_to_string(a), "array double->float"
        );
    }
}

/*
 * Every ordered pair of incompatible stacks.
 */
struct stack_case {
    std::string name;
    std::string bytes;
    std::function<void(const std::string &, const std::string &)> reject;
};

template <typename F>
stack_case make_case(const std::string & name, const F & f)
{
    return {
        name,
        dump_to_string(f),
        [](const std::string & b, const std::string & w) {
            expect_rejected<F>(b, w);
        }};
}

void scenario_incompatible()
{
    auto base = make_s3<cv::float3>(2, 2, 2);

    std::vector<stack_case> cases;
    cases.push_back(make_case("array<float1>", make_array<cv::float1>(5)));
    cases.push_back(make_case("array<float3>", make_array<cv::float3>(5)));
    cases.push_back(make_case("strided1<float4>", make_s1<cv::float4>(6)));
    cases.push_back(make_case("strided2<float2>", make_s2<cv::float2>(3, 4)));
    cases.push_back(make_case("strided3<float3>", base));
    cases.push_back(make_case("strided3<float2>", make_s3<cv::float2>(2, 2, 2)));
    cases.push_back(make_case("morton2<float2>", make_morton(4, 0)));
    cases.push_back(make_case(
        "affine<linear<strided3>>", make_affine<aff_lin_f>(base, 1.f, 2.f, 3.f)
    ));
    cases.push_back(make_case("clamp<strided3>", make_clamp(base, 1)));
    cases.push_back(make_case(
        "constant<float3>",
        const_f(covfie::make_parameter_pack(const_f::backend_t::configuration_t{
            1.f, 2.f, 3.f}))
    ));
    cases.push_back(make_case(
        "constant<double2>",
        const_d_f(covfie::make_parameter_pack(
            const_d_f::backend_t::configuration_t{1., 2.}
        ))
    ));

    for (const stack_case & writer : cases) {
        for (const stack_case & reader : cases) {
            if (&writer != &reader) {
                reader.reject(
                    writer.bytes, writer.name + " dump read as " + reader.name
                );
            }
        }
    }
}

/*
 * Real files, to have a seekable std::filebuf in the mix.
 */
void scenario_files()
{
    char name[] = "/tmp/covfie_demo_XXXXXX";
    const int fd = mkstemp(name);
    CHECK(fd >= 0, "temporary file");
    if (fd < 0) {
        return;
    }
    close(fd);

    auto f = make_affine<aff_lin_f>(make_s3<cv::float3>(3, 2, 4), 1.f, 0.f, 2.f);
    const std::string bytes = dump_to_string(f);

    for (std::ios::iostate mask : all_masks) {
        {
            std::ofstream os(name, std::ios::binary | std::ios::trunc);
            f.dump(os);
            os << "tail";
        }
        {
            std::ifstream is(name, std::ios::binary);
            is.exceptions(mask);
            std::string re;
            CHECK(try_load<aff_lin_f>(is, &re) == outcome::loaded, "file load");
            CHECK(re == bytes, "file content");
            CHECK(is.exceptions() == mask, "file mask");
            char t[4];
            is.read(t, 4);
            CHECK(is.good() && std::string(t, 4) == "tail", "file tail");
        }

        for (std::size_t n = 0; n < bytes.size(); n += 5) {
            {
                std::ofstream os(name, std::ios::binary | std::ios::trunc);
                os.write(bytes.data(), static_cast<std::streamsize>(n));
            }
            std::ifstream is(name, std::ios::binary);
            is.exceptions(mask);
            CHECK(
                try_load<aff_lin_f>(is) == outcome::threw, "truncated file"
            );
            CHECK(is.exceptions() == mask, "truncated file mask");
        }
    }

    {
        /* a file that cannot be opened: the stream is failed from the start */
        std::ifstream is("/nonexistent/covfie/demo", std::ios::binary);
        CHECK(try_load<aff_lin_f>(is) == outcome::threw, "unopened file");
        std::istream null_is(nullptr);
        CHECK(try_load<aff_lin_f>(null_is) == outcome::threw, "null buffer");
        std::istringstream eof_is(bytes, std::ios::binary);
        eof_is.setstate(std::ios::eofbit);
        CHECK(try_load<aff_lin_f>(eof_is) == outcome::threw, "eof stream");
    }

    std::remove(name);
}

/*
 * Several megabytes, so that block-wise reading is exercised across block
 * boundaries.
 */
void scenario_large()
{
    auto f = make_s3<cv::float3>(64, 64, 100);
    auto d = make_s3<double3>(64, 64, 100);
    const std::string fb = dump_to_string(f);
    const std::string db = dump_to_string(d);

    auto load_ok = [](auto tag, const std::string & in, const std::string & out) {
        using F = typename decltype(tag)::type;
        {
            std::istringstream is(in, std::ios::binary);
            std::string re;
            CHECK(try_load<F>(is, &re) == outcome::loaded, "large load");
            CHECK(re == out, "large content");
        }
        {
            chunkbuf cbuf(in, 4096);
            std::istream is(&cbuf);
            is.exceptions(std::ios::failbit | std::ios::badbit);
            std::string re;
            CHECK(try_load<F>(is, &re) == outcome::loaded, "large load/c");
            CHECK(re == out, "large content/c");
        }
    };

    load_ok(std::type_identity<s3_f<cv::float3>>{}, fb, fb);
    load_ok(std::type_identity<s3_f<double3>>{}, fb, db);
    load_ok(std::type_identity<s3_f<cv::float3>>{}, db, fb);
    load_ok(std::type_identity<s3_f<double3>>{}, db, db);

    std::vector<std::size_t> cuts = {
        0, 1, 47, 48, 63, 64, 65, fb.size() - 1, fb.size() - 8, fb.size() - 9,
        fb.size() - 16, fb.size() - 17, fb.size() / 2};
    for (std::size_t k = 1; k * (1u << 20) < fb.size(); ++k) {
        for (long delta : {-1l, 0l, 1l, 64l, 65l}) {
            cuts.push_back(k * (1u << 20) + static_cast<std::size_t>(delta));
        }
    }

    for (std::size_t n : cuts) {
        if (n >= fb.size()) {
            continue;
        }
        for (std::ios::iostate mask :
             {std::ios::iostate(std::ios::goodbit),
              std::ios::iostate(std::ios::failbit | std::ios::eofbit)})
        {
            const std::string cut = fb.substr(0, n);
            std::istringstream is(cut, std::ios::binary);
            is.exceptions(mask);
            CHECK(
                try_load<s3_f<cv::float3>>(is) == outcome::threw, "large cut"
            );
            std::istringstream is2(cut, std::ios::binary);
            is2.exceptions(mask);
            CHECK(try_load<s3_f<double3>>(is2) == outcome::threw, "large cut/d");
            chunkbuf cbuf(cut, 4096);
            std::istream is3(&cbuf);
            is3.exceptions(mask);
            CHECK(
                try_load<s3_f<cv::float3>>(is3) == outcome::threw, "large cut/c"
            );
            CHECK(is3.exceptions() == mask, "large cut mask");
        }
    }
}

/*
 * Independent loads on independent streams from several threads.
 */
void scenario_threads()
{
    auto f = make_affine<aff_lin_f>(make_s3<cv::float3>(4, 3, 5), 1.f, 0.f, 2.f);
    const std::string bytes = dump_to_string(f);

    std::vector<std::thread> ts;
    for (int t = 0; t < 4; ++t) {
        ts.emplace_back([&bytes, &f, t]() {
            for (int r = 0; r < 20; ++r) {
                std::istringstream is(bytes, std::ios::binary);
                std::string re;
                CHECK(
                    try_load<aff_lin_f>(is, &re) == outcome::loaded, "mt load"
                );
                CHECK(re == bytes, "mt content");

                aff_lin_f copy(f);
                CHECK(dump_to_string(copy) == bytes, "mt copy");

                const std::size_t n =
                    (static_cast<std::size_t>(t) * 131 + r * 17) % bytes.size();
                std::istringstream cut(bytes.substr(0, n), std::ios::binary);
                cut.exceptions(std::ios::failbit | std::ios::eofbit);
                CHECK(try_load<aff_lin_f>(cut) == outcome::threw, "mt cut");
            }
        });
    }
    for (std::thread & t : ts) {
        t.join();
    }
}
}

int main(int argc, char ** argv)
{
    const bool quick = argc > 1 && std::string(argv[1]) == "quick";

    try {
        scenario_arrays();
        scenario_strided();
        scenario_stacks();
        scenario_width_conversion();
        scenario_incompatible();
        scenario_files();
        if (!quick) {
            scenario_large();
        }
        scenario_threads();
    } catch (const std::exception & e) {
        std::fprintf(stderr, "FAIL: unexpected exception: %s\n", e.what());
        return 2;
    }

    if (g_failures.load() != 0) {
        std::fprintf(
            stderr,
            "FAIL: %lu of %lu checks failed\n",
            g_failures.load(),
            g_checks.load()
        );
        return 1;
    }

    std::printf("PASS (%lu checks)\n", g_checks.load());
    return 0;
}
