/*
 * Additional checks which only make sense WITH the change applied (they name
 * the new exception types and poke at the new size handling).
 *
 *   g++ -std=c++20 -O1 -g -Wall -Wextra -I lib/core \
 *       seeded/extra_new_only.cpp -o /tmp/extra_L08b && /tmp/extra_L08b
 *
 * Also run with -DNDEBUG, -fsanitize=address,undefined and under valgrind.
 */

#include <cstdint>
#include <cstdio>
#include <cstring>
#include <iostream>
#include <sstream>
#include <string>

#include <covfie/core/backend/primitive/array.hpp>
#include <covfie/core/backend/transformer/strided.hpp>
#include <covfie/core/field.hpp>
#include <covfie/core/parameter_pack.hpp>

namespace {
unsigned long g_checks = 0, g_failures = 0;

#define CHECK(cond)                                                            \
    do {                                                                       \
        ++g_checks;                                                            \
        if (!(cond)) {                                                         \
            ++g_failures;                                                      \
            std::fprintf(stderr, "FAIL line %d: %s\n", __LINE__, #cond);       \
        }                                                                      \
    } while (0)

namespace cb = covfie::backend;
namespace cv = covfie::vector;
namespace cu = covfie::utility;

using arr1_f = covfie::field<cb::array<cv::float1>>;
using s3_f = covfie::field<cb::strided<cv::size3, cb::array<cv::float3>>>;
using s3d_f =
    covfie::field<cb::strided<cv::size3, cb::array<cv::vector_d<double, 3>>>>;

/* non-seekable, delivers everything it has */
class plainbuf : public std::streambuf
{
public:
    explicit plainbuf(const std::string & d)
        : m_data(d)
    {
        setg(m_data.data(), m_data.data(), m_data.data() + m_data.size());
    }

private:
    std::string m_data;
};

/* seeks to the end fine, refuses (or throws) on the way back */
class hostilebuf : public std::stringbuf
{
public:
    hostilebuf(const std::string & d, bool thrower)
        : std::stringbuf(d, std::ios::in)
        , m_thrower(thrower)
    {
    }

protected:
    pos_type seekpos(pos_type, std::ios::openmode) override
    {
        if (m_thrower) {
            throw std::runtime_error("hostilebuf");
        }
        return pos_type(off_type(-1));
    }

private:
    bool m_thrower;
};

/* every seek throws */
class throwingseekbuf : public std::stringbuf
{
public:
    explicit throwingseekbuf(const std::string & d)
        : std::stringbuf(d, std::ios::in)
    {
    }

protected:
    pos_type
    seekoff(off_type, std::ios::seekdir, std::ios::openmode) override
    {
        throw 42;
    }
};

template <typename F>
std::string dump(const F & f)
{
    std::ostringstream os(std::ios::binary);
    f.dump(os);
    return os.str();
}

enum class what {
    loaded,
    truncated,
    tag,
    format,
    size,
    io,
    bad_alloc,
    other
};

template <typename F>
what classify(std::istream & is)
{
    try {
        F f(is);
        return what::loaded;
    } catch (const cu::truncated_stream_error &) {
        return what::truncated;
    } catch (const cu::tag_mismatch_error & e) {
        CHECK(e.expected() != e.actual());
        return what::tag;
    } catch (const cu::unsupported_format_error &) {
        return what::format;
    } catch (const cu::size_error &) {
        return what::size;
    } catch (const cu::io_error &) {
        return what::io;
    } catch (const std::bad_alloc &) {
        return what::bad_alloc;
    } catch (...) {
        return what::other;
    }
}

std::string with_u64(std::string s, std::size_t off, uint64_t v)
{
    std::memcpy(s.data() + off, &v, 8);
    return s;
}

std::string with_u32(std::string s, std::size_t off, uint32_t v)
{
    std::memcpy(s.data() + off, &v, 4);
    return s;
}
}

int main()
{
    static_assert(std::is_base_of_v<std::runtime_error, cu::io_error>);
    static_assert(std::is_base_of_v<cu::io_error, cu::truncated_stream_error>);
    static_assert(std::is_base_of_v<cu::io_error, cu::tag_mismatch_error>);
    static_assert(std::is_base_of_v<cu::io_error, cu::unsupported_format_error>
    );
    static_assert(std::is_base_of_v<cu::io_error, cu::size_error>);
    static_assert(std::is_nothrow_move_constructible_v<
                  cb::array<cv::float3>::owning_data_t>);
    static_assert(std::is_nothrow_move_assignable_v<
                  cb::array<cv::float3>::owning_data_t>);
    static_assert(std::is_nothrow_destructible_v<cu::exception_mask_guard>);
    static_assert(std::is_nothrow_destructible_v<cu::layer_section>);

    /* layout of field<array<float1>>: 8 field hdr, 8 array hdr, 4 width,
     * 8 size, payload, 8 array ftr, 8 field ftr */
    arr1_f a(covfie::make_parameter_pack(arr1_f::backend_t::configuration_t{6ul}
    ));
    {
        arr1_f::view_t v(a);
        for (std::size_t i = 0; i < 6; ++i) {
            v.at(i)[0] = static_cast<float>(i) + 0.5f;
        }
    }
    const std::string ab = dump(a);
    CHECK(ab.size() == 8 + 8 + 4 + 8 + 24 + 8 + 8);

    /* classification */
    {
        std::istringstream is(ab);
        CHECK(classify<arr1_f>(is) == what::loaded);
        std::istringstream t(ab.substr(0, 30));
        CHECK(classify<arr1_f>(t) == what::truncated);
        std::istringstream g(with_u32(ab, 0, 7));
        CHECK(classify<arr1_f>(g) == what::tag);
        std::istringstream w(with_u32(ab, 16, 2));
        CHECK(classify<arr1_f>(w) == what::format);
        std::istringstream f(with_u32(ab, ab.size() - 4, 7));
        CHECK(classify<arr1_f>(f) == what::tag);
    }

    /* the size word: every single-bit flip and a few absurd values, seekable
     * and not, under two masks; never anything but an orderly exception and
     * never a big allocation */
    for (int bit = 0; bit < 64; ++bit) {
        const std::string bad = with_u64(ab, 20, uint64_t(6) ^ (uint64_t(1) << bit));
        for (std::ios::iostate m :
             {std::ios::iostate(std::ios::goodbit),
              std::ios::iostate(std::ios::failbit | std::ios::eofbit | std::ios::badbit)})
        {
            std::istringstream is(bad);
            is.exceptions(m);
            const what w = classify<arr1_f>(is);
            CHECK(w == what::truncated || w == what::size || w == what::tag);
            CHECK(is.exceptions() == m);

            plainbuf pb(bad);
            std::istream ns(&pb);
            ns.exceptions(m);
            const what w2 = classify<arr1_f>(ns);
            CHECK(
                w2 == what::truncated || w2 == what::size || w2 == what::tag
            );
            CHECK(ns.exceptions() == m);
        }
    }
    for (uint64_t v :
         {~uint64_t(0),
          uint64_t(1) << 63,
          (uint64_t(1) << 63) - 1,
          uint64_t(1) << 61,
          (uint64_t(1) << 62) / 4,
          uint64_t(0x7FFFFFFFFFFFFFFF) / 4,
          uint64_t(0x7FFFFFFFFFFFFFFF) / 8 + 1})
    {
        std::istringstream is(with_u64(ab, 20, v));
        const what w = classify<arr1_f>(is);
        CHECK(w == what::truncated || w == what::size);
        plainbuf pb(with_u64(ab, 20, v));
        std::istream ns(&pb);
        const what w2 = classify<arr1_f>(ns);
        CHECK(w2 == what::truncated || w2 == what::size);
    }

    /* strided: extents against element count, overflowing extents */
    s3_f s(covfie::make_parameter_pack(s3_f::backend_t::configuration_t{
        2ul, 3ul, 2ul}));
    const std::string sb = dump(s);
    /* 8 field hdr, 8 strided hdr, 24 extents at offset 16 */
    {
        std::istringstream ok(sb);
        CHECK(classify<s3_f>(ok) == what::loaded);
        std::istringstream more(with_u64(sb, 16, 3));
        CHECK(classify<s3_f>(more) == what::size);
        std::istringstream fewer(with_u64(sb, 16, 1));
        CHECK(classify<s3_f>(fewer) == what::loaded);
        std::istringstream zero(with_u64(sb, 24, 0));
        CHECK(classify<s3_f>(zero) == what::loaded);
        std::istringstream ovf(
            with_u64(with_u64(sb, 16, uint64_t(1) << 40), 24, uint64_t(1) << 40)
        );
        CHECK(classify<s3_f>(ovf) == what::size);
        std::istringstream ovfz(with_u64(
            with_u64(with_u64(sb, 16, uint64_t(1) << 40), 24, uint64_t(1) << 40),
            32,
            0
        ));
        CHECK(classify<s3_f>(ovfz) == what::loaded);
        std::istringstream asd(sb);
        CHECK(classify<s3d_f>(asd) == what::loaded);
    }

    /* hostile seeking */
    for (bool thrower : {false, true}) {
        for (std::ios::iostate m :
             {std::ios::iostate(std::ios::goodbit),
              std::ios::iostate(std::ios::failbit),
              std::ios::iostate(std::ios::badbit)})
        {
            hostilebuf hb(ab, thrower);
            std::istream is(&hb);
            is.exceptions(m);
            const what w = classify<arr1_f>(is);
            CHECK(w == what::truncated || w == what::io);
            CHECK(is.exceptions() == m);
        }
    }
    {
        throwingseekbuf tb(ab);
        std::istream is(&tb);
        const what w = classify<arr1_f>(is);
        CHECK(w == what::truncated || w == what::io);
    }

    /* growth path on a non-seekable stream: several doublings, both the
     * direct and the converting reader */
    {
        const std::size_t n = 5u * 1024u * 1024u + 3u;
        arr1_f big(covfie::make_parameter_pack(
            arr1_f::backend_t::configuration_t{n}
        ));
        {
            arr1_f::view_t v(big);
            for (std::size_t i = 0; i < n; ++i) {
                v.at(i)[0] = static_cast<float>(i % 4099) * 0.5f;
            }
        }
        const std::string bb = dump(big);

        plainbuf pb(bb);
        std::istream is(&pb);
        arr1_f back(is);
        CHECK(dump(back) == bb);

        using arr1d_f = covfie::field<cb::array<cv::vector_d<double, 1>>>;
        plainbuf pb2(bb);
        std::istream is2(&pb2);
        arr1d_f asd(is2);
        arr1d_f::view_t dv(asd);
        bool same = asd.backend().get_configuration()[0] == n;
        for (std::size_t i = 0; i < n && same; ++i) {
            same = dv.at(i)[0] == static_cast<double>(i % 4099) * 0.5;
        }
        CHECK(same);

        /* cut in the middle of a later growth step */
        plainbuf pb3(bb.substr(0, bb.size() - 1000));
        std::istream is3(&pb3);
        CHECK(classify<arr1_f>(is3) == what::truncated);
        plainbuf pb4(bb.substr(0, 36 + (3u << 20) * 4u + 2));
        std::istream is4(&pb4);
        CHECK(classify<arr1d_f>(is4) == what::truncated);
    }

    /* moved-from array is an empty array */
    {
        arr1_f m(std::move(a));
        CHECK(dump(m) == ab);
        CHECK(a.backend().get_configuration()[0] == 0);
        arr1_f e;
        CHECK(dump(a) == dump(e));
    }

    if (g_failures != 0) {
        std::fprintf(stderr, "FAIL: %lu of %lu\n", g_failures, g_checks);
        return 1;
    }
    std::printf("PASS (%lu checks)\n", g_checks);
    return 0;
}
