/*
 * Demo / regression driver for property C12 ("fields stay independent values
 * under any history of copy, move, assign, convert").
 *
 * Compile (from the root of the covfie checkout):
 *
 *   g++ -std=c++20 -O2 -g -Ilib/core seeded/demo.cpp -o /tmp/demo_L12 -pthread
 *
 * Variants that were run as well:
 *
 *   g++ -std=c++20 -O2 -g -DNDEBUG -Ilib/core seeded/demo.cpp -o ... -pthread
 *   g++ -std=c++20 -O0 -g -Ilib/core seeded/demo.cpp -o ... -pthread
 *   g++ -std=c++20 -O1 -g -fsanitize=address,undefined \
 *       -fno-sanitize-recover=all -Ilib/core seeded/demo.cpp -o ... -pthread
 *   g++ -std=c++20 -O1 -g -fsanitize=thread -Ilib/core seeded/demo.cpp \
 *       -o ... -pthread
 *   g++ -std=c++20 -O2 -g -mbmi2 -Ilib/core seeded/demo.cpp -o ... -pthread
 *   valgrind --leak-check=full --error-exitcode=9 /tmp/demo_L12 quick
 *
 * Usage: demo [quick] [seed]
 *
 * The program prints PASS and exits 0 iff every check held. It only uses API
 * that exists both before and after the change under test, and it never looks
 * at a moved-from field (it only assigns to one or destroys it).
 */

#include <algorithm>
#include <array>
#include <atomic>
#include <cstddef>
#include <cstdint>
#include <cstdio>
#include <cstdlib>
#include <iostream>
#include <memory>
#include <optional>
#include <random>
#include <sstream>
#include <stdexcept>
#include <string>
#include <thread>
#include <utility>
#include <vector>

#include <covfie/core/backend/primitive/array.hpp>
#include <covfie/core/backend/transformer/hilbert.hpp>
#include <covfie/core/backend/transformer/morton.hpp>
#include <covfie/core/backend/transformer/strided.hpp>
#include <covfie/core/field.hpp>
#include <covfie/core/field_view.hpp>
#include <covfie/core/parameter_pack.hpp>
#include <covfie/core/utility/numeric.hpp>
#include <covfie/core/vector.hpp>

namespace {
std::atomic<unsigned long> g_checks{0};
std::atomic<unsigned long> g_failures{0};

#define CHECK(cond)                                                            \
    do {                                                                       \
        ++g_checks;                                                            \
        if (!(cond)) {                                                         \
            ++g_failures;                                                      \
            std::fprintf(                                                      \
                stderr, "CHECK FAILED %s:%d: %s\n", __FILE__, __LINE__, #cond  \
            );                                                                 \
        }                                                                      \
    } while (0)

/*
 * The plain N-dimensional array model.
 */
template <typename S, std::size_t N, std::size_t M>
struct model {
    std::array<std::size_t, N> ext{};
    std::vector<std::array<S, M>> data;

    explicit model(std::array<std::size_t, N> e)
        : ext(e)
    {
        std::size_t t = 1;
        for (std::size_t k = 0; k < N; ++k) {
            t *= ext[k];
        }
        data.assign(t, std::array<S, M>{});
    }

    std::size_t total() const
    {
        return data.size();
    }

    std::size_t lin(const std::array<std::size_t, N> & c) const
    {
        std::size_t r = 0;
        for (std::size_t k = 0; k < N; ++k) {
            r = r * ext[k] + c[k];
        }
        return r;
    }

    std::array<std::size_t, N> unlin(std::size_t i) const
    {
        std::array<std::size_t, N> c{};
        for (std::size_t k = N; k-- > 0;) {
            c[k] = i % ext[k];
            i /= ext[k];
        }
        return c;
    }
};

template <typename F>
struct traits {
    using backend_t = typename F::backend_t;
    static constexpr std::size_t N = backend_t::contravariant_input_t::dimensions;
    static constexpr std::size_t M = backend_t::covariant_output_t::dimensions;
    using S = typename backend_t::covariant_output_t::scalar_t;
    using model_t = model<S, N, M>;
    using conf_t = typename backend_t::configuration_t;
    using coord_t = typename F::coordinate_t;
};

template <typename F>
typename traits<F>::conf_t to_conf(const std::array<std::size_t, traits<F>::N> & e)
{
    typename traits<F>::conf_t c(static_cast<std::size_t>(0));
    for (std::size_t k = 0; k < traits<F>::N; ++k) {
        c[k] = e[k];
    }
    return c;
}

template <typename F>
typename traits<F>::coord_t
to_coord(const std::array<std::size_t, traits<F>::N> & e)
{
    using scalar_t = typename traits<F>::coord_t::value_type;
    typename traits<F>::coord_t c(static_cast<scalar_t>(0));
    for (std::size_t k = 0; k < traits<F>::N; ++k) {
        c[k] = static_cast<scalar_t>(e[k]);
    }
    return c;
}

/*
 * How to make a fresh field of a given shape, per layout.
 */
template <typename F>
struct maker;

template <typename I, typename O>
struct maker<covfie::field<covfie::backend::strided<I, covfie::backend::array<O>>>> {
    using F = covfie::field<covfie::backend::strided<I, covfie::backend::array<O>>>;
    static F make(const std::array<std::size_t, traits<F>::N> & e)
    {
        return F(covfie::make_parameter_pack(to_conf<F>(e)));
    }
};

template <typename F>
F make_pow2_cube(const std::array<std::size_t, traits<F>::N> & e)
{
    std::size_t mx = 0;
    for (std::size_t k = 0; k < traits<F>::N; ++k) {
        mx = std::max(mx, e[k]);
    }
    std::size_t cells = covfie::utility::ipow(
        covfie::utility::round_pow2(mx), static_cast<std::size_t>(traits<F>::N)
    );
    using array_conf_t = typename F::backend_t::backend_t::configuration_t;
    return F(covfie::make_parameter_pack(to_conf<F>(e), array_conf_t{cells}));
}

template <typename I, typename O>
struct maker<covfie::field<covfie::backend::morton<I, covfie::backend::array<O>>>> {
    using F = covfie::field<covfie::backend::morton<I, covfie::backend::array<O>>>;
    static F make(const std::array<std::size_t, traits<F>::N> & e)
    {
        return make_pow2_cube<F>(e);
    }
};

template <typename I, typename O>
struct maker<covfie::field<covfie::backend::hilbert<I, covfie::backend::array<O>>>> {
    using F = covfie::field<covfie::backend::hilbert<I, covfie::backend::array<O>>>;
    static F make(const std::array<std::size_t, traits<F>::N> & e)
    {
        return make_pow2_cube<F>(e);
    }
};

template <typename F>
void verify(const F & f, const typename traits<F>::model_t & m)
{
    auto conf = f.backend().get_configuration();
    bool same_shape = true;
    for (std::size_t k = 0; k < traits<F>::N; ++k) {
        same_shape = same_shape && conf[k] == m.ext[k];
    }
    CHECK(same_shape);
    if (!same_shape) {
        return;
    }

    typename F::view_t v(f);
    bool ok = true;
    for (std::size_t i = 0; i < m.total(); ++i) {
        auto c = to_coord<F>(m.unlin(i));
        for (std::size_t j = 0; j < traits<F>::M; ++j) {
            ok = ok && (v.at(c)[j] == m.data[i][j]);
        }
    }
    CHECK(ok);
}

template <typename F>
std::string dump(const F & f)
{
    std::ostringstream os(std::ios::binary);
    f.dump(os);
    CHECK(static_cast<bool>(os));
    return os.str();
}

template <typename F>
F load(const std::string & bytes)
{
    std::istringstream is(bytes, std::ios::binary);
    return F(is);
}

enum class state {
    empty,
    live,
    dead /* engaged, but moved-from: may only be assigned to or destroyed */
};

template <typename F>
struct pool {
    static constexpr std::size_t slots = 4;
    using model_t = typename traits<F>::model_t;

    std::optional<F> f[slots];
    std::optional<model_t> m[slots];
    state s[slots] = {state::empty, state::empty, state::empty, state::empty};

    void verify_all() const
    {
        for (std::size_t i = 0; i < slots; ++i) {
            CHECK((s[i] == state::empty) == !f[i].has_value());
            if (s[i] == state::live) {
                verify(*f[i], *m[i]);
            }
        }
    }

    void destroy(std::size_t i)
    {
        f[i].reset();
        m[i].reset();
        s[i] = state::empty;
    }

    int pick(std::mt19937_64 & rng, state want) const
    {
        std::size_t start = rng() % slots;
        for (std::size_t d = 0; d < slots; ++d) {
            std::size_t i = (start + d) % slots;
            if (s[i] == want) {
                return static_cast<int>(i);
            }
        }
        return -1;
    }
};

template <typename F>
std::array<std::size_t, traits<F>::N>
random_shape(std::mt19937_64 & rng, std::size_t max_ext)
{
    std::array<std::size_t, traits<F>::N> e{};
    for (std::size_t k = 0; k < traits<F>::N; ++k) {
        // Mostly 1..max_ext, occasionally an empty axis.
        e[k] = (rng() % 23 == 0) ? 0 : 1 + rng() % max_ext;
    }
    return e;
}

template <typename F>
void random_writes_through(
    typename F::view_t & v,
    typename traits<F>::model_t & m,
    std::mt19937_64 & rng,
    std::size_t n
)
{
    if (m.total() == 0) {
        return;
    }
    for (std::size_t w = 0; w < n; ++w) {
        std::size_t i = rng() % m.total();
        auto c = to_coord<F>(m.unlin(i));
        for (std::size_t j = 0; j < traits<F>::M; ++j) {
            auto val = static_cast<typename traits<F>::S>(
                static_cast<double>(
                    static_cast<std::int64_t>(rng() % 200001) - 100000
                ) /
                8.0
            );
            v.at(c)[j] = val;
            m.data[i][j] = val;
        }
    }
}

template <typename F>
void random_writes(
    F & f, typename traits<F>::model_t & m, std::mt19937_64 & rng, std::size_t n
)
{
    typename F::view_t v(f);
    random_writes_through<F>(v, m, rng, n);
}

/*
 * Operations within a single pool (one field type).
 */
template <typename F>
void step_same_type(pool<F> & p, std::mt19937_64 & rng, std::size_t max_ext)
{
    using model_t = typename traits<F>::model_t;
    constexpr std::size_t slots = pool<F>::slots;

    switch (rng() % 12) {
        case 0: { // create in an empty slot, check it is all zero
            int i = p.pick(rng, state::empty);
            if (i < 0) {
                break;
            }
            auto e = random_shape<F>(rng, max_ext);
            p.f[i].emplace(maker<F>::make(e));
            p.m[i].emplace(e);
            p.s[i] = state::live;
            break;
        }
        case 1: { // create by move-assigning a fresh field over anything
            std::size_t i = rng() % slots;
            auto e = random_shape<F>(rng, max_ext);
            if (p.s[i] == state::empty) {
                p.f[i].emplace(maker<F>::make(e));
            } else {
                *p.f[i] = maker<F>::make(e);
            }
            p.m[i].emplace(e);
            p.s[i] = state::live;
            break;
        }
        case 2:
        case 3: { // write through a view
            int i = p.pick(rng, state::live);
            if (i < 0) {
                break;
            }
            random_writes(*p.f[i], *p.m[i], rng, 1 + rng() % 6);
            break;
        }
        case 4: { // copy construct, then write to one side
            int j = p.pick(rng, state::live);
            int i = p.pick(rng, state::empty);
            if (i < 0 || j < 0) {
                break;
            }
            p.f[i].emplace(*p.f[j]);
            p.m[i].emplace(*p.m[j]);
            p.s[i] = state::live;
            if (rng() % 2) {
                random_writes(*p.f[i], *p.m[i], rng, 2);
            } else {
                random_writes(*p.f[j], *p.m[j], rng, 2);
            }
            break;
        }
        case 5: { // move construct; the source is destroyed or left dead
            int j = p.pick(rng, state::live);
            int i = p.pick(rng, state::empty);
            if (i < 0 || j < 0) {
                break;
            }
            p.f[i].emplace(std::move(*p.f[j]));
            p.m[i].emplace(std::move(*p.m[j]));
            p.s[i] = state::live;
            if (rng() % 2) {
                p.destroy(j);
            } else {
                p.m[j].reset();
                p.s[j] = state::dead;
            }
            break;
        }
        case 6: { // copy assign (target live or dead; may be self)
            int j = p.pick(rng, state::live);
            if (j < 0) {
                break;
            }
            std::size_t i = rng() % slots;
            if (p.s[i] == state::empty) {
                break;
            }
            if (static_cast<std::size_t>(j) != i) {
                // Hold a view on the source across the assignment and write
                // through it afterwards: must not show up in the target.
                typename F::view_t vj(*p.f[j]);
                *p.f[i] = *p.f[j];
                p.m[i].emplace(*p.m[j]);
                p.s[i] = state::live;
                random_writes_through<F>(vj, *p.m[j], rng, 2);
            } else {
                *p.f[i] = *p.f[j];
                random_writes(*p.f[j], *p.m[j], rng, 2);
            }
            break;
        }
        case 7: { // move assign (target live or dead; may be self)
            int j = p.pick(rng, state::live);
            if (j < 0) {
                break;
            }
            std::size_t i = rng() % slots;
            if (p.s[i] == state::empty) {
                break;
            }
            F & dst = *p.f[i];
            F & src = *p.f[j];
            dst = std::move(src);
            if (static_cast<std::size_t>(j) != i) {
                p.m[i].emplace(std::move(*p.m[j]));
                p.s[i] = state::live;
                if (rng() % 2) {
                    p.destroy(j);
                } else {
                    p.m[j].reset();
                    p.s[j] = state::dead;
                }
            }
            // Self move assignment leaves the field as it was.
            break;
        }
        case 8: { // explicit self copy assignment
            int i = p.pick(rng, state::live);
            if (i < 0) {
                break;
            }
            F & a = *p.f[i];
            F & b = *p.f[i];
            a = b;
            break;
        }
        case 9: { // dump, load into another slot; bytes are a function of value
            int j = p.pick(rng, state::live);
            if (j < 0) {
                break;
            }
            std::string bytes = dump(*p.f[j]);
            {
                F copy(*p.f[j]);
                CHECK(dump(copy) == bytes);
            }
            std::size_t i = rng() % slots;
            if (p.s[i] == state::empty) {
                p.f[i].emplace(load<F>(bytes));
            } else {
                *p.f[i] = load<F>(bytes);
            }
            if (static_cast<std::size_t>(j) != i) {
                p.m[i].emplace(*p.m[j]);
            }
            p.s[i] = state::live;
            CHECK(dump(*p.f[i]) == bytes);
            break;
        }
        case 10: { // destroy
            std::size_t i = rng() % slots;
            p.destroy(i);
            break;
        }
        case 11: { // chain: copy of copy of move, all temporaries
            int j = p.pick(rng, state::live);
            if (j < 0) {
                break;
            }
            F a(*p.f[j]);
            F b(std::move(a));
            F c(b);
            a = c; // assign to moved-from
            model_t mb(*p.m[j]);
            random_writes(b, mb, rng, 3);
            verify(a, *p.m[j]);
            verify(c, *p.m[j]);
            verify(b, mb);
            b = std::move(c);
            verify(b, *p.m[j]);
            break;
        }
    }
}

/*
 * Layout conversion between two pools of different layout, same shape/element.
 */
template <typename FA, typename FB>
void step_convert(pool<FA> & pa, pool<FB> & pb, std::mt19937_64 & rng)
{
    int j = pa.pick(rng, state::live);
    if (j < 0) {
        return;
    }
    std::size_t i = rng() % pool<FB>::slots;
    typename traits<FB>::model_t mm(pa.m[j]->ext);
    mm.data = pa.m[j]->data;

    bool from_rvalue = rng() % 3 == 0;

    if (pb.s[i] == state::empty) {
        if (from_rvalue) {
            pb.f[i].emplace(std::move(*pa.f[j]));
        } else {
            pb.f[i].emplace(*pa.f[j]);
        }
    } else {
        if (from_rvalue) {
            *pb.f[i] = FB(std::move(*pa.f[j]));
        } else {
            *pb.f[i] = FB(*pa.f[j]);
        }
    }
    pb.m[i].emplace(std::move(mm));
    pb.s[i] = state::live;

    if (from_rvalue) {
        // Do not rely on what is left behind.
        pa.m[j].reset();
        pa.s[j] = state::dead;
    } else {
        // Writes to the source after the conversion stay in the source.
        random_writes(*pa.f[j], *pa.m[j], rng, 2);
    }
}

template <typename FA, typename FB>
void run_world(std::uint64_t seed, std::size_t steps, std::size_t max_ext)
{
    static_assert(traits<FA>::N == traits<FB>::N);
    static_assert(traits<FA>::M == traits<FB>::M);

    std::mt19937_64 rng(seed);
    pool<FA> pa;
    pool<FB> pb;

    for (std::size_t t = 0; t < steps; ++t) {
        switch (rng() % 8) {
            case 0:
                step_convert(pa, pb, rng);
                break;
            case 1:
                step_convert(pb, pa, rng);
                break;
            case 2:
            case 3:
            case 4:
                step_same_type(pa, rng, max_ext);
                break;
            default:
                step_same_type(pb, rng, max_ext);
                break;
        }
        pa.verify_all();
        pb.verify_all();
    }
}

/*
 * Every shape in a small box, through every ownership operation once.
 */
template <typename F>
void exhaustive_shapes(std::size_t max_ext)
{
    constexpr std::size_t N = traits<F>::N;
    using model_t = typename traits<F>::model_t;
    std::mt19937_64 rng(12345);

    std::array<std::size_t, N> e{};
    for (;;) {
        {
            F f = maker<F>::make(e);
            model_t m(e);
            verify(f, m); // fresh fields are zero
            random_writes(f, m, rng, m.total() + 1);
            // fill completely so that every cell is distinguishable
            if (m.total() > 0) {
                typename F::view_t v(f);
                for (std::size_t i = 0; i < m.total(); ++i) {
                    auto c = to_coord<F>(m.unlin(i));
                    for (std::size_t j = 0; j < traits<F>::M; ++j) {
                        auto val = static_cast<typename traits<F>::S>(
                            static_cast<double>(i * 8 + j) + 0.25
                        );
                        v.at(c)[j] = val;
                        m.data[i][j] = val;
                    }
                }
            }
            verify(f, m);

            F c1(f);
            F c2;
            c2 = f;
            F c3;
            c3 = c2;
            c3 = c3;
            F mv(std::move(c1));
            c1 = mv;
            F ld = load<F>(dump(f));
            model_t m2(m);
            random_writes(c2, m2, rng, 3);
            verify(f, m);
            verify(c1, m);
            verify(c2, m2);
            verify(c3, m);
            verify(mv, m);
            verify(ld, m);
            CHECK(dump(ld) == dump(f));
            CHECK(dump(mv) == dump(f));
            F empty_target;
            empty_target = std::move(ld);
            verify(empty_target, m);
            ld = std::move(empty_target);
            verify(ld, m);
        }

        std::size_t k = N;
        bool done = false;
        for (;;) {
            --k;
            if (++e[k] <= max_ext) {
                break;
            }
            e[k] = 0;
            if (k == 0) {
                done = true;
                break;
            }
        }
        if (done) {
            break;
        }
    }
}

/*
 * Default-constructed fields: can be copied, moved, assigned, dumped, loaded
 * and converted, and behave as fields without cells.
 */
template <typename F, bool may_dump>
void empty_fields()
{
    F a;
    F b(a);
    F c(std::move(a));
    a = b;
    b = std::move(c);
    c = a;
    F & ar = a;
    a = ar;
    a = std::move(ar);
    if constexpr (!may_dump) {
        // Before the change under test a default-constructed Morton field
        // has indeterminate extents; do not look at them.
        return;
    }
    std::string bytes = dump(a);
    F d = load<F>(bytes);
    CHECK(dump(d) == bytes);
    CHECK(dump(b) == bytes);
    auto e = std::array<std::size_t, traits<F>::N>{};
    for (auto & x : e) {
        x = 2;
    }
    F g = maker<F>::make(e);
    typename traits<F>::model_t mg(e);
    std::mt19937_64 rng(7);
    random_writes(g, mg, rng, 5);
    F h(g);
    g = d; // non-empty := empty
    CHECK(dump(g) == bytes);
    d = h; // empty := non-empty
    verify(d, mg);
    verify(h, mg);
}

/*
 * Truncated input: construction from a stream must fail with an exception
 * and must not leak what was allocated so far.
 */
template <typename F>
void truncated_loads()
{
    auto e = std::array<std::size_t, traits<F>::N>{};
    for (auto & x : e) {
        x = 3;
    }
    F f = maker<F>::make(e);
    typename traits<F>::model_t m(e);
    std::mt19937_64 rng(99);
    random_writes(f, m, rng, 40);
    std::string bytes = dump(f);

    F victim(f);

    for (std::size_t len = 0; len < bytes.size(); ++len) {
        bool threw = false;
        try {
            F g = load<F>(bytes.substr(0, len));
            (void)g;
        } catch (const std::runtime_error &) {
            threw = true;
        }
        CHECK(threw);

        // Same, as the right hand side of an assignment: the target must be
        // untouched when the load throws.
        try {
            victim = load<F>(bytes.substr(0, len));
        } catch (const std::runtime_error &) {
        }
    }
    verify(victim, m);
    victim = load<F>(bytes);
    verify(victim, m);
}

/*
 * Hand a plain new[] buffer to the array backend (the constructor the device
 * backends and external code use), wrap it in a strided field.
 */
template <typename O>
void adopt_plain_buffer()
{
    using A = covfie::backend::array<O>;
    using F = covfie::field<covfie::backend::strided<covfie::vector::size2, A>>;
    using vec_t = typename A::vector_t;

    for (std::size_t nx = 0; nx < 5; ++nx) {
        for (std::size_t ny = 1; ny < 5; ++ny) {
            std::array<std::size_t, 2> e{nx, ny};
            typename traits<F>::model_t m(e);
            std::unique_ptr<vec_t[]> buf = std::make_unique<vec_t[]>(nx * ny);
            for (std::size_t i = 0; i < nx * ny; ++i) {
                for (std::size_t j = 0; j < traits<F>::M; ++j) {
                    auto val = static_cast<typename traits<F>::S>(i * 10 + j);
                    buf[i][j] = val;
                    m.data[i][j] = val;
                }
            }
            typename A::owning_data_t arr(nx * ny, std::move(buf));
            F f(covfie::make_parameter_pack(to_conf<F>(e), std::move(arr)));
            verify(f, m);
            F g(f);
            std::mt19937_64 rng(nx * 7 + ny);
            typename traits<F>::model_t mg(m);
            random_writes(g, mg, rng, 4);
            verify(f, m);
            verify(g, mg);
        }
    }
}

/*
 * Threads: a shared field that nobody writes to is copied, converted and
 * dumped concurrently; every thread owns what it makes.
 */
template <typename FA, typename FB>
void threaded(std::size_t nthreads, std::size_t rounds)
{
    std::array<std::size_t, traits<FA>::N> e{};
    for (std::size_t k = 0; k < traits<FA>::N; ++k) {
        e[k] = 3 + k;
    }
    FA shared = maker<FA>::make(e);
    typename traits<FA>::model_t ms(e);
    {
        std::mt19937_64 rng(4242);
        random_writes(shared, ms, rng, 200);
    }
    const FA & cs = shared;
    const std::string shared_bytes = dump(cs);

    std::vector<std::thread> ts;
    for (std::size_t t = 0; t < nthreads; ++t) {
        ts.emplace_back([&, t]() {
            std::mt19937_64 rng(1000 + t);
            for (std::size_t r = 0; r < rounds; ++r) {
                FA mine(cs);
                typename traits<FA>::model_t mm(ms);
                random_writes(mine, mm, rng, 5);
                FB conv(cs);
                typename traits<FB>::model_t mc(ms.ext);
                mc.data = ms.data;
                random_writes(conv, mc, rng, 5);
                FA back(conv);
                FA assigned;
                assigned = cs;
                assigned = mine;
                FA moved(std::move(mine));
                verify(moved, mm);
                verify(assigned, mm);
                verify(conv, mc);
                typename traits<FA>::model_t mb(mc.ext);
                mb.data = mc.data;
                verify(back, mb);
                CHECK(dump(cs) == shared_bytes);
                FA ld = load<FA>(shared_bytes);
                verify(ld, ms);
            }
        });
    }
    for (auto & t : ts) {
        t.join();
    }
    verify(shared, ms);
}

namespace v = covfie::vector;
namespace b = covfie::backend;

template <typename I, typename O>
using strided_f = covfie::field<b::strided<I, b::array<O>>>;
template <typename I, typename O>
using morton_f = covfie::field<b::morton<I, b::array<O>>>;
template <typename I, typename O>
using hilbert_f = covfie::field<b::hilbert<I, b::array<O>>>;
}

int main(int argc, char ** argv)
{
    bool quick = false;
    std::uint64_t seed = 20240926;
    for (int i = 1; i < argc; ++i) {
        std::string a = argv[i];
        if (a == "quick") {
            quick = true;
        } else {
            seed = std::strtoull(a.c_str(), nullptr, 10);
        }
    }

    const std::size_t steps = quick ? 300 : 4000;
    const std::size_t worlds = quick ? 2 : 6;

    // Exhaustive small shapes, all layouts, float and double, 1..4 components.
    exhaustive_shapes<strided_f<v::size1, v::float1>>(quick ? 5 : 9);
    exhaustive_shapes<strided_f<v::size1, v::double3>>(quick ? 5 : 9);
    exhaustive_shapes<strided_f<v::size2, v::float2>>(quick ? 3 : 5);
    exhaustive_shapes<strided_f<v::size2, v::double1>>(quick ? 3 : 5);
    exhaustive_shapes<strided_f<v::size3, v::float3>>(quick ? 2 : 4);
    exhaustive_shapes<strided_f<v::size3, v::double4>>(quick ? 2 : 3);
    exhaustive_shapes<strided_f<v::size4, v::float1>>(quick ? 2 : 3);
    exhaustive_shapes<morton_f<v::size2, v::float2>>(quick ? 3 : 5);
    exhaustive_shapes<morton_f<v::size2, v::double3>>(quick ? 3 : 5);
    exhaustive_shapes<morton_f<v::size3, v::float3>>(quick ? 2 : 4);
    exhaustive_shapes<morton_f<v::size3, v::double1>>(quick ? 2 : 3);
    exhaustive_shapes<morton_f<v::ulong2, v::float4>>(quick ? 3 : 4);
    exhaustive_shapes<hilbert_f<v::size2, v::float2>>(quick ? 3 : 5);
    exhaustive_shapes<hilbert_f<v::size2, v::double2>>(quick ? 3 : 5);

    // Random histories over pools of slots, with conversions in between.
    for (std::size_t w = 0; w < worlds; ++w) {
        run_world<strided_f<v::size2, v::float3>, morton_f<v::size2, v::float3>>(
            seed + w, steps, 6
        );
        run_world<strided_f<v::size3, v::double2>, morton_f<v::size3, v::double2>>(
            seed + 100 + w, steps, 4
        );
        run_world<strided_f<v::size2, v::double1>, hilbert_f<v::size2, v::double1>>(
            seed + 200 + w, steps, 6
        );
        run_world<morton_f<v::size2, v::float2>, hilbert_f<v::size2, v::float2>>(
            seed + 300 + w, steps, 5
        );
        run_world<morton_f<v::size3, v::float4>, strided_f<v::size3, v::float4>>(
            seed + 400 + w, steps, 3
        );
    }

    empty_fields<strided_f<v::size1, v::float1>, true>();
    empty_fields<strided_f<v::size3, v::double3>, true>();
    empty_fields<morton_f<v::size2, v::float2>, false>();
    empty_fields<morton_f<v::size3, v::double1>, false>();

    truncated_loads<strided_f<v::size2, v::float3>>();
    truncated_loads<strided_f<v::size1, v::double1>>();
    truncated_loads<morton_f<v::size2, v::double2>>();
    truncated_loads<morton_f<v::size3, v::float1>>();

    adopt_plain_buffer<v::float1>();
    adopt_plain_buffer<v::float3>();
    adopt_plain_buffer<v::double2>();

    threaded<strided_f<v::size3, v::float3>, morton_f<v::size3, v::float3>>(
        4, quick ? 20 : 200
    );
    threaded<morton_f<v::size2, v::double2>, strided_f<v::size2, v::double2>>(
        4, quick ? 20 : 200
    );

    unsigned long checks = g_checks.load();
    unsigned long failures = g_failures.load();
    std::printf("%lu checks, %lu failures\n", checks, failures);

    if (failures == 0 && checks > 0) {
        std::printf("PASS\n");
        return 0;
    }

    std::printf("FAIL\n");
    return 1;
}
