// Stand-alone exerciser for the value semantics of covfie fields (property C12).
//
// Compile and run (from /tmp/wt_L12b):
//   g++ -std=c++20 -O2 -g -pthread -Ilib/core seeded/demo.cpp -o /tmp/demo_L12b && /tmp/demo_L12b
// Other modes which were used (all print PASS):
//   g++ -std=c++20 -O0 -g -pthread -Ilib/core seeded/demo.cpp ...                      (assertions on)
//   g++ -std=c++20 -O2 -DNDEBUG -mbmi2 -pthread -Ilib/core seeded/demo.cpp ...         (pdep Morton)
//   g++ -std=c++20 -O1 -g -fsanitize=address,undefined -fno-sanitize-recover=all -pthread -Ilib/core seeded/demo.cpp ...
//   g++ -std=c++20 -O1 -g -fsanitize=thread -pthread -Ilib/core seeded/demo.cpp ...
//   g++ -std=c++20 -O1 -g -DDEMO_NO_NEW_HOOK -pthread -Ilib/core seeded/demo.cpp ... &&
//     valgrind --leak-check=full --show-leak-kinds=all --error-exitcode=9 /tmp/demo_L12b quick
//   add -DDEMO_EXPECT_STRONG to also assert the strong exception guarantee
//   (only the changed library provides that; the property does not need it).
//
// The program prints PASS and exits 0 with and without the change. It only
// relies on behaviour both versions promise: it never inspects a moved-from
// or a default-constructed field, it only assigns to / destroys those.
//
// What it does:
//   * model based testing: a pool of field slots of three layouts (strided,
//     Morton, Morton without BMI2) in 1, 2 and 3 dimensions, float and
//     double, is driven through sequences of create / write-through-view /
//     copy-construct / move-construct / copy-assign / move-assign (including
//     self assignment and self move) / swap / layout conversion from lvalue
//     and rvalue / parameter-pack construction from a backend / dump+load /
//     destroy, exhaustively for all sequences up to a bounded length and
//     randomly (seeded) for long histories. After every step every live
//     field is compared element by element against a plain array model;
//   * a golden check of the on-disk byte format;
//   * an allocation failure sweep: every allocation made by copy, copy
//     assignment and conversion is made to fail once; afterwards nothing may
//     be leaked (sanitizer / valgrind) and the objects must still be usable;
//   * a thread test: many threads copy, convert and dump one shared const
//     field concurrently (for ThreadSanitizer);
//   * plain covfie::backend::array fields (1D, scalar index).

#include <array>
#include <atomic>
#include <cstdint>
#include <cstdio>
#include <cstdlib>
#include <cstring>
#include <memory>
#include <new>
#include <random>
#include <sstream>
#include <string>
#include <thread>
#include <vector>

#include <covfie/core/backend/primitive/array.hpp>
#include <covfie/core/backend/transformer/morton.hpp>
#include <covfie/core/backend/transformer/strided.hpp>
#include <covfie/core/field.hpp>
#include <covfie/core/parameter_pack.hpp>
#include <covfie/core/utility/numeric.hpp>

// ---------------------------------------------------------------------------
// Allocation failure injection (per thread; disabled when negative).
// ---------------------------------------------------------------------------
static thread_local long g_fail_countdown = -1;
static std::atomic<long> g_live_allocs{0};

static void * demo_alloc(std::size_t n)
{
    if (g_fail_countdown >= 0) {
        if (g_fail_countdown == 0) {
            g_fail_countdown = -1;
            throw std::bad_alloc();
        }
        --g_fail_countdown;
    }
    void * p = std::malloc(n == 0 ? 1 : n);
    if (!p) {
        throw std::bad_alloc();
    }
    g_live_allocs.fetch_add(1, std::memory_order_relaxed);
    return p;
}

static void demo_free(void * p) noexcept
{
    if (p) {
        g_live_allocs.fetch_sub(1, std::memory_order_relaxed);
        std::free(p);
    }
}

// Valgrind substitutes its own operator new in the shared C++ runtime, which
// does not mix with a replacement in the executable; build with
// -DDEMO_NO_NEW_HOOK for valgrind (this skips the allocation failure sweep,
// everything else still runs, and valgrind does the leak checking).
#ifndef DEMO_NO_NEW_HOOK
void * operator new(std::size_t n)
{
    return demo_alloc(n);
}
void * operator new[](std::size_t n)
{
    return demo_alloc(n);
}
void operator delete(void * p) noexcept
{
    demo_free(p);
}
void operator delete[](void * p) noexcept
{
    demo_free(p);
}
void operator delete(void * p, std::size_t) noexcept
{
    demo_free(p);
}
void operator delete[](void * p, std::size_t) noexcept
{
    demo_free(p);
}
#endif

// ---------------------------------------------------------------------------
static long g_checks = 0;

#define CHECK(cond)                                                            \
    do {                                                                       \
        ++g_checks;                                                            \
        if (!(cond)) {                                                         \
            std::printf("FAIL %s:%d: %s\n", __FILE__, __LINE__, #cond);        \
            std::fflush(stdout);                                               \
            std::exit(1);                                                      \
        }                                                                      \
    } while (0)

template <typename L>
struct is_morton : std::false_type {
};
template <typename V, typename B, bool M>
struct is_morton<covfie::backend::morton<V, B, M>> : std::true_type {
};

template <std::size_t D>
using Ext = std::array<std::size_t, D>;

template <std::size_t D>
std::size_t volume(const Ext<D> & e)
{
    std::size_t r = 1;
    for (std::size_t k = 0; k < D; ++k) {
        r *= e[k];
    }
    return r;
}

// The plain N-dimensional array model.
template <std::size_t D, std::size_t C, typename S>
struct Model {
    Ext<D> ext{};
    std::vector<S> v;

    std::size_t lin(const Ext<D> & c) const
    {
        std::size_t r = 0;
        for (std::size_t k = 0; k < D; ++k) {
            r = r * ext[k] + c[k];
        }
        return r;
    }
};

template <std::size_t D, typename Fn>
void for_each_coord(const Ext<D> & e, Fn && fn)
{
    if (volume<D>(e) == 0) {
        return;
    }
    Ext<D> c{};
    for (;;) {
        fn(c);
        std::size_t k = D;
        for (;;) {
            if (k == 0) {
                return;
            }
            --k;
            if (++c[k] < e[k]) {
                break;
            }
            c[k] = 0;
        }
    }
}

template <typename F, std::size_t D>
typename F::coordinate_t to_coord(const Ext<D> & c)
{
    typename F::coordinate_t r;
    for (std::size_t k = 0; k < D; ++k) {
        r[k] = c[k];
    }
    return r;
}

template <typename L, std::size_t D>
covfie::field<L> make_field(const Ext<D> & e)
{
    typename L::configuration_t conf;
    for (std::size_t k = 0; k < D; ++k) {
        conf[k] = e[k];
    }
    if constexpr (is_morton<L>::value) {
        std::size_t mx = 0;
        for (std::size_t k = 0; k < D; ++k) {
            mx = std::max(mx, e[k]);
        }
        std::size_t n = covfie::utility::ipow(
            covfie::utility::round_pow2(mx), static_cast<std::size_t>(D)
        );
        return covfie::field<L>(covfie::make_parameter_pack(
            std::move(conf), typename L::backend_t::configuration_t{n}
        ));
    } else {
        return covfie::field<L>(covfie::make_parameter_pack(std::move(conf)));
    }
}

template <typename F>
std::string dump_to_string(const F & f)
{
    std::ostringstream os;
    f.dump(os);
    CHECK(os.good());
    return os.str();
}

// ---------------------------------------------------------------------------
// The harness: a pool of slots, each of which holds a field of one of three
// layouts, plus the model of what it ought to contain.
// ---------------------------------------------------------------------------
template <
    typename L0,
    typename L1,
    typename L2,
    std::size_t D,
    std::size_t C,
    typename S>
struct Harness {
    using M = Model<D, C, S>;
    enum State {
        Dead,
        Live,
        Unspecified /* moved-from or default constructed */
    };

    struct Slot {
        std::unique_ptr<covfie::field<L0>> a;
        std::unique_ptr<covfie::field<L1>> b;
        std::unique_ptr<covfie::field<L2>> c;
        State st = Dead;
        M m;

        int layout() const
        {
            return a ? 0 : (b ? 1 : (c ? 2 : -1));
        }
        void kill()
        {
            a.reset();
            b.reset();
            c.reset();
            st = Dead;
            m = M{};
        }
    };

    std::vector<Slot> slots;
    std::mt19937_64 rng;
    std::size_t max_ext;
    long counter = 0;

    Harness(std::size_t n, std::uint64_t seed, std::size_t mx)
        : slots(n)
        , rng(seed)
        , max_ext(mx)
    {
    }

    template <typename Fn>
    static void visit(Slot & s, Fn && fn)
    {
        if (s.a) {
            fn(*s.a);
        } else if (s.b) {
            fn(*s.b);
        } else if (s.c) {
            fn(*s.c);
        }
    }

    template <typename F>
    static std::unique_ptr<F> & holder(Slot & s)
    {
        if constexpr (std::is_same_v<F, covfie::field<L0>>) {
            return s.a;
        } else if constexpr (std::is_same_v<F, covfie::field<L1>>) {
            return s.b;
        } else {
            return s.c;
        }
    }

    template <typename Fn>
    static void with_layout(int l, Fn && fn)
    {
        if (l == 0) {
            fn(static_cast<L0 *>(nullptr));
        } else if (l == 1) {
            fn(static_cast<L1 *>(nullptr));
        } else {
            fn(static_cast<L2 *>(nullptr));
        }
    }

    S next_value()
    {
        counter = (counter + 1) % 4000000;
        return static_cast<S>(counter) + static_cast<S>(0.5);
    }

    template <typename F>
    void verify_one(const F & f, const M & m)
    {
        auto conf = f.backend().get_configuration();
        for (std::size_t k = 0; k < D; ++k) {
            CHECK(conf[k] == m.ext[k]);
        }
        typename F::view_t v(f);
        for_each_coord<D>(m.ext, [&](const Ext<D> & c) {
            auto & e = v.at(to_coord<F, D>(c));
            std::size_t l = m.lin(c);
            for (std::size_t i = 0; i < C; ++i) {
                CHECK(e[i] == m.v[l * C + i]);
            }
        });
    }

    void verify_all()
    {
        for (Slot & s : slots) {
            CHECK((s.st == Dead) == (s.layout() == -1));
            if (s.st == Live) {
                visit(s, [&](auto & f) { verify_one(f, s.m); });
            }
        }
    }

    // ----- operations; each returns false if its precondition fails --------
    bool op_create(std::size_t i, int layout, const Ext<D> & e)
    {
        Slot & s = slots[i];
        s.kill();
        with_layout(layout, [&](auto * tag) {
            using L = std::remove_pointer_t<decltype(tag)>;
            using F = covfie::field<L>;
            holder<F>(s) = std::make_unique<F>(make_field<L, D>(e));
            s.m.ext = e;
            s.m.v.assign(volume<D>(e) * C, S(0));
            F & f = *holder<F>(s);
            // A fresh field is zero initialized; check, then fill.
            verify_one(f, s.m);
            typename F::view_t v(f);
            for_each_coord<D>(e, [&](const Ext<D> & c) {
                auto & el = v.at(to_coord<F, D>(c));
                for (std::size_t k = 0; k < C; ++k) {
                    S x = next_value();
                    el[k] = x;
                    s.m.v[s.m.lin(c) * C + k] = x;
                }
            });
        });
        s.st = Live;
        return true;
    }

    bool op_default(std::size_t i, int layout)
    {
        Slot & s = slots[i];
        s.kill();
        with_layout(layout, [&](auto * tag) {
            using F = covfie::field<std::remove_pointer_t<decltype(tag)>>;
            holder<F>(s) = std::make_unique<F>();
        });
        s.st = Unspecified;
        return true;
    }

    bool op_write(std::size_t i, std::uint64_t r)
    {
        Slot & s = slots[i];
        if (s.st != Live || volume<D>(s.m.ext) == 0) {
            return false;
        }
        Ext<D> c;
        for (std::size_t k = 0; k < D; ++k) {
            c[k] = (r >> (8 * k)) % s.m.ext[k];
        }
        std::size_t comp = (r >> 40) % C;
        S x = next_value();
        visit(s, [&](auto & f) {
            using F = std::decay_t<decltype(f)>;
            typename F::view_t v(f);
            v.at(to_coord<F, D>(c))[comp] = x;
        });
        s.m.v[s.m.lin(c) * C + comp] = x;
        return true;
    }

    bool op_copy_construct(std::size_t i, std::size_t j)
    {
        if (i == j || slots[i].st != Live) {
            return false;
        }
        Slot & src = slots[i];
        Slot & dst = slots[j];
        dst.kill();
        visit(src, [&](auto & f) {
            using F = std::decay_t<decltype(f)>;
            const F & cf = f;
            holder<F>(dst) = std::make_unique<F>(cf);
        });
        dst.m = src.m;
        dst.st = Live;
        return true;
    }

    bool op_move_construct(std::size_t i, std::size_t j)
    {
        if (i == j || slots[i].st != Live) {
            return false;
        }
        Slot & src = slots[i];
        Slot & dst = slots[j];
        dst.kill();
        visit(src, [&](auto & f) {
            using F = std::decay_t<decltype(f)>;
            holder<F>(dst) = std::make_unique<F>(std::move(f));
        });
        dst.m = src.m;
        dst.st = Live;
        src.st = Unspecified;
        src.m = M{};
        return true;
    }

    // dst = src; if the layouts differ, dst = field<dst layout>(src).
    bool op_copy_assign(std::size_t i, std::size_t j)
    {
        Slot & src = slots[i];
        Slot & dst = slots[j];
        if (src.st != Live || dst.st == Dead) {
            return false;
        }
        visit(src, [&](auto & f) {
            using F = std::decay_t<decltype(f)>;
            const F & cf = f;
            visit(dst, [&](auto & g) {
                using G = std::decay_t<decltype(g)>;
                if constexpr (std::is_same_v<F, G>) {
                    g = cf;
                } else {
                    g = G(cf);
                }
            });
        });
        if (i != j) {
            dst.m = src.m;
        }
        dst.st = Live;
        return true;
    }

    bool op_move_assign(std::size_t i, std::size_t j)
    {
        Slot & src = slots[i];
        Slot & dst = slots[j];
        if (src.st != Live || dst.st == Dead ||
            src.layout() != dst.layout())
        {
            return false;
        }
        visit(src, [&](auto & f) {
            using F = std::decay_t<decltype(f)>;
            F & g = *holder<F>(dst);
            g = std::move(f);
        });
        if (i != j) {
            dst.m = src.m;
            dst.st = Live;
            src.st = Unspecified;
            src.m = M{};
        }
        return true;
    }

    bool op_swap(std::size_t i, std::size_t j)
    {
        Slot & x = slots[i];
        Slot & y = slots[j];
        if (x.st != Live || y.st != Live || x.layout() != y.layout()) {
            return false;
        }
        visit(x, [&](auto & f) {
            using F = std::decay_t<decltype(f)>;
            F & g = *holder<F>(y);
            using std::swap;
            swap(f, g);
        });
        if (i != j) {
            std::swap(x.m, y.m);
        }
        return true;
    }

    bool op_convert(std::size_t i, std::size_t j, int layout, bool rvalue)
    {
        if (i == j || slots[i].st != Live || slots[i].layout() == layout) {
            return false;
        }
        Slot & src = slots[i];
        Slot & dst = slots[j];
        dst.kill();
        visit(src, [&](auto & f) {
            with_layout(layout, [&](auto * tag) {
                using G = covfie::field<std::remove_pointer_t<decltype(tag)>>;
                using F = std::decay_t<decltype(f)>;
                if constexpr (!std::is_same_v<F, G>) {
                    if (rvalue) {
                        holder<G>(dst) = std::make_unique<G>(std::move(f));
                    } else {
                        const F & cf = f;
                        holder<G>(dst) = std::make_unique<G>(cf);
                    }
                }
            });
        });
        dst.m = src.m;
        dst.st = Live;
        if (rvalue) {
            src.st = Unspecified;
            src.m = M{};
        }
        return true;
    }

    // Construct from a parameter pack which refers to (by_value == false) or
    // contains (by_value == true) the backend of another field.
    bool op_pack(std::size_t i, std::size_t j, bool by_value)
    {
        if (i == j || slots[i].st != Live) {
            return false;
        }
        Slot & src = slots[i];
        Slot & dst = slots[j];
        dst.kill();
        visit(src, [&](auto & f) {
            using F = std::decay_t<decltype(f)>;
            const F & cf = f;
            if (by_value) {
                typename F::storage_t st(cf.backend());
                holder<F>(dst) = std::make_unique<F>(
                    covfie::make_parameter_pack(std::move(st))
                );
            } else {
                holder<F>(dst) = std::make_unique<F>(
                    covfie::make_parameter_pack(cf.backend())
                );
            }
        });
        dst.m = src.m;
        dst.st = Live;
        return true;
    }

    bool op_dump_load(std::size_t i, std::size_t j)
    {
        if (i == j || slots[i].st != Live) {
            return false;
        }
        Slot & src = slots[i];
        Slot & dst = slots[j];
        dst.kill();
        visit(src, [&](auto & f) {
            using F = std::decay_t<decltype(f)>;
            const F & cf = f;
            std::string bytes = dump_to_string(cf);
            std::istringstream is(bytes);
            holder<F>(dst) = std::make_unique<F>(is);
            CHECK(dump_to_string(*holder<F>(dst)) == bytes);
            // A copy serializes to the very same bytes.
            F cp(cf);
            CHECK(dump_to_string(cp) == bytes);
            // A truncated stream must throw and not leak.
            if (bytes.size() > 9) {
                std::istringstream tr(bytes.substr(0, bytes.size() - 9));
                bool threw = false;
                try {
                    F broken(tr);
                } catch (const std::runtime_error &) {
                    threw = true;
                }
                CHECK(threw);
            }
        });
        dst.m = src.m;
        dst.st = Live;
        return true;
    }

    bool op_destroy(std::size_t i)
    {
        if (slots[i].st == Dead) {
            return false;
        }
        slots[i].kill();
        return true;
    }

    Ext<D> random_ext()
    {
        Ext<D> e;
        for (std::size_t k = 0; k < D; ++k) {
            // Zero extents now and then.
            e[k] = (rng() % 9 == 0) ? 0 : 1 + rng() % max_ext;
        }
        return e;
    }

    bool random_op()
    {
        std::size_t n = slots.size();
        std::size_t i = rng() % n;
        std::size_t j = rng() % n;
        int l = static_cast<int>(rng() % 3);
        switch (rng() % 16) {
            case 0:
                return op_create(i, l, random_ext());
            case 1:
            case 2:
                return op_write(i, rng());
            case 3:
                return op_copy_construct(i, j);
            case 4:
                return op_move_construct(i, j);
            case 5:
            case 6:
                return op_copy_assign(i, j);
            case 7:
            case 8:
                return op_move_assign(i, j);
            case 9:
                return op_swap(i, j);
            case 10:
                return op_convert(i, j, l, false);
            case 11:
                return op_convert(i, j, l, true);
            case 12:
                return op_pack(i, j, rng() & 1);
            case 13:
                return op_dump_load(i, j);
            case 14:
                return op_destroy(i);
            default:
                return op_default(i, l);
        }
    }

    void run_random(long steps)
    {
        for (long s = 0; s < steps; ++s) {
            if (random_op()) {
                verify_all();
            }
        }
        for (Slot & s : slots) {
            s.kill();
        }
    }

    // ----- exhaustive enumeration over a small alphabet on two slots -------
    static constexpr int ALPHABET = 30;

    bool alphabet_op(int a, const Ext<D> & e0, const Ext<D> & e1)
    {
        switch (a) {
            case 0:
                return op_create(0, 0, e0);
            case 1:
                return op_create(1, 0, e1);
            case 2:
                return op_create(1, 1, e1);
            case 3:
                return op_write(0, 0x0102030405060708ull + counter);
            case 4:
                return op_write(1, 0x0807060504030201ull + counter);
            case 5:
                return op_copy_construct(0, 1);
            case 6:
                return op_copy_construct(1, 0);
            case 7:
                return op_move_construct(0, 1);
            case 8:
                return op_move_construct(1, 0);
            case 9:
                return op_copy_assign(0, 1);
            case 10:
                return op_copy_assign(1, 0);
            case 11:
                return op_copy_assign(0, 0);
            case 12:
                return op_copy_assign(1, 1);
            case 13:
                return op_move_assign(0, 1);
            case 14:
                return op_move_assign(1, 0);
            case 15:
                return op_move_assign(0, 0);
            case 16:
                return op_move_assign(1, 1);
            case 17:
                return op_destroy(0);
            case 18:
                return op_destroy(1);
            case 19:
                return op_convert(0, 1, 1, false);
            case 20:
                return op_convert(1, 0, 0, false);
            case 21:
                return op_convert(0, 1, 2, true);
            case 22:
                return op_swap(0, 1);
            case 23:
                return op_swap(0, 0);
            case 24:
                return op_dump_load(0, 1);
            case 25:
                return op_pack(0, 1, false);
            case 26:
                return op_pack(1, 0, true);
            case 27:
                return op_default(1, 0);
            case 28:
                return op_default(0, 1);
            default:
                return op_create(0, 2, e1);
        }
    }

    // All sequences of exactly `len` operations, starting from slot 0 live.
    static long run_exhaustive(int len, const Ext<D> & e0, const Ext<D> & e1)
    {
        long total = 1;
        for (int k = 0; k < len; ++k) {
            total *= ALPHABET;
        }
        long executed = 0;
        for (long code = 0; code < total; ++code) {
            Harness h(2, 1, 3);
            h.op_create(0, 0, e0);
            long c = code;
            bool pruned = false;
            for (int k = 0; k < len; ++k) {
                int a = static_cast<int>(c % ALPHABET);
                c /= ALPHABET;
                if (!h.alphabet_op(a, e0, e1)) {
                    // Inapplicable operation: an equivalent shorter sequence
                    // is covered elsewhere.
                    pruned = true;
                    break;
                }
                h.verify_all();
            }
            if (!pruned) {
                ++executed;
            }
        }
        return executed;
    }
};

// ---------------------------------------------------------------------------
// Layout families.
// ---------------------------------------------------------------------------
namespace cb = covfie::backend;
namespace cv = covfie::vector;

using S1 = cb::strided<cv::size1, cb::array<cv::float3>>;
using M1 = cb::morton<cv::size1, cb::array<cv::float3>>;
using N1 = cb::morton<cv::size1, cb::array<cv::float3>, false>;

using S2 = cb::strided<cv::size2, cb::array<cv::float2>>;
using M2 = cb::morton<cv::size2, cb::array<cv::float2>>;
using N2 = cb::morton<cv::size2, cb::array<cv::float2>, false>;

using S3 = cb::strided<cv::size3, cb::array<cv::double3>>;
using M3 = cb::morton<cv::size3, cb::array<cv::double3>>;
using N3 = cb::morton<cv::size3, cb::array<cv::double3>, false>;

using S2d = cb::strided<cv::size2, cb::array<cv::double1>>;
using M2d = cb::morton<cv::size2, cb::array<cv::double1>>;
using N2d = cb::morton<cv::size2, cb::array<cv::double1>, false>;

using H1 = Harness<S1, M1, N1, 1, 3, float>;
using H2 = Harness<S2, M2, N2, 2, 2, float>;
using H3 = Harness<S3, M3, N3, 3, 3, double>;
using H2d = Harness<S2d, M2d, N2d, 2, 1, double>;

// ---------------------------------------------------------------------------
// Golden on-disk format.
// ---------------------------------------------------------------------------
template <typename T>
void put(std::string & s, T v)
{
    s.append(reinterpret_cast<const char *>(&v), sizeof(T));
}

template <typename L, std::size_t D, std::size_t C, typename S>
void golden(const Ext<D> & e, std::uint32_t layer_hdr)
{
    using F = covfie::field<L>;
    F f = make_field<L, D>(e);
    typename F::view_t v(f);

    std::size_t n;
    if constexpr (is_morton<L>::value) {
        std::size_t mx = 0;
        for (std::size_t k = 0; k < D; ++k) {
            mx = std::max(mx, e[k]);
        }
        std::size_t side = 1;
        while (side < mx) {
            side *= 2;
        }
        n = 1;
        for (std::size_t k = 0; k < D; ++k) {
            n *= side;
        }
    } else {
        n = volume<D>(e);
    }
    std::vector<S> raw(n * C, S(0));

    Model<D, C, S> m;
    m.ext = e;
    long ctr = 0;
    for_each_coord<D>(e, [&](const Ext<D> & c) {
        std::size_t idx = 0;
        if constexpr (is_morton<L>::value) {
            for (std::size_t bit = 0; bit < 16; ++bit) {
                for (std::size_t k = 0; k < D; ++k) {
                    idx |= ((c[k] >> bit) & 1u) << (bit * D + k);
                }
            }
        } else {
            idx = m.lin(c);
        }
        auto & el = v.at(to_coord<F, D>(c));
        for (std::size_t k = 0; k < C; ++k) {
            S x = static_cast<S>(++ctr) * static_cast<S>(0.25);
            el[k] = x;
            raw[idx * C + k] = x;
        }
    });

    std::string exp;
    put<std::uint32_t>(exp, 0xC04F1EAB);
    put<std::uint32_t>(exp, 0xAB000000);
    put<std::uint32_t>(exp, 0xC04F1EAB);
    put<std::uint32_t>(exp, layer_hdr);
    for (std::size_t k = 0; k < D; ++k) {
        put<std::uint64_t>(exp, e[k]);
    }
    put<std::uint32_t>(exp, 0xC04F1EAB);
    put<std::uint32_t>(exp, 0xAB010000);
    put<std::uint32_t>(exp, static_cast<std::uint32_t>(sizeof(S)));
    put<std::uint64_t>(exp, n);
    for (S x : raw) {
        put<S>(exp, x);
    }
    put<std::uint32_t>(exp, 0xC04F1E70);
    put<std::uint32_t>(exp, 0xAB010000 + 0x20000000);
    put<std::uint32_t>(exp, 0xC04F1E70);
    put<std::uint32_t>(exp, layer_hdr + 0x20000000);
    put<std::uint32_t>(exp, 0xC04F1E70);
    put<std::uint32_t>(exp, 0xAB000000u + 0x20000000u);

    CHECK(dump_to_string(f) == exp);

    // ... and the same bytes after a tour through every ownership operation.
    F a(f);
    F b(std::move(a));
    F c2 = make_field<L, D>(e);
    c2 = b;
    F d;
    d = std::move(c2);
    F & dref = d;
    d = dref;
    d = std::move(dref);
    CHECK(dump_to_string(d) == exp);
    CHECK(dump_to_string(b) == exp);
    CHECK(dump_to_string(f) == exp);

    // Conversion to the other layouts and back yields the same bytes again.
    if constexpr (D == 2 && std::is_same_v<S, float>) {
        covfie::field<S2> s(d);
        covfie::field<M2> mo(s);
        covfie::field<N2> no(mo);
        F back(no);
        CHECK(dump_to_string(back) == exp);
        CHECK(dump_to_string(mo).size() == dump_to_string(no).size());
    }
}

// ---------------------------------------------------------------------------
// Allocation failure sweep.
// ---------------------------------------------------------------------------
template <typename LA, typename LB, std::size_t D>
void alloc_sweep(const Ext<D> & ea, const Ext<D> & eb)
{
    using FA = covfie::field<LA>;
    using FB = covfie::field<LB>;

    auto fill = [&](auto & f, const Ext<D> & e, double base) {
        using F = std::decay_t<decltype(f)>;
        typename F::view_t v(f);
        double x = base;
        for_each_coord<D>(e, [&](const Ext<D> & c) {
            auto & el = v.at(to_coord<F, D>(c));
            for (std::size_t k = 0; k < el.size(); ++k) {
                el[k] = static_cast<std::decay_t<decltype(el[k])>>(x);
                x += 1.0;
            }
        });
    };
    auto equal = [&](const auto & f, const auto & g, const Ext<D> & e) {
        using F = std::decay_t<decltype(f)>;
        using G = std::decay_t<decltype(g)>;
        auto cf = f.backend().get_configuration();
        auto cg = g.backend().get_configuration();
        for (std::size_t k = 0; k < D; ++k) {
            if (cf[k] != e[k] || cg[k] != e[k]) {
                return false;
            }
        }
        typename F::view_t vf(f);
        typename G::view_t vg(g);
        bool ok = true;
        for_each_coord<D>(e, [&](const Ext<D> & c) {
            auto & x = vf.at(to_coord<F, D>(c));
            auto & y = vg.at(to_coord<G, D>(c));
            for (std::size_t k = 0; k < x.size(); ++k) {
                ok = ok && (x[k] == y[k]);
            }
        });
        return ok;
    };

    FA src = make_field<LA, D>(ea);
    fill(src, ea, 100.0);
    FA old = make_field<LA, D>(eb);
    fill(old, eb, 500.0);
    const FA old_copy(old);

    // A generic driver: `attempt` is run with the k-th allocation failing,
    // for k = 0, 1, ... until it completes without hitting the fault.
    auto sweep = [&](auto && attempt, auto && after_failure) {
        for (long k = 0; k < 100000; ++k) {
            long before = g_live_allocs.load();
            g_fail_countdown = k;
            bool failed = false;
            try {
                attempt();
            } catch (const std::bad_alloc &) {
                failed = true;
            }
            bool fault_consumed = (g_fail_countdown == -1);
            g_fail_countdown = -1;
            if (failed) {
                // Nothing allocated by the failed attempt survives.
                CHECK(g_live_allocs.load() == before);
                after_failure();
                continue;
            }
            if (!fault_consumed) {
                return k;
            }
            // The fault was swallowed: not acceptable for these operations.
            CHECK(false);
        }
        CHECK(false);
        return -1l;
    };

    // 1. copy construction
    sweep(
        [&] {
            FA c(src);
            CHECK(equal(c, src, ea));
        },
        [] {}
    );

    // 2. copy assignment onto a live field of another shape
    {
        FA dst(old);
        sweep(
            [&] { dst = src; },
            [&] {
#ifdef DEMO_EXPECT_STRONG
                CHECK(equal(dst, old_copy, eb));
#endif
                // Whatever state it is in, it can be assigned to again.
                dst = old;
                CHECK(equal(dst, old_copy, eb));
            }
        );
        CHECK(equal(dst, src, ea));
        CHECK(equal(old, old_copy, eb));
    }

    // 3. layout conversion (construction) and conversion-assignment
    {
        sweep(
            [&] {
                FB c(src);
                CHECK(equal(c, src, ea));
            },
            [] {}
        );
        FB dst{FB(old)};
        sweep(
            [&] { dst = FB(src); },
            [&] {
                // Here the failure happens before the assignment proper.
                CHECK(equal(dst, old_copy, eb));
            }
        );
        CHECK(equal(dst, src, ea));
    }

    // 4. parameter pack construction, fresh and from an existing backend
    {
        sweep(
            [&] {
                FA c = make_field<LA, D>(ea);
                FB d = make_field<LB, D>(eb);
                (void)c;
                (void)d;
            },
            [] {}
        );
        sweep(
            [&] {
                FA c(covfie::make_parameter_pack(src.backend()));
                CHECK(equal(c, src, ea));
            },
            [] {}
        );
        sweep(
            [&] {
                typename FA::storage_t st(src.backend());
                FA c(covfie::make_parameter_pack(std::move(st)));
                CHECK(equal(c, src, ea));
            },
            [] {}
        );
    }

    // 5. moves never allocate
    {
        FA a(src);
        FA c;
        FA d(old);
        g_fail_countdown = 0;
        FA b(std::move(a));
        c = std::move(b);
        FA & cref = c;
        c = std::move(cref);
        using std::swap;
        swap(c, d);
        CHECK(g_fail_countdown == 0);
        g_fail_countdown = -1;
        CHECK(equal(d, src, ea));
        CHECK(equal(c, old_copy, eb));
    }
    CHECK(equal(src, src, ea));
}

// ---------------------------------------------------------------------------
// Threads: shared const source, concurrent readers.
// ---------------------------------------------------------------------------
void thread_test(int nthreads, int rounds)
{
    const Ext<2> e{5, 3};
    covfie::field<S2> s0 = make_field<S2, 2>(e);
    {
        covfie::field<S2>::view_t v(s0);
        float x = 1.0f;
        for_each_coord<2>(e, [&](const Ext<2> & c) {
            auto & el = v.at(to_coord<covfie::field<S2>, 2>(c));
            el[0] = x;
            el[1] = -x;
            x += 1.0f;
        });
    }
    const covfie::field<S2> & src = s0;
    const covfie::field<M2> msrc(src);
    const std::string sbytes = dump_to_string(src);
    const std::string mbytes = dump_to_string(msrc);

    std::atomic<int> bad{0};
    std::vector<std::thread> ts;
    for (int t = 0; t < nthreads; ++t) {
        ts.emplace_back([&, t] {
            for (int r = 0; r < rounds; ++r) {
                covfie::field<S2> a(src);
                covfie::field<M2> b(src);
                covfie::field<N2> c(msrc);
                covfie::field<S2> d(msrc);
                covfie::field<S2> g;
                g = src;
                covfie::field<M2> hh;
                hh = msrc;

                // Private writes into private copies.
                covfie::field<S2>::view_t va(a);
                va.at(std::size_t(t % 5), std::size_t(r % 3))[0] = 1000.f + t;
                covfie::field<M2>::view_t vb(b);
                vb.at(std::size_t(r % 5), std::size_t(t % 3))[1] = 2000.f + t;

                std::ostringstream o1, o2, o3, o4, o5;
                src.dump(o1);
                msrc.dump(o2);
                d.dump(o3);
                g.dump(o4);
                hh.dump(o5);
                if (o1.str() != sbytes || o2.str() != mbytes ||
                    o3.str() != sbytes || o4.str() != sbytes ||
                    o5.str() != mbytes)
                {
                    ++bad;
                }
                covfie::field<S2> back(c);
                std::ostringstream o6;
                back.dump(o6);
                if (o6.str() != sbytes) {
                    ++bad;
                }
                covfie::field<S2>::view_t vs(src);
                if (vs.at(std::size_t(t % 5), std::size_t(r % 3))[0] >= 1000.f)
                {
                    ++bad;
                }
                a = std::move(d);
                b = covfie::field<M2>(a);
            }
        });
    }
    for (auto & t : ts) {
        t.join();
    }
    CHECK(bad.load() == 0);
    CHECK(dump_to_string(src) == sbytes);
    CHECK(dump_to_string(msrc) == mbytes);
}

// ---------------------------------------------------------------------------
// Plain array fields.
// ---------------------------------------------------------------------------
template <typename V, typename S, std::size_t C>
void array_test()
{
    using A = cb::array<V>;
    using F = covfie::field<A>;

    for (std::size_t n : {std::size_t(0), std::size_t(1), std::size_t(7)}) {
        F f(covfie::make_parameter_pack(typename A::configuration_t{n}));
        std::vector<S> model(n * C);
        {
            typename F::view_t v(f);
            for (std::size_t i = 0; i < n; ++i) {
                for (std::size_t k = 0; k < C; ++k) {
                    CHECK(v.at(i)[k] == S(0));
                    model[i * C + k] = S(i * 10 + k) + S(0.5);
                    v.at(i)[k] = model[i * C + k];
                }
            }
        }
        auto same = [&](const F & g, const std::vector<S> & m) {
            CHECK(g.backend().get_configuration()[0] == m.size() / C);
            typename F::view_t v(g);
            for (std::size_t i = 0; i < m.size() / C; ++i) {
                for (std::size_t k = 0; k < C; ++k) {
                    CHECK(v.at(i)[k] == m[i * C + k]);
                }
            }
        };
        F a(f);
        same(a, model);
        if (n > 0) {
            typename F::view_t va(a);
            va.at(std::size_t(0))[0] = S(-1);
            same(f, model);
            typename F::view_t vf(f);
            CHECK(va.at(std::size_t(0))[0] == S(-1));
            CHECK(vf.at(std::size_t(0))[0] == model[0]);
        }
        F & aref = a;
        a = f;
        a = aref;
        same(a, model);
        a = std::move(aref);
        same(a, model);
        F b(std::move(a));
        same(b, model);
        a = b;
        same(a, model);
        same(b, model);
        F c;
        c = std::move(b);
        same(c, model);
        b = c;
        same(b, model);
        std::string bytes = dump_to_string(c);
        std::istringstream is(bytes);
        F d(is);
        same(d, model);
        CHECK(dump_to_string(d) == bytes);
        using std::swap;
        F z(covfie::make_parameter_pack(typename A::configuration_t{std::size_t(3)}));
        swap(z, d);
        same(z, model);
        CHECK(d.backend().get_configuration()[0] == 3);
        typename F::storage_t st(z.backend());
        F fromval(covfie::make_parameter_pack(std::move(st)));
        same(fromval, model);
        same(z, model);
    }
}

// ---------------------------------------------------------------------------
int main(int argc, char ** argv)
{
    const bool quick = argc > 1 && std::string(argv[1]) == "quick";
    const long before = g_live_allocs.load();

    // Golden format: strided, Morton (both index implementations).
    golden<S2, 2, 2, float>({2, 3}, 0xAB020010);
    golden<S2, 2, 2, float>({0, 3}, 0xAB020010);
    golden<S2, 2, 2, float>({1, 1}, 0xAB020010);
    golden<M2, 2, 2, float>({2, 3}, 0xAB020006);
    golden<N2, 2, 2, float>({5, 2}, 0xAB020006);
    golden<M2, 2, 2, float>({0, 0}, 0xAB020006);
    golden<S3, 3, 3, double>({2, 1, 3}, 0xAB020010);
    golden<M3, 3, 3, double>({3, 2, 1}, 0xAB020006);
    golden<N3, 3, 3, double>({1, 4, 2}, 0xAB020006);
    golden<S1, 1, 3, float>({5}, 0xAB020010);
    golden<M1, 1, 3, float>({5}, 0xAB020006);

    array_test<cv::float3, float, 3>();
    array_test<cv::double1, double, 1>();
    array_test<cv::double4, double, 4>();

    // Exhaustive: all operation sequences of length 1..3 (and length 4 for
    // the 2D float family; 1..2 in quick mode) over a 30 letter alphabet on
    // two slots.
    long executed = 0;
    for (int len = 1; len <= (quick ? 2 : 3); ++len) {
        executed += H2::run_exhaustive(len, {2, 3}, {3, 1});
        executed += H3::run_exhaustive(len, {1, 2, 2}, {2, 1, 3});
    }
    if (!quick) {
        executed += H2::run_exhaustive(4, {2, 2}, {1, 3});
    }
    executed += H1::run_exhaustive(2, {3}, {5});
    executed += H2d::run_exhaustive(2, {0, 2}, {2, 2});

    // Random long histories.
    const long steps = quick ? 300 : 20000;
    for (std::uint64_t seed = 1; seed <= (quick ? 2u : 6u); ++seed) {
        H1(5, seed, 9).run_random(steps);
        H2(5, seed * 77, 5).run_random(steps);
        H3(4, seed * 1234567, 4).run_random(steps / 2);
        H2d(6, seed + 99, 6).run_random(steps);
    }

    // Allocation failure sweep.
#ifndef DEMO_NO_NEW_HOOK
    alloc_sweep<S2, M2, 2>({3, 2}, {2, 5});
    alloc_sweep<M2, S2, 2>({3, 2}, {1, 1});
    alloc_sweep<N2, M2, 2>({4, 4}, {0, 2});
    alloc_sweep<S3, N3, 3>({2, 2, 3}, {1, 1, 1});
    alloc_sweep<M3, S3, 3>({1, 3, 2}, {2, 2, 2});
    alloc_sweep<S1, M1, 1>({6}, {2});
#endif

    // Threads.
    thread_test(quick ? 3 : 6, quick ? 20 : 150);

    // Everything which was allocated by the field operations is gone again.
    CHECK(g_live_allocs.load() == before);

    CHECK(g_checks > 1000);
    std::printf("PASS (%ld exhaustive sequences)\n", executed);
    return 0;
}
