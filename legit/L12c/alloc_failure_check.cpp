/*
 * Allocation-failure injection: every copy/assign/convert either completes or
 * leaves the destination untouched, and never leaks. Uses the new member
 * swap, so it needs the change applied.
 *
 *   g++ -std=c++20 -O1 -g -fsanitize=address,undefined -fno-sanitize-recover=all \
 *       -I lib/core seeded/alloc_failure_check.cpp -o exc && ./exc
 */
#include <cstdio>
#include <cstdlib>
#include <new>
#include <sstream>
#include <covfie/core/backend/primitive/array.hpp>
#include <covfie/core/backend/transformer/morton.hpp>
#include <covfie/core/backend/transformer/strided.hpp>
#include <covfie/core/field.hpp>
#include <covfie/core/parameter_pack.hpp>
static long g_fail_at = -1; static long g_count = 0;
void * operator new(std::size_t n) { if (g_fail_at >= 0 && g_count++ == g_fail_at) throw std::bad_alloc(); void * p = std::malloc(n ? n : 1); if (!p) throw std::bad_alloc(); return p; }
void * operator new[](std::size_t n) { return operator new(n); }
void operator delete(void * p) noexcept { std::free(p); }
void operator delete[](void * p) noexcept { std::free(p); }
void operator delete(void * p, std::size_t) noexcept { std::free(p); }
void operator delete[](void * p, std::size_t) noexcept { std::free(p); }
namespace be = covfie::backend; namespace vec = covfie::vector;
#define CHECK(c) do { if (!(c)) { std::printf("FAIL line %d: %s\n", __LINE__, #c); std::exit(1);} } while (0)
template <typename F> void fill(F & f, float base) { typename F::view_t v(f); auto c = f.backend().get_configuration(); for (std::size_t x = 0; x < c[0]; ++x) for (std::size_t y = 0; y < c[1]; ++y) v.at(x, y)[0] = base + 10.f * x + y; }
template <typename F> bool same(const F & f, float base, std::size_t X, std::size_t Y) { typename F::view_t v(f); auto c = f.backend().get_configuration(); if (c[0] != X || c[1] != Y) return false; for (std::size_t x = 0; x < X; ++x) for (std::size_t y = 0; y < Y; ++y) if (v.at(x, y)[0] != base + 10.f * x + y) return false; return true; }
template <typename F, typename Op> void attempt(Op op) {
    using conf = typename F::backend_t::configuration_t;
    using S = covfie::field<be::strided<vec::size2, be::array<vec::float1>>>;
    for (long k = 0; k < 8; ++k) {
        S a0(covfie::make_parameter_pack(conf{3u, 4u})); fill(a0, 100); S b0(covfie::make_parameter_pack(conf{2u, 5u})); fill(b0, 500);
        F a(a0), b(b0);
        g_count = 0; g_fail_at = k; bool threw = false;
        try { op(a, b); } catch (const std::bad_alloc &) { threw = true; }
        g_fail_at = -1;
        CHECK(same(a, 100, 3, 4));
        if (threw) { CHECK(same(b, 500, 2, 5)); } else { CHECK(same(b, 100, 3, 4)); }
    }
}
int main() {
    using S = covfie::field<be::strided<vec::size2, be::array<vec::float1>>>;
    using M = covfie::field<be::morton<vec::size2, be::array<vec::float1>>>;
    attempt<S>([](S & a, S & b) { b = a; });
    attempt<M>([](M & a, M & b) { b = a; });
    attempt<S>([](S & a, S & b) { S c(a); b = std::move(c); });
    attempt<M>([](M & a, M & b) { M c(a); b.swap(c); });
    attempt<S>([](S & a, S & b) { M m(a); S c(m); b = c; });
    std::printf("PASS\n");
}
