/*
 * Value-semantics exerciser for covfie fields (property C12).
 *
 * Compile (from the root of the covfie checkout):
 *
 *   g++ -std=c++20 -O2 -g -pthread -I lib/core seeded/demo.cpp -o demo
 *
 * and also, to cover the other build modes:
 *
 *   g++ -std=c++20 -O2 -g -DNDEBUG -pthread -I lib/core seeded/demo.cpp -o demo
 *   g++ -std=c++20 -O1 -g -pthread -fsanitize=address,undefined \
 *       -fno-sanitize-recover=all -I lib/core seeded/demo.cpp -o demo_asan
 *   g++ -std=c++20 -O1 -g -pthread -fsanitize=thread \
 *       -I lib/core seeded/demo.cpp -o demo_tsan
 *
 * Run:  ./demo [random-steps-per-family] [exhaustive-depth] [threads]
 *       (defaults 3000 3 4; use e.g. "400 2 2" under valgrind)
 *
 * The program prints PASS and exits 0 if every live field always holds the
 * values which a plain N-dimensional array model holds after the same
 * history; it prints FAIL and exits 1 otherwise.
 *
 * It deliberately only relies on what the library *guarantees*: it never
 * looks at a moved-from field (it only assigns to it, copies from it without
 * inspecting the result, swaps it or destroys it), so it passes both with
 * and without the change it accompanies.
 */

#include <array>
#include <atomic>
#include <cstdint>
#include <cstdio>
#include <cstdlib>
#include <cstring>
#include <optional>
#include <random>
#include <sstream>
#include <string>
#include <thread>
#include <tuple>
#include <type_traits>
#include <utility>
#include <vector>

#include <covfie/core/backend/primitive/array.hpp>
#include <covfie/core/backend/transformer/morton.hpp>
#include <covfie/core/backend/transformer/strided.hpp>
#include <covfie/core/field.hpp>
#include <covfie/core/field_view.hpp>
#include <covfie/core/parameter_pack.hpp>
#include <covfie/core/vector.hpp>

namespace {
std::atomic<bool> g_failed{false};
std::atomic<unsigned long> g_checks{0};
std::atomic<unsigned long> g_ops{0};

#define REQUIRE(cond, ...)                                                     \
    do {                                                                       \
        if (!(cond)) {                                                         \
            if (!g_failed.exchange(true)) {                                    \
                std::fprintf(stderr, "FAIL %s:%d: %s: ", __FILE__, __LINE__, #cond); \
                std::fprintf(stderr, __VA_ARGS__);                             \
                std::fprintf(stderr, "\n");                                    \
            }                                                                  \
            return;                                                            \
        }                                                                      \
    } while (0)

/*
 * Type traits of the field types under test.
 */
template <typename B>
struct is_morton : std::false_type {
};

template <typename V, typename S, bool M>
struct is_morton<covfie::backend::morton<V, S, M>> : std::true_type {
};

template <typename B>
struct strided_partner {
    using type = B;
};

template <typename V, typename S, bool M>
struct strided_partner<covfie::backend::morton<V, S, M>> {
    using type = covfie::backend::strided<V, S>;
};

template <typename F>
struct ft {
    using B = typename F::backend_t;
    static constexpr std::size_t N = B::contravariant_input_t::dimensions;
    static constexpr std::size_t C = B::covariant_output_t::dimensions;
    using scalar = typename B::covariant_output_t::scalar_t;
    using cscalar = typename B::contravariant_input_t::scalar_t;
    using conf = typename B::configuration_t;
    static constexpr bool morton = is_morton<B>::value;
};

/*
 * Which layout conversions the library offers: a strided layer reads its
 * source with `size_t` coordinates, a Morton layer with its own coordinate
 * type. (Same-type "conversions" are plain copies and moves.)
 */
template <typename FD, typename FS>
constexpr bool can_convert =
    std::is_same_v<FD, FS> ||
    (ft<FD>::morton
         ? std::is_same_v<typename ft<FS>::cscalar, typename ft<FD>::cscalar>
         : std::is_same_v<typename ft<FS>::cscalar, std::size_t>);

/*
 * The reference model: extents plus row-major values, component innermost.
 */
struct model {
    std::vector<std::size_t> ext;
    std::vector<double> v;
    std::size_t comps = 0;

    std::size_t count() const
    {
        std::size_t n = 1;
        for (std::size_t e : ext) {
            n *= e;
        }
        return n;
    }
};

template <typename Fn>
void for_each_coord(const std::vector<std::size_t> & ext, Fn && fn)
{
    std::size_t n = 1;
    for (std::size_t e : ext) {
        n *= e;
    }
    std::vector<std::size_t> c(ext.size(), 0);
    for (std::size_t lin = 0; lin < n; ++lin) {
        fn(c, lin);
        for (std::size_t k = ext.size(); k-- > 0;) {
            if (++c[k] < ext[k]) {
                break;
            }
            c[k] = 0;
        }
    }
}

template <typename F>
typename F::coordinate_t to_coord(const std::vector<std::size_t> & c)
{
    typename F::coordinate_t r;
    for (std::size_t i = 0; i < ft<F>::N; ++i) {
        r[i] = static_cast<typename ft<F>::cscalar>(c[i]);
    }
    return r;
}

template <typename F>
F make_fresh(const std::vector<std::size_t> & ext)
{
    if constexpr (ft<F>::morton) {
        using S = covfie::field<
            typename strided_partner<typename F::backend_t>::type>;
        S tmp = make_fresh<S>(ext);
        return F(tmp);
    } else {
        typename ft<F>::conf c;
        for (std::size_t i = 0; i < ft<F>::N; ++i) {
            c[i] = ext[i];
        }
        return F(covfie::make_parameter_pack(typename ft<F>::conf(c)));
    }
}

/*
 * The central check: the field equals the model.
 */
template <typename F>
void check_equal(const F & f, const model & m, const char * what)
{
    auto conf = f.backend().get_configuration();
    for (std::size_t i = 0; i < ft<F>::N; ++i) {
        REQUIRE(conf[i] == m.ext[i], "%s: extent %zu is %zu, model says %zu", what, i, static_cast<std::size_t>(conf[i]), m.ext[i]);
    }
    typename F::view_t fv(f);
    bool ok = true;
    for_each_coord(m.ext, [&](const std::vector<std::size_t> & c, std::size_t lin) {
        auto & p = fv.at(to_coord<F>(c));
        for (std::size_t j = 0; j < ft<F>::C; ++j) {
            if (static_cast<double>(p[j]) != m.v[lin * ft<F>::C + j]) {
                ok = false;
            }
        }
    });
    g_checks.fetch_add(1, std::memory_order_relaxed);
    REQUIRE(ok, "%s: field contents differ from the model", what);
}

/*
 * The bytes which a strided-over-array field must serialise to.
 */
template <typename F>
std::string expected_strided_bytes(const model & m)
{
    std::string s;
    auto put32 = [&s](std::uint32_t x) { s.append(reinterpret_cast<const char *>(&x), 4); };
    auto put64 = [&s](std::uint64_t x) { s.append(reinterpret_cast<const char *>(&x), 8); };
    const std::uint32_t H = 0xC04F1EABu, T = 0xC04F1E70u;
    put32(H); put32(0xAB000000u);
    put32(H); put32(0xAB020010u);
    for (std::size_t e : m.ext) { put64(e); }
    put32(H); put32(0xAB010000u);
    put32(static_cast<std::uint32_t>(sizeof(typename ft<F>::scalar)));
    put64(m.count());
    for (double d : m.v) {
        typename ft<F>::scalar x = static_cast<typename ft<F>::scalar>(d);
        s.append(reinterpret_cast<const char *>(&x), sizeof(x));
    }
    put32(T); put32(0xAB010000u + 0x20000000u);
    put32(T); put32(0xAB020010u + 0x20000000u);
    put32(T); put32(0xAB000000u + 0x20000000u);
    return s;
}

enum state { ABSENT, LIVE, HOLLOW };

template <typename F>
struct slot {
    using field_t = F;
    std::optional<F> f;
    state st = ABSENT;
    model m;
};

/*
 * Source of decisions: `choose` enumerates (exhaustive mode) or draws
 * (random mode); `aux` supplies data which is never enumerated.
 */
struct chooser {
    bool random = true;
    std::mt19937_64 rng;
    std::vector<int> trace, limit;
    std::size_t pos = 0;
    std::uint64_t auxc = 0;

    int choose(int n)
    {
        if (random) {
            return static_cast<int>(rng() % static_cast<unsigned>(n));
        }
        if (pos == trace.size()) {
            trace.push_back(0);
            limit.push_back(n);
        }
        return trace[pos++];
    }

    std::size_t aux(std::size_t n)
    {
        if (random) {
            return static_cast<std::size_t>(rng() % n);
        }
        auxc = auxc * 6364136223846793005ull + 1442695040888963407ull;
        return static_cast<std::size_t>((auxc >> 33) % n);
    }

    /* Advance to the next decision vector; false when exhausted. */
    bool next()
    {
        trace.resize(pos);
        limit.resize(pos);
        while (!trace.empty()) {
            if (++trace.back() < limit.back()) {
                pos = 0;
                auxc = 0;
                return true;
            }
            trace.pop_back();
            limit.pop_back();
        }
        return false;
    }
};

template <std::size_t K, typename... Fs>
struct family {
    static constexpr std::size_t NT = sizeof...(Fs);
    static constexpr std::size_t NK = K;
    std::tuple<std::array<slot<Fs>, K>...> pools;
    using first_t = std::tuple_element_t<0, std::tuple<Fs...>>;
    static constexpr std::size_t N = ft<first_t>::N;
    static constexpr std::size_t C = ft<first_t>::C;
    double next_value = 0;
    const std::vector<std::pair<first_t, model>> * shared = nullptr;

    double fresh_value()
    {
        next_value += 1.0;
        if (next_value > 4000.0) {
            next_value = 1.0;
        }
        return next_value * 0.25 - 300.0;
    }

    template <typename Fn, std::size_t I = 0>
    void with_slot(std::size_t t, std::size_t i, Fn && fn)
    {
        if constexpr (I < NT) {
            if (t == I) {
                fn(std::get<I>(pools)[i]);
            } else {
                with_slot<Fn, I + 1>(t, i, std::forward<Fn>(fn));
            }
        }
    }

    void verify_all(const char * what)
    {
        for (std::size_t t = 0; t < NT; ++t) {
            for (std::size_t i = 0; i < K; ++i) {
                with_slot(t, i, [&](auto & s) {
                    if (s.st == LIVE) {
                        check_equal(*s.f, s.m, what);
                    }
                });
            }
        }
    }
};

template <typename F>
model zero_model(const std::vector<std::size_t> & ext)
{
    model m;
    m.ext = ext;
    m.comps = ft<F>::C;
    m.v.assign(m.count() * ft<F>::C, 0.0);
    return m;
}

template <typename S, typename Fam>
void do_write(S & s, Fam & fam, std::size_t lin_only, bool all)
{
    using F = typename S::field_t;
    typename F::view_t fv(*s.f);
    for_each_coord(s.m.ext, [&](const std::vector<std::size_t> & c, std::size_t lin) {
        if (!all && lin != lin_only) {
            return;
        }
        auto & p = fv.at(to_coord<F>(c));
        for (std::size_t j = 0; j < ft<F>::C; ++j) {
            double d = fam.fresh_value();
            p[j] = static_cast<typename ft<F>::scalar>(d);
            s.m.v[lin * ft<F>::C + j] = d;
        }
    });
}

enum kind {
    K_FRESH,
    K_POKE,
    K_FILL,
    K_COPY_CONSTRUCT,
    K_COPY_ASSIGN,
    K_MOVE_CONSTRUCT,
    K_MOVE_ASSIGN,
    K_SWAP,
    K_DUMP_LOAD,
    K_DESTROY,
    K_FROM_SHARED,
    K_COUNT
};

/*
 * Perform one operation on both the fields and the model. Returns false if
 * the decisions drawn do not describe a permissible operation (in which
 * case nothing was done).
 */
template <typename Fam>
bool step(Fam & fam, chooser & ch, const std::vector<std::vector<std::size_t>> & extents)
{
    const int k = ch.choose(fam.shared ? K_COUNT : K_FROM_SHARED);
    const std::size_t dt = static_cast<std::size_t>(ch.choose(Fam::NT));
    const std::size_t di = static_cast<std::size_t>(ch.choose(Fam::NK));
    bool done = false;

    auto two = [&](auto && fn) {
        const std::size_t st = static_cast<std::size_t>(ch.choose(Fam::NT));
        const std::size_t si = static_cast<std::size_t>(ch.choose(Fam::NK));
        fam.with_slot(dt, di, [&](auto & d) {
            fam.with_slot(st, si, [&](auto & s) {
                fn(d, s, dt == st && di == si);
            });
        });
    };

    switch (k) {
        case K_FRESH: {
            const std::size_t e = static_cast<std::size_t>(
                ch.choose(static_cast<int>(extents.size()) + 1)
            );
            fam.with_slot(dt, di, [&](auto & d) {
                using F = typename std::decay_t<decltype(d)>::field_t;
                if (e == extents.size()) {
                    /* A default-constructed field is an empty field. */
                    const std::size_t how = ch.aux(3);
                    if (how == 0 || d.st == ABSENT) {
                        d.f.emplace(F{});
                    } else if (how == 1) {
                        F tmp{};
                        *d.f = tmp;
                    } else {
                        *d.f = F{};
                    }
                    d.m = zero_model<F>(std::vector<std::size_t>(ft<F>::N, 0));
                } else {
                    d.f.emplace(make_fresh<F>(extents[e]));
                    d.m = zero_model<F>(extents[e]);
                }
                d.st = LIVE;
                done = true;
            });
            break;
        }
        case K_POKE:
        case K_FILL:
            fam.with_slot(dt, di, [&](auto & d) {
                if (d.st != LIVE || d.m.count() == 0) {
                    return;
                }
                do_write(d, fam, ch.aux(d.m.count()), k == K_FILL);
                done = true;
            });
            break;
        case K_COPY_CONSTRUCT:
        case K_MOVE_CONSTRUCT:
            two([&](auto & d, auto & s, bool same_slot) {
                using FD = typename std::decay_t<decltype(d)>::field_t;
                using FS = typename std::decay_t<decltype(s)>::field_t;
                constexpr bool same_type = std::is_same_v<FD, FS>;
                if constexpr (can_convert<FD, FS>) {
                    if (same_slot || s.st == ABSENT ||
                        (!same_type && s.st != LIVE)) {
                        return;
                    }
                    /* Keep an independent copy of the source model. */
                    model sm = s.m;
                    state ss = s.st;
                    if (k == K_COPY_CONSTRUCT) {
                        d.f.emplace(*s.f);
                    } else {
                        d.f.emplace(std::move(*s.f));
                        s.st = HOLLOW;
                    }
                    d.m = sm;
                    d.st = ss;
                    done = true;
                }
            });
            break;
        case K_COPY_ASSIGN:
        case K_MOVE_ASSIGN:
            two([&](auto & d, auto & s, bool same_slot) {
                using FD = typename std::decay_t<decltype(d)>::field_t;
                using FS = typename std::decay_t<decltype(s)>::field_t;
                if (d.st == ABSENT || s.st == ABSENT) {
                    return;
                }
                model sm = s.m;
                state ss = s.st;
                if constexpr (std::is_same_v<FD, FS>) {
                    if (k == K_COPY_ASSIGN) {
                        const FS & src = *s.f;
                        *d.f = src;
                    } else {
                        FS & src = *s.f;
                        *d.f = std::move(src);
                        if (!same_slot) {
                            s.st = HOLLOW;
                        }
                    }
                } else if constexpr (can_convert<FD, FS>) {
                    if (s.st != LIVE) {
                        return;
                    }
                    if (k == K_COPY_ASSIGN) {
                        *d.f = FD(*s.f);
                    } else {
                        *d.f = FD(std::move(*s.f));
                        s.st = HOLLOW;
                    }
                } else {
                    return;
                }
                if (!same_slot) {
                    d.m = sm;
                    d.st = ss;
                }
                done = true;
            });
            break;
        case K_SWAP:
            two([&](auto & d, auto & s, bool) {
                using FD = typename std::decay_t<decltype(d)>::field_t;
                using FS = typename std::decay_t<decltype(s)>::field_t;
                if constexpr (std::is_same_v<FD, FS>) {
                    if (d.st == ABSENT || s.st == ABSENT) {
                        return;
                    }
                    using std::swap;
                    swap(*d.f, *s.f);
                    swap(d.m, s.m);
                    swap(d.st, s.st);
                    done = true;
                }
            });
            break;
        case K_DUMP_LOAD:
            two([&](auto & d, auto & s, bool same_slot) {
                using FD = typename std::decay_t<decltype(d)>::field_t;
                using FS = typename std::decay_t<decltype(s)>::field_t;
                if constexpr (ft<FD>::morton == ft<FS>::morton) {
                    if (s.st != LIVE) {
                        return;
                    }
                    std::stringstream ss;
                    s.f->dump(ss);
                    if constexpr (!ft<FS>::morton) {
                        if (ss.str() != expected_strided_bytes<FS>(s.m)) {
                            REQUIRE(false, "dump bytes differ from the documented format");
                        }
                    }
                    model sm = s.m;
                    if (same_slot) {
                        FD tmp(ss);
                        *d.f = std::move(tmp);
                    } else {
                        d.f.emplace(ss);
                    }
                    d.m = sm;
                    d.st = LIVE;
                    done = true;
                }
            });
            break;
        case K_DESTROY:
            fam.with_slot(dt, di, [&](auto & d) {
                if (d.st == ABSENT) {
                    return;
                }
                d.f.reset();
                d.st = ABSENT;
                done = true;
            });
            break;
        case K_FROM_SHARED: {
            /*
             * Sources which other threads read at the same time.
             */
            const auto & sh = *fam.shared;
            const std::size_t j = ch.aux(sh.size());
            const int how = ch.choose(3);
            fam.with_slot(dt, di, [&](auto & d) {
                using FD = typename std::decay_t<decltype(d)>::field_t;
                using FS = typename Fam::first_t;
                if constexpr (std::is_same_v<FD, FS>) {
                    if (how == 0 || d.st == ABSENT) {
                        d.f.emplace(sh[j].first);
                    } else if (how == 1) {
                        *d.f = sh[j].first;
                    } else {
                        FS tmp(sh[j].first);
                        *d.f = std::move(tmp);
                    }
                } else if constexpr (can_convert<FD, FS>) {
                    if (how == 0 || d.st == ABSENT) {
                        d.f.emplace(sh[j].first);
                    } else {
                        *d.f = FD(sh[j].first);
                    }
                } else {
                    return;
                }
                d.m = sh[j].second;
                d.st = LIVE;
                done = true;
            });
            break;
        }
        default:
            break;
    }

    return done;
}

std::vector<std::vector<std::size_t>> random_extents(std::size_t N, std::mt19937_64 & rng)
{
    /*
     * A modest menu of shapes, rich in pairs with equal element counts
     * (which is what makes a copy assignment eligible for buffer reuse) and
     * including degenerate ones.
     */
    std::vector<std::vector<std::size_t>> r;
    for (int i = 0; i < 10; ++i) {
        std::vector<std::size_t> e(N);
        for (auto & x : e) {
            x = 1 + rng() % 5;
        }
        r.push_back(e);
        std::vector<std::size_t> p(e.rbegin(), e.rend());
        r.push_back(p);
    }
    r.push_back(std::vector<std::size_t>(N, 1));
    r.push_back(std::vector<std::size_t>(N, 4));
    std::vector<std::size_t> z(N, 3);
    z[N / 2] = 0;
    r.push_back(z);
    r.push_back(std::vector<std::size_t>(N, 0));
    return r;
}

template <typename Fam>
void run_random(std::uint64_t seed, unsigned long steps, const std::vector<std::pair<typename Fam::first_t, model>> * shared)
{
    chooser ch;
    ch.random = true;
    ch.rng.seed(seed);
    auto extents = random_extents(Fam::N, ch.rng);
    Fam fam;
    fam.shared = shared;
    for (unsigned long i = 0; i < steps && !g_failed; ++i) {
        if (step(fam, ch, extents)) {
            g_ops.fetch_add(1, std::memory_order_relaxed);
            fam.verify_all("random history");
        }
    }
}

template <typename Fam>
void run_exhaustive(int depth)
{
    const std::vector<std::vector<std::size_t>> extents = []() {
        std::vector<std::vector<std::size_t>> r;
        std::vector<std::size_t> a(Fam::N, 2), b(Fam::N, 2), c(Fam::N, 2);
        a[0] = 3;
        b[Fam::N - 1] = 3;
        r.push_back(a);
        r.push_back(b);
        r.push_back(c);
        return r;
    }();

    chooser ch;
    ch.random = false;

    do {
        Fam fam;
        /* Initial state: three live fields with distinct contents. */
        std::size_t n = 0;
        for (std::size_t t = 0; t < Fam::NT && n < 3; ++t) {
            for (std::size_t i = 0; i < Fam::NK && n < 3; ++i, ++n) {
                fam.with_slot(t, i, [&](auto & d) {
                    using F = typename std::decay_t<decltype(d)>::field_t;
                    d.f.emplace(make_fresh<F>(extents[n]));
                    d.m = zero_model<F>(extents[n]);
                    d.st = LIVE;
                    do_write(d, fam, 0, true);
                });
            }
        }
        for (int i = 0; i < depth && !g_failed; ++i) {
            if (!step(fam, ch, extents)) {
                break;
            }
            g_ops.fetch_add(1, std::memory_order_relaxed);
            fam.verify_all("exhaustive history");
        }
    } while (!g_failed && ch.next());
}

template <typename Fam>
std::vector<std::pair<typename Fam::first_t, model>> make_shared_sources(std::uint64_t seed)
{
    using F = typename Fam::first_t;
    std::mt19937_64 rng(seed);
    auto extents = random_extents(Fam::N, rng);
    std::vector<std::pair<F, model>> r;
    Fam scratch;
    for (std::size_t i = 0; i < 6; ++i) {
        slot<F> s;
        const auto & e = extents[i];
        s.f.emplace(make_fresh<F>(e));
        s.m = zero_model<F>(e);
        s.st = LIVE;
        do_write(s, scratch, 0, true);
        r.emplace_back(std::move(*s.f), s.m);
    }
    return r;
}

namespace be = covfie::backend;
namespace vec = covfie::vector;

template <typename IV, typename OV>
using S = covfie::field<be::strided<IV, be::array<OV>>>;
template <typename IV, typename OV>
using M = covfie::field<be::morton<IV, be::array<OV>>>;

template <std::size_t K, typename IVa, typename IVb, typename OV>
using fam_t = family<K, S<IVa, OV>, S<IVb, OV>, M<IVa, OV>, M<IVb, OV>>;

using famA = fam_t<3, vec::size3, vec::uint3, vec::float3>;
using famB = fam_t<3, vec::size2, vec::uint2, vec::double2>;
using famC = fam_t<3, vec::size1, vec::uint1, vec::float1>;
using famD = fam_t<2, vec::size3, vec::uint3, vec::double1>;
using famE = fam_t<2, vec::size2, vec::uint2, vec::float4>;

/* For the exhaustive part: two slots each of two same-layout types, and
 * one of each Morton type. */
using famX = family<2, S<vec::size2, vec::float2>, S<vec::uint2, vec::float2>>;
using famY = family<1, S<vec::size2, vec::double1>, M<vec::size2, vec::double1>, M<vec::uint2, vec::double1>, S<vec::uint2, vec::double1>>;
}

int main(int argc, char ** argv)
{
    unsigned long steps = argc > 1 ? std::strtoul(argv[1], nullptr, 10) : 3000;
    int depth = argc > 2 ? std::atoi(argv[2]) : 3;
    unsigned threads = argc > 3 ? static_cast<unsigned>(std::atoi(argv[3])) : 4;

    /* Part 1: every history up to a bounded length. */
    run_exhaustive<famX>(depth);
    run_exhaustive<famY>(depth);
    unsigned long ex_ops = g_ops.load();

    /* Part 2: long seeded random histories, single-threaded. */
    for (std::uint64_t seed = 1; seed <= 3 && !g_failed; ++seed) {
        run_random<famA>(seed * 1000 + 1, steps, nullptr);
        run_random<famB>(seed * 1000 + 2, steps, nullptr);
        run_random<famC>(seed * 1000 + 3, steps, nullptr);
        run_random<famD>(seed * 1000 + 4, steps, nullptr);
        run_random<famE>(seed * 1000 + 5, steps, nullptr);
    }

    /* Part 3: independent histories in several threads which all read the
     * same immutable source fields. */
    {
        const auto shA = make_shared_sources<famA>(77);
        const auto shB = make_shared_sources<famB>(78);
        std::vector<std::thread> ts;
        for (unsigned t = 0; t < threads; ++t) {
            ts.emplace_back([&, t]() {
                run_random<famA>(9000 + t, steps, &shA);
                run_random<famB>(9100 + t, steps, &shB);
            });
        }
        for (auto & t : ts) {
            t.join();
        }
        /* The shared sources must be untouched. */
        for (const auto & p : shA) {
            check_equal(p.first, p.second, "shared source");
        }
        for (const auto & p : shB) {
            check_equal(p.first, p.second, "shared source");
        }
    }

    if (g_failed) {
        std::printf("FAIL\n");
        return 1;
    }

    std::printf(
        "PASS (%lu operations, of which %lu in exhaustive histories; %lu field/model comparisons)\n",
        g_ops.load(),
        ex_ops,
        g_checks.load()
    );
    return 0;
}
