/*
 * Checks of the NEW, previously unspecified corners (empty moved-from and
 * default fields, buffer reuse, storage stealing, swap). Only meaningful WITH
 * the change applied; it does not compile against the pristine library.
 *
 *   g++ -std=c++20 -O1 -g -fsanitize=address,undefined -fno-sanitize-recover=all \
 *       -I lib/core seeded/new_semantics_check.cpp -o newsem && ./newsem
 */
#include <cassert>
#include <cstdio>
#include <cstdlib>
#include <sstream>
#include <covfie/core/backend/primitive/array.hpp>
#include <covfie/core/backend/transformer/morton.hpp>
#include <covfie/core/backend/transformer/strided.hpp>
#include <covfie/core/field.hpp>
#include <covfie/core/parameter_pack.hpp>
namespace be = covfie::backend; namespace vec = covfie::vector;
#define CHECK(c) do { if (!(c)) { std::printf("FAIL line %d: %s\n", __LINE__, #c); std::exit(1);} } while (0)
template <typename OV> void run() {
    using SS = covfie::field<be::strided<vec::size3, be::array<OV>>>;
    using SU = covfie::field<be::strided<vec::uint3, be::array<OV>>>;
    using MS = covfie::field<be::morton<vec::size3, be::array<OV>>>;
    using MU = covfie::field<be::morton<vec::uint3, be::array<OV>>>;
    using conf = typename SS::backend_t::configuration_t;
    auto fill = [](auto & f, float base) { typename std::decay_t<decltype(f)>::view_t v(f); auto c = f.backend().get_configuration();
        for (std::size_t x = 0; x < c[0]; ++x) for (std::size_t y = 0; y < c[1]; ++y) for (std::size_t z = 0; z < c[2]; ++z) for (std::size_t j = 0; j < OV::size; ++j) v.at(x,y,z)[j] = static_cast<typename OV::type>(base + 100*x + 10*y + z + 0.25*j); };
    auto same = [](const auto & f, float base, conf e) { typename std::decay_t<decltype(f)>::view_t v(f); auto c = f.backend().get_configuration();
        for (int i = 0; i < 3; ++i) if (c[i] != e[i]) return false;
        for (std::size_t x = 0; x < c[0]; ++x) for (std::size_t y = 0; y < c[1]; ++y) for (std::size_t z = 0; z < c[2]; ++z) for (std::size_t j = 0; j < OV::size; ++j) if (v.at(x,y,z)[j] != static_cast<typename OV::type>(base + 100*x + 10*y + z + 0.25*j)) return false; return true; };
    auto is_empty = [](const auto & f) { auto c = f.backend().get_configuration(); return c[0] == 0 && c[1] == 0 && c[2] == 0 && f.backend().get_backend().m_size == 0 && f.backend().get_backend().m_ptr == nullptr; };

    SS a(covfie::make_parameter_pack(conf{3u, 4u, 5u})); fill(a, 1000);
    // default fields are empty, for every layer
    { SS d; MS m; SU u; MU w; CHECK(is_empty(d) && is_empty(m) && is_empty(u) && is_empty(w)); SS dc(d); CHECK(is_empty(dc)); MS mc(m); CHECK(is_empty(mc));
      std::stringstream ss; m.dump(ss); MS ml(ss); CHECK(is_empty(ml)); SS fromm(m); CHECK(is_empty(fromm)); dc = a; CHECK(same(dc, 1000, conf{3u,4u,5u})); dc = d; CHECK(is_empty(dc)); }
    // moved-from is empty; copy of moved-from is empty; dump of moved-from is well-defined
    { SS b(a); SS c(std::move(b)); CHECK(is_empty(b)); CHECK(same(c, 1000, conf{3u,4u,5u})); SS e(b); CHECK(is_empty(e)); std::stringstream ss; b.dump(ss); SS l(ss); CHECK(is_empty(l));
      c = b; CHECK(is_empty(c)); b = a; CHECK(same(b, 1000, conf{3u,4u,5u})); c = std::move(b); CHECK(is_empty(b)); CHECK(same(c, 1000, conf{3u,4u,5u}));
      MS m(c); MS m2(std::move(m)); CHECK(is_empty(m)); SS back(m2); CHECK(same(back, 1000, conf{3u,4u,5u})); SS fromhollow(m); CHECK(is_empty(fromhollow)); }
    // buffer reuse exactly when counts equal
    { SS b(covfie::make_parameter_pack(conf{5u, 4u, 3u})); auto * p = b.backend().get_backend().m_ptr.get(); b = a; CHECK(b.backend().get_backend().m_ptr.get() == p); CHECK(same(b, 1000, conf{3u,4u,5u})); CHECK(same(a, 1000, conf{3u,4u,5u}));
      fill(b, 7); CHECK(same(a, 1000, conf{3u,4u,5u})); CHECK(same(b, 7, conf{3u,4u,5u}));
      SS c(covfie::make_parameter_pack(conf{2u, 2u, 2u})); c = a; CHECK(same(c, 1000, conf{3u,4u,5u})); CHECK(c.backend().get_backend().m_ptr.get() != a.backend().get_backend().m_ptr.get());
      SS & r = c; c = r; CHECK(same(c, 1000, conf{3u,4u,5u})); c = std::move(r); CHECK(same(c, 1000, conf{3u,4u,5u})); }
    // steal on same-layout rvalue conversion
    { SS b(a); auto * p = b.backend().get_backend().m_ptr.get(); SU u(std::move(b)); CHECK(u.backend().get_backend().m_ptr.get() == p); CHECK(is_empty(b)); CHECK(same(u, 1000, conf{3u,4u,5u}));
      SU u2(a); CHECK(same(u2, 1000, conf{3u,4u,5u})); CHECK(same(a, 1000, conf{3u,4u,5u})); CHECK(u2.backend().get_backend().m_ptr.get() != a.backend().get_backend().m_ptr.get());
      SS back(std::move(u)); CHECK(back.backend().get_backend().m_ptr.get() == p); CHECK(same(back, 1000, conf{3u,4u,5u})); CHECK(is_empty(u));
      MS m(a); auto * q = m.backend().get_backend().m_ptr.get(); MU mu(std::move(m)); CHECK(mu.backend().get_backend().m_ptr.get() == q); CHECK(is_empty(m)); CHECK(same(mu, 1000, conf{3u,4u,5u}));
      const SS ca(a); SU fromconst(std::move(ca)); CHECK(same(ca, 1000, conf{3u,4u,5u})); CHECK(same(fromconst, 1000, conf{3u,4u,5u})); }
    // swap
    { SS b(covfie::make_parameter_pack(conf{2u, 1u, 2u})); fill(b, 5); SS c(a); auto * pb = b.backend().get_backend().m_ptr.get(); auto * pc = c.backend().get_backend().m_ptr.get();
      b.swap(c); CHECK(same(b, 1000, conf{3u,4u,5u}) && same(c, 5, conf{2u,1u,2u})); CHECK(b.backend().get_backend().m_ptr.get() == pc && c.backend().get_backend().m_ptr.get() == pb);
      swap(b, c); CHECK(same(c, 1000, conf{3u,4u,5u}) && same(b, 5, conf{2u,1u,2u})); b.swap(b); CHECK(same(b, 5, conf{2u,1u,2u})); SS e; e.swap(b); CHECK(is_empty(b) && same(e, 5, conf{2u,1u,2u}));
      MS m(a), n; swap(m, n); CHECK(is_empty(m) && same(n, 1000, conf{3u,4u,5u})); }
    // parameter-pack construction from a backend (copy from lvalue / const rvalue, move from rvalue)
    { SS b(covfie::make_parameter_pack(a.backend())); CHECK(same(b, 1000, conf{3u,4u,5u}) && same(a, 1000, conf{3u,4u,5u}));
      SS c(covfie::make_parameter_pack(std::move(a.backend()))); CHECK(same(c, 1000, conf{3u,4u,5u}) && same(a, 1000, conf{3u,4u,5u}));
      typename SS::storage_t st(a.backend()); SS d(covfie::make_parameter_pack(std::move(st))); CHECK(same(d, 1000, conf{3u,4u,5u}));
      typename SS::storage_t st2(a.backend()); SS e(covfie::make_parameter_pack(st2)); CHECK(same(e, 1000, conf{3u,4u,5u})); CHECK(st2.get_configuration()[0] == 3); }
    // zero-sized
    { SS z(covfie::make_parameter_pack(conf{3u, 0u, 2u})); CHECK(z.backend().get_backend().m_ptr == nullptr); SS zc(z); CHECK(zc.backend().get_configuration()[0] == 3 && zc.backend().get_configuration()[1] == 0); MS zm(z); SS zb(zm); std::stringstream ss; z.dump(ss); SS zl(ss); CHECK(zl.backend().get_configuration()[2] == 2); zc = a; zc = z; CHECK(zc.backend().get_configuration()[0] == 3); }
}
int main() { run<vec::float3>(); run<vec::double3>(); run<vec::float1>(); run<vec::double2>(); std::printf("PASS\n"); }
