// Standalone exerciser for the "UB hardening without behaviour change" commit.
//
// Compile (from the root of the checkout):
//   g++ -std=c++20 -O2 -DNDEBUG -Ilib/core seeded/demo.cpp -pthread -o /tmp/demo_rel
//   g++ -std=c++20 -O0 -g        -Ilib/core seeded/demo.cpp -pthread -o /tmp/demo_dbg
//   g++ -std=c++20 -O1 -g -fsanitize=address,undefined -fno-sanitize-recover=all
//     -Ilib/core seeded/demo.cpp -pthread -o /tmp/demo_asan   (one line)
//   g++ -std=c++20 -O1 -g -fsanitize=thread -Ilib/core seeded/demo.cpp -pthread -o /tmp/demo_tsan
//
// The program prints a digest line (a 64 bit FNV-1a hash over every value it
// looked up, every byte it serialised and every integer it computed) followed
// by PASS. The digest is the same before and after the change, in debug and
// in release builds; PASS means every internal cross-check succeeded.
//
// It only does things that are inside the documented domain of the library
// both before and after the change: it never reads a moved-from or
// default-constructed object, never looks up a coordinate outside the
// extents, and never asks the interpolators for a cell outside the grid.

#include <cmath>
#include <cstdint>
#include <cstdio>
#include <cstring>
#include <iostream>
#include <random>
#include <sstream>
#include <stdexcept>
#include <string>
#include <thread>
#include <vector>

#include <covfie/core/algebra/affine.hpp>
#include <covfie/core/algebra/matrix.hpp>
#include <covfie/core/algebra/vector.hpp>
#include <covfie/core/array.hpp>
#include <covfie/core/backend/primitive/array.hpp>
#include <covfie/core/backend/primitive/identity.hpp>
#include <covfie/core/backend/transformer/affine.hpp>
#include <covfie/core/backend/transformer/clamp.hpp>
#include <covfie/core/backend/transformer/covariant_cast.hpp>
#include <covfie/core/backend/transformer/linear.hpp>
#include <covfie/core/backend/transformer/morton.hpp>
#include <covfie/core/backend/transformer/nearest_neighbour.hpp>
#include <covfie/core/backend/transformer/strided.hpp>
#include <covfie/core/field.hpp>
#include <covfie/core/field_view.hpp>
#include <covfie/core/parameter_pack.hpp>
#include <covfie/core/utility/nd_map.hpp>
#include <covfie/core/utility/nd_size.hpp>
#include <covfie/core/utility/numeric.hpp>
#include <covfie/core/vector.hpp>

namespace {
// ---------------------------------------------------------------------------
// bookkeeping
// ---------------------------------------------------------------------------
struct digest_t {
    std::uint64_t h = 1469598103934665603ull;

    void bytes(const void * p, std::size_t n)
    {
        const unsigned char * c = static_cast<const unsigned char *>(p);
        for (std::size_t i = 0; i < n; ++i) {
            h ^= c[i];
            h *= 1099511628211ull;
        }
    }

    template <typename T>
    void val(const T & v)
    {
        static_assert(std::is_trivially_copyable_v<T>);
        bytes(&v, sizeof(T));
    }

    void str(const std::string & s)
    {
        val(s.size());
        bytes(s.data(), s.size());
    }
};

digest_t g_digest;
int g_failures = 0;
long g_checks = 0;

#define CHECK(cond)                                                            \
    do {                                                                       \
        ++g_checks;                                                            \
        if (!(cond)) {                                                         \
            ++g_failures;                                                      \
            if (g_failures < 20) {                                             \
                std::fprintf(                                                  \
                    stderr, "CHECK failed at line %d: %s\n", __LINE__, #cond   \
                );                                                             \
            }                                                                  \
        }                                                                      \
    } while (false)

template <typename T>
bool same_bits(const T & a, const T & b)
{
    return std::memcmp(&a, &b, sizeof(T)) == 0;
}

// Hides a value from the optimiser, so that arithmetic on it happens at run
// time with run-time semantics rather than in a compiler's constant folder
// (which, for clang, evaluates a*b+c with a single rounding).
template <typename T>
T opaque(T v)
{
    volatile T x = v;
    return x;
}

template <std::size_t N>
using ext_t = covfie::utility::nd_size<N>;

template <std::size_t N>
std::size_t volume(const ext_t<N> & e)
{
    std::size_t r = 1;
    for (std::size_t i = 0; i < N; ++i) {
        r *= e[i];
    }
    return r;
}

// Deterministic, coordinate dependent field content. Every value is exactly
// representable in float so that float/double conversions are lossless.
template <typename S, std::size_t N>
S content(const ext_t<N> & c, std::size_t comp)
{
    long v = 7 + static_cast<long>(comp) * 3;
    for (std::size_t i = 0; i < N; ++i) {
        v = v * 11 + static_cast<long>(c[i]) * static_cast<long>(i + 2);
    }
    v %= 4001;
    return static_cast<S>(v - 2000) * static_cast<S>(0.125);
}

template <typename F>
std::string dump_to_string(const F & f)
{
    std::ostringstream os(std::ios::binary);
    f.dump(os);
    return os.str();
}

template <typename F>
F load_from_string(const std::string & s)
{
    std::istringstream is(s, std::ios::binary);
    F f(is);
    CHECK(is.good());
    CHECK(is.peek() == std::char_traits<char>::eof());
    return f;
}

// ---------------------------------------------------------------------------
// A: the small fixed size array
// ---------------------------------------------------------------------------
void test_small_array()
{
    using covfie::array::array;

    {
        const float raw[3] = {1.5f, -2.25f, 8.f};
        array<float, 3> a(raw);
        array<float, 3> b(4.75f);
        array<float, 3> c(1.5f, -2.25f, 8.f);
        array<float, 3> d = a;
        array<float, 3> e;
        e = b;

        CHECK(a.size() == 3);
        CHECK(a[0] == 1.5f && a[1] == -2.25f && a[2] == 8.f);
        CHECK(a.at(0) == 1.5f && a.at(1) == -2.25f && a.at(2) == 8.f);
        CHECK(b[0] == 4.75f && b[1] == 4.75f && b[2] == 4.75f);
        CHECK(same_bits(a, c));
        CHECK(same_bits(a, d));
        CHECK(same_bits(e, b));
        CHECK(a.end() - a.begin() == 3);
        CHECK(a.cend() - a.cbegin() == 3);

        float s = 0.f;
        for (float x : a) {
            s += x;
        }
        CHECK(s == 7.25f);

        for (float & x : d) {
            x *= 2.f;
        }
        CHECK(d[0] == 3.f && d[1] == -4.5f && d[2] == 16.f);

        d.at(1) = 9.f;
        d[2] = 10.f;
        const array<float, 3> & cd = d;
        CHECK(cd.at(1) == 9.f && cd[2] == 10.f);
        CHECK(cd.end() - cd.begin() == 3);

        g_digest.val(a);
        g_digest.val(d);
    }

    {
        array<double, 1> a(3.5);
        CHECK(a.size() == 1 && a[0] == 3.5 && a.at(0) == 3.5);
        array<std::size_t, 4> s{1ul, 2ul, 3ul, 4ul};
        CHECK(s[3] == 4ul);
        g_digest.val(s);

        // Value-initialised arrays are all-zero.
        array<std::size_t, 4> z{};
        for (std::size_t i = 0; i < 4; ++i) {
            CHECK(z[i] == 0ul);
        }

        array<array<float, 2>, 2> nested{
            array<float, 2>{1.f, 2.f}, array<float, 2>{3.f, 4.f}};
        CHECK(nested[1][0] == 3.f);
        g_digest.val(nested);
    }

    {
        // nd_map, tail, cat build on the array type.
        ext_t<3> e{2ul, 3ul, 2ul};
        std::size_t n = 0;
        ext_t<3> last{};
        covfie::utility::nd_map<ext_t<3>>(
            [&](ext_t<3> t) {
                ++n;
                last = t;
                g_digest.val(t);
            },
            e
        );
        CHECK(n == 12);
        CHECK(last[0] == 1 && last[1] == 2 && last[2] == 1);
        auto t = covfie::utility::tail(e);
        CHECK(t.size() == 2 && t[0] == 3 && t[1] == 2);
        auto c = covfie::utility::cat(t, e);
        CHECK(c.size() == 5 && c[0] == 3 && c[4] == 2);
    }
}

// ---------------------------------------------------------------------------
// B: matrix / vector / affine algebra
// ---------------------------------------------------------------------------
template <typename T>
void test_algebra_for()
{
    using namespace covfie::algebra;
    using covfie::array::array;

    matrix<3, 2, T> m1(array<array<T, 2>, 3>{
        array<T, 2>{opaque(T(0.1)), opaque(T(-2.5))},
        array<T, 2>{opaque(T(3.3)), opaque(T(4.7))},
        array<T, 2>{opaque(T(-5.9)), opaque(T(6.1))}});
    matrix<2, 4, T> m2(array<array<T, 4>, 2>{
        array<T, 4>{opaque(T(1.1)), opaque(T(0.3)), opaque(T(-0.7)), opaque(T(2.9))},
        array<T, 4>{opaque(T(-1.3)), opaque(T(0.9)), opaque(T(0.2)), opaque(T(1e-3))}});

    matrix<3, 4, T> r = m1 * m2;

    for (std::size_t i = 0; i < 3; ++i) {
        for (std::size_t j = 0; j < 4; ++j) {
            T t = static_cast<T>(0.);
            for (std::size_t k = 0; k < 2; ++k) {
                t += m1(i, k) * m2(k, j);
            }
            CHECK(same_bits(t, r(i, j)));
            g_digest.val(r(i, j));
        }
    }

    matrix<3, 4, T> rc = r;
    matrix<3, 4, T> ra;
    ra = r;
    for (std::size_t i = 0; i < 3; ++i) {
        for (std::size_t j = 0; j < 4; ++j) {
            CHECK(same_bits(rc(i, j), r(i, j)));
            CHECK(same_bits(ra(i, j), r(i, j)));
        }
    }

    auto id = matrix<4, 4, T>::identity();
    for (std::size_t i = 0; i < 4; ++i) {
        for (std::size_t j = 0; j < 4; ++j) {
            CHECK(id(i, j) == (i == j ? opaque(T(1)) : opaque(T(0))));
        }
    }
    matrix<3, 4, T> rid = r * id;
    for (std::size_t i = 0; i < 3; ++i) {
        for (std::size_t j = 0; j < 4; ++j) {
            g_digest.val(rid(i, j));
        }
    }

    auto rect = matrix<2, 3, T>::identity();
    CHECK(rect(0, 0) == opaque(T(1)) && rect(1, 1) == opaque(T(1)) && rect(1, 2) == opaque(T(0)));

    vector<3, T> v(opaque(T(1.5)), opaque(T(-2.5)), opaque(T(0.3)));
    CHECK(v(0) == opaque(T(1.5)) && v(1) == opaque(T(-2.5)) && v(2) == opaque(T(0.3)));
    vector<3, T> v2(array<T, 3>{opaque(T(9)), opaque(T(8)), opaque(T(7))});
    v2(1) = opaque(T(4));
    CHECK(v2(0) == opaque(T(9)) && v2(1) == opaque(T(4)) && v2(2) == opaque(T(7)));

    affine<3, T> tr = affine<3, T>::translation(opaque(T(1.25)), opaque(T(-3.5)), opaque(T(0.7)));
    affine<3, T> sc = affine<3, T>::scaling(opaque(T(2)), opaque(T(0.3)), opaque(T(-1.1)));
    affine<3, T> both = tr * sc;
    affine<3, T> both2 = sc * tr;
    vector<3, T> o1 = both * v;
    vector<3, T> o2 = both2 * v;
    vector<3, T> o3 = tr * (sc * v);
    for (std::size_t i = 0; i < 3; ++i) {
        g_digest.val(o1(i));
        g_digest.val(o2(i));
        g_digest.val(o3(i));
        for (std::size_t j = 0; j < 4; ++j) {
            g_digest.val(both(i, j));
            g_digest.val(both2(i, j));
        }
    }
    affine<1, T> a1 = affine<1, T>::scaling(opaque(T(3)));
    vector<1, T> v1(opaque(T(2)));
    CHECK((a1 * v1)(0) == opaque(T(6)));
}

// ---------------------------------------------------------------------------
// C: the primitive array backend
// ---------------------------------------------------------------------------
template <typename VD>
void test_primitive_array()
{
    using S = typename VD::type;
    constexpr std::size_t M = VD::size;
    using field_t = covfie::field<covfie::backend::array<VD>>;
    using conf_t = typename field_t::backend_t::configuration_t;

    for (std::size_t n : {0ul, 1ul, 2ul, 5ul, 17ul, 64ul}) {
        field_t f(covfie::make_parameter_pack(conf_t{n}));
        CHECK(f.backend().get_configuration()[0] == n);

        {
            typename field_t::view_t fv(f);
            // Fresh storage is zero-filled.
            for (std::size_t i = 0; i < n; ++i) {
                for (std::size_t j = 0; j < M; ++j) {
                    CHECK(fv.at(i)[j] == S(0));
                }
            }
            for (std::size_t i = 0; i < n; ++i) {
                for (std::size_t j = 0; j < M; ++j) {
                    fv.at(i)[j] = content<S, 1>(ext_t<1>{i}, j);
                }
            }
        }

        auto verify = [&](const field_t & g) {
            CHECK(g.backend().get_configuration()[0] == n);
            typename field_t::view_t gv(g);
            for (std::size_t i = 0; i < n; ++i) {
                typename field_t::output_t p = gv.at(i);
                for (std::size_t j = 0; j < M; ++j) {
                    CHECK(same_bits(p[j], content<S, 1>(ext_t<1>{i}, j)));
                    g_digest.val(p[j]);
                }
            }
        };

        verify(f);

        // copy construction is deep
        field_t c(f);
        verify(c);
        if (n > 0) {
            typename field_t::view_t cv(c);
            cv.at(n - 1)[0] = S(12345);
            verify(f);
            cv.at(n - 1)[0] = content<S, 1>(ext_t<1>{n - 1}, 0);
        }

        // copy assignment over a field of a different size
        field_t d(covfie::make_parameter_pack(conf_t{n + 3}));
        d = f;
        verify(d);

        // self assignment (through a reference, to keep compilers quiet)
        field_t & dr = d;
        d = dr;
        verify(d);

        // move construction
        field_t m(std::move(c));
        verify(m);

        // assignment *to* a moved-from object
        c = f;
        verify(c);

        // move assignment, then re-use the source as a target again
        field_t e(covfie::make_parameter_pack(conf_t{1ul}));
        e = std::move(m);
        verify(e);
        m = std::move(e);
        verify(m);
        e = d;
        verify(e);

        // default constructed field as assignment target
        field_t dflt;
        dflt = f;
        verify(dflt);
        field_t dflt2;
        dflt2 = std::move(dflt);
        verify(dflt2);

        // serialisation round trip; bytes go into the digest
        std::string bytes = dump_to_string(f);
        g_digest.str(bytes);
        CHECK(
            bytes.size() == 8 + 8 + 4 + 8 + n * M * sizeof(S) + 8 + 8
        );
        field_t l = load_from_string<field_t>(bytes);
        verify(l);
        CHECK(dump_to_string(l) == bytes);
        CHECK(dump_to_string(d) == bytes);
        CHECK(dump_to_string(m) == bytes);
    }
}

void test_primitive_array_conversion()
{
    using ff_t = covfie::field<covfie::backend::array<covfie::vector::float3>>;
    using fd_t =
        covfie::field<covfie::backend::array<covfie::vector::double3>>;

    ff_t f(covfie::make_parameter_pack(ff_t::backend_t::configuration_t{9ul}));
    {
        ff_t::view_t fv(f);
        for (std::size_t i = 0; i < 9; ++i) {
            for (std::size_t j = 0; j < 3; ++j) {
                fv.at(i)[j] = content<float, 1>(ext_t<1>{i}, j);
            }
        }
    }
    std::string fb = dump_to_string(f);
    fd_t d = load_from_string<fd_t>(fb);
    fd_t::view_t dv(d);
    for (std::size_t i = 0; i < 9; ++i) {
        for (std::size_t j = 0; j < 3; ++j) {
            CHECK(
                dv.at(i)[j] ==
                static_cast<double>(content<float, 1>(ext_t<1>{i}, j))
            );
        }
    }
    std::string db = dump_to_string(d);
    g_digest.str(db);
    ff_t f2 = load_from_string<ff_t>(db);
    CHECK(dump_to_string(f2) == fb);
}

// ---------------------------------------------------------------------------
// D: strided
// ---------------------------------------------------------------------------
template <std::size_t N, typename F>
void fill_field(F & f, const ext_t<N> & e)
{
    using S = typename F::backend_t::covariant_output_t::scalar_t;
    constexpr std::size_t M = F::backend_t::covariant_output_t::dimensions;
    typename F::view_t fv(f);
    covfie::utility::nd_map<ext_t<N>>(
        [&](ext_t<N> t) {
            typename F::coordinate_t c;
            for (std::size_t i = 0; i < N; ++i) {
                c[i] = static_cast<
                    typename F::backend_t::contravariant_input_t::scalar_t>(
                    t[i]
                );
            }
            for (std::size_t j = 0; j < M; ++j) {
                fv.at(c)[j] = content<S, N>(t, j);
            }
        },
        e
    );
}

template <std::size_t N, typename F>
void verify_field(const F & f, const ext_t<N> & e)
{
    using S = typename F::backend_t::covariant_output_t::scalar_t;
    constexpr std::size_t M = F::backend_t::covariant_output_t::dimensions;
    ext_t<N> conf = f.backend().get_configuration();
    for (std::size_t i = 0; i < N; ++i) {
        CHECK(conf[i] == e[i]);
    }
    typename F::view_t fv(f);
    covfie::utility::nd_map<ext_t<N>>(
        [&](ext_t<N> t) {
            typename F::coordinate_t c;
            for (std::size_t i = 0; i < N; ++i) {
                c[i] = static_cast<
                    typename F::backend_t::contravariant_input_t::scalar_t>(
                    t[i]
                );
            }
            typename F::output_t p = fv.at(c);
            for (std::size_t j = 0; j < M; ++j) {
                CHECK(same_bits(p[j], content<S, N>(t, j)));
                g_digest.val(p[j]);
            }
        },
        e
    );
}

// Checks that a strided field stores element (c0,..,cN-1) at the row-major
// position, by looking at the dumped bytes.
template <std::size_t N, typename F>
void verify_strided_layout(const F & f, const ext_t<N> & e)
{
    using S = typename F::backend_t::covariant_output_t::scalar_t;
    constexpr std::size_t M = F::backend_t::covariant_output_t::dimensions;
    std::string bytes = dump_to_string(f);
    g_digest.str(bytes);
    // field hdr(8) strided hdr(8) sizes(8N) array hdr(8) width(4) size(8)
    const std::size_t off = 8 + 8 + 8 * N + 8 + 4 + 8;
    CHECK(bytes.size() == off + volume(e) * M * sizeof(S) + 3 * 8);

    std::uint64_t stored_n;
    std::memcpy(&stored_n, bytes.data() + off - 8, 8);
    CHECK(stored_n == volume(e));
    for (std::size_t i = 0; i < N; ++i) {
        std::uint64_t s;
        std::memcpy(&s, bytes.data() + 16 + 8 * i, 8);
        CHECK(s == e[i]);
    }

    std::size_t lin = 0;
    covfie::utility::nd_map<ext_t<N>>(
        [&](ext_t<N> t) {
            for (std::size_t j = 0; j < M; ++j) {
                S v;
                std::memcpy(
                    &v,
                    bytes.data() + off + (lin * M + j) * sizeof(S),
                    sizeof(S)
                );
                CHECK(same_bits(v, content<S, N>(t, j)));
            }
            ++lin;
        },
        e
    );
    CHECK(lin == volume(e));
}

template <typename ID, typename VD>
void test_strided(
    std::initializer_list<ext_t<ID::size>> shapes
)
{
    constexpr std::size_t N = ID::size;
    using field_t = covfie::field<
        covfie::backend::strided<ID, covfie::backend::array<VD>>>;
    using conf_t = typename field_t::backend_t::configuration_t;

    for (const ext_t<N> & e : shapes) {
        field_t f(covfie::make_parameter_pack(conf_t(e)));
        CHECK(f.backend().get_backend().get_configuration()[0] == volume(e));
        fill_field<N>(f, e);
        verify_field<N>(f, e);
        verify_strided_layout<N>(f, e);

        field_t c(f);
        verify_field<N>(c, e);

        field_t a;
        a = f;
        verify_field<N>(a, e);
        field_t & ar = a;
        a = ar;
        verify_field<N>(a, e);

        field_t m(std::move(c));
        verify_field<N>(m, e);
        c = std::move(m);
        verify_field<N>(c, e);
        m = f;
        verify_field<N>(m, e);

        // two-level parameter pack: sizes + explicit storage size
        field_t two(covfie::make_parameter_pack(
            conf_t(e),
            typename covfie::backend::array<VD>::configuration_t{volume(e)}
        ));
        fill_field<N>(two, e);
        verify_field<N>(two, e);
        CHECK(dump_to_string(two) == dump_to_string(f));

        std::string bytes = dump_to_string(f);
        field_t l = load_from_string<field_t>(bytes);
        verify_field<N>(l, e);
        CHECK(dump_to_string(l) == bytes);
    }
}

// ---------------------------------------------------------------------------
// E: morton (built from a strided field)
// ---------------------------------------------------------------------------
template <typename ID, typename VD, bool BMI>
void test_morton(std::initializer_list<ext_t<ID::size>> shapes)
{
    constexpr std::size_t N = ID::size;
    using sfield_t = covfie::field<
        covfie::backend::strided<ID, covfie::backend::array<VD>>>;
    using mfield_t = covfie::field<
        covfie::backend::morton<ID, covfie::backend::array<VD>, BMI>>;
    using conf_t = typename sfield_t::backend_t::configuration_t;

    for (const ext_t<N> & e : shapes) {
        sfield_t s(covfie::make_parameter_pack(conf_t(e)));
        fill_field<N>(s, e);

        mfield_t m(s);
        verify_field<N>(m, e);

        // and back again: morton -> strided runs make_strided_copy
        if constexpr (std::is_same_v<typename ID::type, std::size_t>) {
            sfield_t back(m);
            verify_field<N>(back, e);
            CHECK(dump_to_string(back) == dump_to_string(s));
        }

        std::size_t mx = 0;
        for (std::size_t i = 0; i < N; ++i) {
            mx = std::max(mx, e[i]);
        }
        std::size_t side = covfie::utility::round_pow2(mx);
        std::size_t expect = covfie::utility::ipow(side, N);
        CHECK(m.backend().get_backend().get_configuration()[0] == expect);

        // index function is a bijection onto [0, side^N) on the cube
        if (expect <= 4096) {
            std::vector<char> seen(expect, 0);
            ext_t<N> cube;
            for (std::size_t i = 0; i < N; ++i) {
                cube[i] = side;
            }
            covfie::utility::nd_map<ext_t<N>>(
                [&](ext_t<N> t) {
                    typename mfield_t::coordinate_t c;
                    for (std::size_t i = 0; i < N; ++i) {
                        c[i] = static_cast<typename ID::type>(t[i]);
                    }
                    std::size_t idx = mfield_t::backend_t::calculate_index(c);
                    CHECK(idx < expect);
                    if (idx < expect) {
                        CHECK(seen[idx] == 0);
                        seen[idx] = 1;
                    }
                    g_digest.val(idx);
                },
                cube
            );
        }

        std::string bytes = dump_to_string(m);
        g_digest.str(bytes);
        mfield_t l = load_from_string<mfield_t>(bytes);
        verify_field<N>(l, e);
        CHECK(dump_to_string(l) == bytes);

        mfield_t c(m);
        verify_field<N>(c, e);
        mfield_t mv(std::move(c));
        verify_field<N>(mv, e);
        c = mv;
        verify_field<N>(c, e);
        mfield_t & cr = c;
        c = cr;
        verify_field<N>(c, e);
        c = std::move(mv);
        verify_field<N>(c, e);
        mv = m;
        verify_field<N>(mv, e);

        // writes through a morton view land where reads find them
        {
            typename mfield_t::view_t mvw(mv);
            covfie::utility::nd_map<ext_t<N>>(
                [&](ext_t<N> t) {
                    typename mfield_t::coordinate_t cc;
                    for (std::size_t i = 0; i < N; ++i) {
                        cc[i] = static_cast<typename ID::type>(t[i]);
                    }
                    mvw.at(cc)[0] += typename VD::type(1);
                },
                e
            );
            covfie::utility::nd_map<ext_t<N>>(
                [&](ext_t<N> t) {
                    typename mfield_t::coordinate_t cc;
                    for (std::size_t i = 0; i < N; ++i) {
                        cc[i] = static_cast<typename ID::type>(t[i]);
                    }
                    const typename VD::type want =
                        content<typename VD::type, N>(t, 0) +
                        typename VD::type(1);
                    CHECK(mvw.at(cc)[0] == want);
                },
                e
            );
        }
    }
}

// ---------------------------------------------------------------------------
// F: nearest neighbour
// ---------------------------------------------------------------------------
template <typename CD>
void test_nearest_neighbour()
{
    using C = typename CD::type;
    using base_t = covfie::backend::strided<
        covfie::vector::size2,
        covfie::backend::array<covfie::vector::float2>>;
    using sfield_t = covfie::field<base_t>;
    using nfield_t =
        covfie::field<covfie::backend::nearest_neighbour<base_t, CD>>;

    ext_t<2> e{9ul, 6ul};
    sfield_t s(covfie::make_parameter_pack(sfield_t::backend_t::configuration_t(e
    )));
    fill_field<2>(s, e);

    nfield_t nf(covfie::make_parameter_pack(
        typename nfield_t::backend_t::configuration_t{},
        sfield_t::backend_t::configuration_t(e)
    ));
    // copy the data over through the IO path of the inner backend
    {
        std::string inner = dump_to_string(s);
        // nearest_neighbour adds no header of its own
        nf = load_from_string<nfield_t>(inner);
        CHECK(dump_to_string(nf) == inner);
    }

    typename nfield_t::view_t nv(nf);
    typename sfield_t::view_t sv(s);

    auto probe = [&](C x, C y) {
        long ix = std::lrint(x);
        long iy = std::lrint(y);
        if (ix < 0 || iy < 0 || ix >= 9 || iy >= 6) {
            return;
        }
        auto got = nv.at(x, y);
        auto want = sv.at(
            static_cast<std::size_t>(ix), static_cast<std::size_t>(iy)
        );
        CHECK(same_bits(got[0], want[0]));
        CHECK(same_bits(got[1], want[1]));
        g_digest.val(got[0]);
        g_digest.val(got[1]);
    };

    // every half-integer tie, plus neighbours one ulp either side
    for (int i = 0; i <= 17; ++i) {
        for (int j = 0; j <= 11; ++j) {
            C x = static_cast<C>(i) * C(0.5);
            C y = static_cast<C>(j) * C(0.5);
            probe(x, y);
            probe(std::nextafter(x, C(100)), std::nextafter(y, C(100)));
            probe(std::nextafter(x, C(-100)), std::nextafter(y, C(-100)));
            probe(std::nextafter(x, C(100)), std::nextafter(y, C(-100)));
        }
    }
    probe(C(-0.0), C(-0.0));
    probe(C(-0.25), C(-0.5));
    probe(C(-0.5), C(0.5));
    probe(C(8.5), C(5.5));
    probe(std::nextafter(C(8.5), C(0)), std::nextafter(C(5.5), C(0)));
    probe(std::numeric_limits<C>::denorm_min(), std::numeric_limits<C>::min());

    std::mt19937_64 rng(12345);
    std::uniform_real_distribution<C> dx(C(-0.5), C(8.5));
    std::uniform_real_distribution<C> dy(C(-0.5), C(5.5));
    for (int i = 0; i < 20000; ++i) {
        // sequenced explicitly: argument evaluation order is unspecified
        const C rx = dx(rng);
        const C ry = dy(rng);
        probe(rx, ry);
    }

    // identity backend with signed indices: negative coordinates are fine
    using ifield_t = covfie::field<covfie::backend::nearest_neighbour<
        covfie::backend::identity<covfie::vector::int2>,
        CD>>;
    ifield_t idf(covfie::make_parameter_pack(
        typename ifield_t::backend_t::configuration_t{},
        typename ifield_t::backend_t::backend_t::configuration_t{}
    ));
    typename ifield_t::view_t iv(idf);
    std::uniform_real_distribution<C> dz(C(-100000), C(100000));
    for (int i = 0; i < 20000; ++i) {
        C x = dz(rng);
        C y = (i % 3 == 0) ? std::floor(dz(rng)) + C(0.5) : dz(rng);
        auto got = iv.at(x, y);
        CHECK(got[0] == static_cast<int>(std::lrint(x)));
        CHECK(got[1] == static_cast<int>(std::lrint(y)));
        g_digest.val(got[0]);
        g_digest.val(got[1]);
    }
}

// ---------------------------------------------------------------------------
// G: linear interpolation; the reference spells out the documented formula
// ---------------------------------------------------------------------------
template <typename CD, typename VD>
void test_linear_1d()
{
    using C = typename CD::type;
    using V = typename VD::type;
    using base_t =
        covfie::backend::strided<covfie::vector::size1, covfie::backend::array<VD>>;
    using sfield_t = covfie::field<base_t>;
    using lfield_t = covfie::field<covfie::backend::linear<base_t, CD>>;

    ext_t<1> e{11ul};
    sfield_t s(covfie::make_parameter_pack(
        typename sfield_t::backend_t::configuration_t(e)
    ));
    fill_field<1>(s, e);
    lfield_t lf = load_from_string<lfield_t>(dump_to_string(s));
    typename lfield_t::view_t lv(lf);
    typename sfield_t::view_t sv(s);

    std::mt19937_64 rng(99);
    std::uniform_real_distribution<C> d(C(0), C(10));
    for (int it = 0; it < 4000; ++it) {
        C x = (it < 11) ? static_cast<C>(it % 10) : d(rng);
        if (!(x < C(10))) {
            continue;
        }
        std::size_t i = static_cast<std::size_t>(x);
        C a = x - std::trunc(x);
        C ra = C(1.) - a;
        auto got = lv.at(x);
        for (std::size_t q = 0; q < VD::size; ++q) {
            V want = ra * static_cast<C>(sv.at(i)[q]) +
                     a * static_cast<C>(sv.at(i + 1)[q]);
            CHECK(same_bits(static_cast<V>(got[q]), want));
            g_digest.val(got[q]);
        }
    }
}

template <typename CD, typename VD>
void test_linear_2d()
{
    using C = typename CD::type;
    using V = typename VD::type;
    using base_t =
        covfie::backend::strided<covfie::vector::size2, covfie::backend::array<VD>>;
    using sfield_t = covfie::field<base_t>;
    using lfield_t = covfie::field<covfie::backend::linear<base_t, CD>>;

    ext_t<2> e{7ul, 5ul};
    sfield_t s(covfie::make_parameter_pack(
        typename sfield_t::backend_t::configuration_t(e)
    ));
    fill_field<2>(s, e);
    lfield_t lf = load_from_string<lfield_t>(dump_to_string(s));
    typename lfield_t::view_t lv(lf);
    typename sfield_t::view_t sv(s);

    std::mt19937_64 rng(77);
    std::uniform_real_distribution<C> dx(C(0), C(6));
    std::uniform_real_distribution<C> dy(C(0), C(4));
    for (int it = 0; it < 4000; ++it) {
        C x = (it < 6) ? static_cast<C>(it) : dx(rng);
        C y = (it < 4) ? static_cast<C>(it) : dy(rng);
        if (!(x < C(6)) || !(y < C(4))) {
            continue;
        }
        std::size_t i = static_cast<std::size_t>(x);
        std::size_t j = static_cast<std::size_t>(y);
        C a = x - std::trunc(x);
        C b = y - std::trunc(y);
        C ra = C(1.) - a;
        C rb = C(1.) - b;
        auto got = lv.at(x, y);
        for (std::size_t q = 0; q < VD::size; ++q) {
            V want = ra * rb * static_cast<C>(sv.at(i, j)[q]) +
                     ra * b * static_cast<C>(sv.at(i, j + 1)[q]) +
                     a * rb * static_cast<C>(sv.at(i + 1, j)[q]) +
                     a * b * static_cast<C>(sv.at(i + 1, j + 1)[q]);
            CHECK(same_bits(static_cast<V>(got[q]), want));
            g_digest.val(got[q]);
        }
    }
}

template <typename CD, typename VD>
void test_linear_3d()
{
    using C = typename CD::type;
    using V = typename VD::type;
    using base_t =
        covfie::backend::strided<covfie::vector::size3, covfie::backend::array<VD>>;
    using sfield_t = covfie::field<base_t>;
    using lfield_t = covfie::field<covfie::backend::linear<base_t, CD>>;

    ext_t<3> e{5ul, 4ul, 6ul};
    sfield_t s(covfie::make_parameter_pack(
        typename sfield_t::backend_t::configuration_t(e)
    ));
    fill_field<3>(s, e);
    lfield_t lf = load_from_string<lfield_t>(dump_to_string(s));
    typename lfield_t::view_t lv(lf);
    typename sfield_t::view_t sv(s);

    std::mt19937_64 rng(55);
    std::uniform_real_distribution<C> dx(C(0), C(4));
    std::uniform_real_distribution<C> dy(C(0), C(3));
    std::uniform_real_distribution<C> dz(C(0), C(5));
    for (int it = 0; it < 4000; ++it) {
        C x = (it < 4) ? static_cast<C>(it) : dx(rng);
        C y = (it < 3) ? static_cast<C>(it) : dy(rng);
        C z = (it < 5) ? static_cast<C>(it) : dz(rng);
        if (!(x < C(4)) || !(y < C(3)) || !(z < C(5))) {
            continue;
        }
        std::size_t i = static_cast<std::size_t>(x);
        std::size_t j = static_cast<std::size_t>(y);
        std::size_t k = static_cast<std::size_t>(z);
        C a = x - std::trunc(x);
        C b = y - std::trunc(y);
        C c = z - std::trunc(z);
        C ra = C(1.) - a;
        C rb = C(1.) - b;
        C rc = C(1.) - c;
        auto got = lv.at(x, y, z);
        for (std::size_t q = 0; q < VD::size; ++q) {
            V want =
                ra * rb * rc * static_cast<C>(sv.at(i, j, k)[q]) +
                ra * rb * c * static_cast<C>(sv.at(i, j, k + 1)[q]) +
                ra * b * rc * static_cast<C>(sv.at(i, j + 1, k)[q]) +
                ra * b * c * static_cast<C>(sv.at(i, j + 1, k + 1)[q]) +
                a * rb * rc * static_cast<C>(sv.at(i + 1, j, k)[q]) +
                a * rb * c * static_cast<C>(sv.at(i + 1, j, k + 1)[q]) +
                a * b * rc * static_cast<C>(sv.at(i + 1, j + 1, k)[q]) +
                a * b * c * static_cast<C>(sv.at(i + 1, j + 1, k + 1)[q]);
            CHECK(same_bits(static_cast<V>(got[q]), want));
            g_digest.val(got[q]);
        }
    }
}

template <typename CD, typename VD>
void test_linear_4d()
{
    using C = typename CD::type;
    using V = typename VD::type;
    using base_t =
        covfie::backend::strided<covfie::vector::size4, covfie::backend::array<VD>>;
    using sfield_t = covfie::field<base_t>;
    using lfield_t = covfie::field<covfie::backend::linear<base_t, CD>>;

    ext_t<4> e{3ul, 4ul, 2ul, 5ul};
    sfield_t s(covfie::make_parameter_pack(
        typename sfield_t::backend_t::configuration_t(e)
    ));
    fill_field<4>(s, e);
    lfield_t lf = load_from_string<lfield_t>(dump_to_string(s));
    typename lfield_t::view_t lv(lf);
    typename sfield_t::view_t sv(s);

    std::mt19937_64 rng(33);
    std::uniform_real_distribution<C> d0(C(0), C(2));
    std::uniform_real_distribution<C> d1(C(0), C(3));
    std::uniform_real_distribution<C> d2(C(0), C(1));
    std::uniform_real_distribution<C> d3(C(0), C(4));
    for (int it = 0; it < 3000; ++it) {
        C x[4] = {d0(rng), d1(rng), d2(rng), d3(rng)};
        if (it < 2) {
            for (C & v : x) {
                v = std::trunc(v);
            }
        }
        if (!(x[0] < C(2)) || !(x[1] < C(3)) || !(x[2] < C(1)) ||
            !(x[3] < C(4)))
        {
            continue;
        }
        std::size_t is[4];
        C vs[4], rs[4];
        for (std::size_t n = 0; n < 4; ++n) {
            is[n] = static_cast<std::size_t>(x[n]);
            vs[n] = x[n] - std::trunc(x[n]);
            rs[n] = C(1.) - vs[n];
        }
        auto got = lv.at(x[0], x[1], x[2], x[3]);
        for (std::size_t q = 0; q < VD::size; ++q) {
            V want = 0.f;
            for (std::size_t n = 0; n < 16; ++n) {
                C f{1.};
                for (std::size_t m = 0; m < 4; ++m) {
                    if (n & (std::size_t(1) << m)) {
                        f *= vs[m];
                    } else {
                        f *= rs[m];
                    }
                }
                want += f * static_cast<C>(sv.at(
                                is[0] + ((n & 1) ? 1 : 0),
                                is[1] + ((n & 2) ? 1 : 0),
                                is[2] + ((n & 4) ? 1 : 0),
                                is[3] + ((n & 8) ? 1 : 0)
                            )[q]);
            }
            CHECK(same_bits(static_cast<V>(got[q]), want));
            g_digest.val(got[q]);
        }
    }
}

// Interpolating the identity over signed integer coordinates, including
// negative positions.
void test_linear_identity()
{
    using field_t =
        covfie::field<covfie::backend::linear<covfie::backend::covariant_cast<
            float,
            covfie::backend::identity<covfie::vector::int3>>>>;
    field_t f(covfie::make_parameter_pack(
        field_t::backend_t::configuration_t({}),
        field_t::backend_t::backend_t::configuration_t({}),
        field_t::backend_t::backend_t::backend_t::configuration_t({})
    ));
    field_t::view_t fv(f);
    std::mt19937_64 rng(5);
    std::uniform_real_distribution<float> d(-50.f, 50.f);
    for (int i = 0; i < 5000; ++i) {
        float x = d(rng), y = d(rng), z = d(rng);
        auto got = fv.at(x, y, z);
        g_digest.val(got[0]);
        g_digest.val(got[1]);
        g_digest.val(got[2]);
        CHECK(std::fabs(got[0] - x) < 1e-3f || x < 0.f);
    }
}

// ---------------------------------------------------------------------------
// H: a deeper stack: affine . linear . clamp-free strided, plus threads
// ---------------------------------------------------------------------------
void test_stack_and_threads()
{
    using base_t = covfie::backend::strided<
        covfie::vector::size3,
        covfie::backend::array<covfie::vector::float3>>;
    using sfield_t = covfie::field<base_t>;
    using stack_t =
        covfie::field<covfie::backend::affine<covfie::backend::linear<base_t>>>;
    using nstack_t = covfie::field<
        covfie::backend::affine<covfie::backend::nearest_neighbour<base_t>>>;

    ext_t<3> e{6ul, 7ul, 5ul};
    sfield_t s(covfie::make_parameter_pack(sfield_t::backend_t::configuration_t(e
    )));
    fill_field<3>(s, e);

    auto tr = covfie::algebra::affine<3>::scaling(0.5f, 0.25f, 2.f) *
              covfie::algebra::affine<3>::translation(1.f, 2.f, 0.5f);

    stack_t st(covfie::make_parameter_pack(
        stack_t::backend_t::configuration_t(tr),
        stack_t::backend_t::backend_t::configuration_t{},
        s.backend()
    ));
    nstack_t ns(covfie::make_parameter_pack(
        nstack_t::backend_t::configuration_t(tr),
        nstack_t::backend_t::backend_t::configuration_t{},
        s.backend()
    ));

    std::string sb = dump_to_string(st);
    g_digest.str(sb);
    stack_t st2 = load_from_string<stack_t>(sb);
    CHECK(dump_to_string(st2) == sb);
    // same bytes can be read back with the other interpolator
    nstack_t ns2 = load_from_string<nstack_t>(sb);
    CHECK(dump_to_string(ns2) == dump_to_string(ns));

    auto scan = [](const auto & fld, unsigned seed) {
        digest_t d;
        typename std::decay_t<decltype(fld)>::view_t v(fld);
        std::mt19937_64 rng(seed);
        // after the transform x in [0,5), y in [0,6), z in [0,4)
        std::uniform_real_distribution<float> dx(-1.f, 8.9f);
        std::uniform_real_distribution<float> dy(-2.f, 21.9f);
        std::uniform_real_distribution<float> dz(-0.5f, 1.49f);
        for (int i = 0; i < 20000; ++i) {
            float x = dx(rng), y = dy(rng), z = dz(rng);
            float tx = 0.5f * (x + 1.f), ty = 0.25f * (y + 2.f),
                  tz = 2.f * (z + 0.5f);
            if (!(tx >= 0.f && tx < 4.99f && ty >= 0.f && ty < 5.99f &&
                  tz >= 0.f && tz < 3.99f))
            {
                continue;
            }
            auto r = v.at(x, y, z);
            d.val(r[0]);
            d.val(r[1]);
            d.val(r[2]);
        }
        return d.h;
    };

    const std::uint64_t ref_l = scan(st, 1);
    const std::uint64_t ref_n = scan(ns, 1);
    CHECK(scan(st2, 1) == ref_l);
    CHECK(scan(ns2, 1) == ref_n);
    g_digest.val(ref_l);
    g_digest.val(ref_n);

    // concurrent readers over shared, const fields; each also makes private
    // copies and round-trips them.
    constexpr int T = 4;
    std::uint64_t out_l[T] = {}, out_n[T] = {}, out_c[T] = {};
    bool ok[T] = {};
    {
        std::vector<std::thread> th;
        const stack_t & cst = st;
        const nstack_t & cns = ns;
        for (int t = 0; t < T; ++t) {
            th.emplace_back([&, t]() {
                out_l[t] = scan(cst, 1);
                out_n[t] = scan(cns, 1);
                stack_t priv(cst);
                stack_t priv2;
                priv2 = priv;
                stack_t priv3(std::move(priv));
                out_c[t] = scan(priv3, 1);
                std::ostringstream os(std::ios::binary);
                priv2.dump(os);
                ok[t] = (os.str() == sb);
            });
        }
        for (auto & x : th) {
            x.join();
        }
    }
    for (int t = 0; t < T; ++t) {
        CHECK(out_l[t] == ref_l);
        CHECK(out_n[t] == ref_n);
        CHECK(out_c[t] == ref_l);
        CHECK(ok[t]);
    }
}

// ---------------------------------------------------------------------------
// I: IO failure paths: every strict prefix of a valid stream is rejected with
// an exception, nothing leaks, nothing is read out of bounds.
// ---------------------------------------------------------------------------
template <typename F>
void test_truncation(const F & f)
{
    std::string bytes = dump_to_string(f);
    for (std::size_t len = 0; len < bytes.size(); ++len) {
        std::istringstream is(bytes.substr(0, len), std::ios::binary);
        bool threw = false;
        try {
            F g(is);
        } catch (const std::runtime_error &) {
            threw = true;
        }
        CHECK(threw);
    }
    // flipping a bit in each of the header/footer words is detected
    for (std::size_t pos : {std::size_t(0), std::size_t(4),
                            bytes.size() - 8, bytes.size() - 4}) {
        std::string b2 = bytes;
        b2[pos] = static_cast<char>(b2[pos] ^ 0x01);
        std::istringstream is(b2, std::ios::binary);
        bool threw = false;
        try {
            F g(is);
        } catch (const std::runtime_error &) {
            threw = true;
        }
        CHECK(threw);
    }
    // unsupported float width
    {
        using A = covfie::field<covfie::backend::array<covfie::vector::float1>>;
        A a(covfie::make_parameter_pack(A::backend_t::configuration_t{2ul}));
        std::string b = dump_to_string(a);
        b[16] = 5;
        std::istringstream is(b, std::ios::binary);
        bool threw = false;
        try {
            A g(is);
        } catch (const std::runtime_error &) {
            threw = true;
        }
        CHECK(threw);
    }
}

void test_io_failures()
{
    {
        using F = covfie::field<covfie::backend::array<covfie::vector::double2>>;
        F f(covfie::make_parameter_pack(F::backend_t::configuration_t{3ul}));
        test_truncation(f);
    }
    {
        using F = covfie::field<covfie::backend::strided<
            covfie::vector::size2,
            covfie::backend::array<covfie::vector::float3>>>;
        ext_t<2> e{2ul, 3ul};
        F f(covfie::make_parameter_pack(F::backend_t::configuration_t(e)));
        fill_field<2>(f, e);
        test_truncation(f);

        using S = covfie::field<covfie::backend::strided<
            covfie::vector::size2,
            covfie::backend::array<covfie::vector::float3>>>;
        using M = covfie::field<covfie::backend::morton<
            covfie::vector::size2,
            covfie::backend::array<covfie::vector::float3>>>;
        S s(f);
        M m(s);
        test_truncation(m);
    }
}

// ---------------------------------------------------------------------------
// J: numeric helpers
// ---------------------------------------------------------------------------
void test_numeric()
{
    using covfie::utility::ipow;
    using covfie::utility::round_pow2;
    for (std::size_t i = 0; i < 5000; ++i) {
        std::size_t r = round_pow2(i);
        CHECK(r >= i && r >= 1 && (r & (r - 1)) == 0 && (r == 1 || r / 2 < i));
        g_digest.val(r);
    }
    CHECK(round_pow2(std::size_t(1) << 40) == (std::size_t(1) << 40));
    CHECK(round_pow2((std::size_t(1) << 40) + 1) == (std::size_t(1) << 41));
    CHECK(round_pow2(0) == 1 && round_pow2(1) == 1 && round_pow2(3) == 4);
    CHECK(round_pow2(static_cast<unsigned char>(100)) == 128);
    for (std::size_t b = 0; b < 12; ++b) {
        for (std::size_t p = 0; p < 9; ++p) {
            std::size_t want = 1;
            for (std::size_t k = 0; k < p; ++k) {
                want *= b;
            }
            CHECK(ipow(b, p) == want);
        }
    }
    CHECK(ipow(2, 10) == 1024);
    CHECK(ipow(std::size_t(2), std::size_t(63)) == (std::size_t(1) << 63));
}
}

int main()
{
    test_small_array();
    test_algebra_for<float>();
    test_algebra_for<double>();

    test_primitive_array<covfie::vector::float1>();
    test_primitive_array<covfie::vector::float3>();
    test_primitive_array<covfie::vector::double2>();
    test_primitive_array<covfie::vector::double4>();
    test_primitive_array_conversion();

    using namespace covfie::vector;

    test_strided<size1, float1>({{0ul}, {1ul}, {2ul}, {13ul}});
    test_strided<size2, float3>(
        {{0ul, 0ul}, {0ul, 4ul}, {3ul, 0ul}, {1ul, 1ul}, {1ul, 9ul},
         {9ul, 1ul}, {2ul, 3ul}, {5ul, 7ul}, {16ul, 16ul}}
    );
    test_strided<size3, double3>(
        {{0ul, 2ul, 3ul}, {1ul, 1ul, 1ul}, {2ul, 3ul, 5ul}, {7ul, 1ul, 4ul},
         {4ul, 4ul, 4ul}, {1ul, 6ul, 1ul}, {3ul, 2ul, 0ul}}
    );
    test_strided<size4, float2>(
        {{1ul, 1ul, 1ul, 1ul}, {2ul, 3ul, 2ul, 3ul}, {3ul, 1ul, 4ul, 2ul},
         {2ul, 0ul, 2ul, 2ul}}
    );
    test_strided<ulong3, float1>({{2ul, 2ul, 2ul}, {3ul, 5ul, 2ul}});
    test_strided<uint2, double1>({{4ul, 3ul}, {1ul, 8ul}, {6ul, 6ul}});
    test_strided<uint3, float3>({{4ul, 3ul, 2ul}, {2ul, 1ul, 5ul}});

    test_morton<size1, float1, true>({{1ul}, {2ul}, {5ul}, {8ul}});
    test_morton<size2, float3, true>(
        {{1ul, 1ul}, {2ul, 2ul}, {3ul, 5ul}, {8ul, 8ul}, {5ul, 1ul},
         {1ul, 7ul}, {9ul, 4ul}, {0ul, 3ul}, {0ul, 0ul}}
    );
    test_morton<size2, double2, false>(
        {{1ul, 1ul}, {2ul, 3ul}, {7ul, 7ul}, {16ul, 2ul}}
    );
    test_morton<size3, float3, true>(
        {{1ul, 1ul, 1ul}, {2ul, 2ul, 2ul}, {4ul, 7ul, 3ul}, {5ul, 1ul, 2ul},
         {8ul, 8ul, 8ul}, {3ul, 0ul, 2ul}}
    );
    test_morton<size3, double1, false>({{3ul, 4ul, 5ul}, {1ul, 9ul, 1ul}});
    test_morton<size4, float1, true>({{2ul, 3ul, 1ul, 4ul}});
    test_morton<uint2, float2, true>({{3ul, 6ul}, {4ul, 4ul}});
    test_morton<uint3, float1, false>({{3ul, 2ul, 4ul}});

    test_nearest_neighbour<float2>();
    test_nearest_neighbour<double2>();

    test_linear_1d<float1, float3>();
    test_linear_1d<double1, double2>();
    test_linear_1d<double1, float1>();
    test_linear_2d<float2, float3>();
    test_linear_2d<double2, double1>();
    test_linear_2d<float2, double2>();
    test_linear_3d<float3, float3>();
    test_linear_3d<double3, double3>();
    test_linear_3d<double3, float2>();
    test_linear_4d<float4, float2>();
    test_linear_4d<double4, double1>();
    test_linear_identity();

    test_stack_and_threads();
    test_io_failures();
    test_numeric();

    std::printf(
        "checks=%ld digest=%016llx\n",
        g_checks,
        static_cast<unsigned long long>(g_digest.h)
    );

    if (g_failures != 0) {
        std::printf("FAIL (%d failed checks)\n", g_failures);
        return 1;
    }

    std::printf("PASS\n");
    return 0;
}
