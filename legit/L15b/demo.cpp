// Standalone exerciser for the L15b hardening change (property C15).
//
// It uses only API that exists both before and after the change and prints
// PASS / exits 0 against either version of the headers.
//
// Compile (from the worktree root; replace lib/core by a pristine export of
// `git archive HEAD lib` to run it against the unchanged library):
//
//   g++ -std=c++20 -O0 -g -Ilib/core seeded/demo.cpp -o demo_dbg -pthread
//   g++ -std=c++20 -O2 -DNDEBUG -Ilib/core seeded/demo.cpp -o demo_rel -pthread
//   g++ -std=c++20 -O2 -DNDEBUG -mbmi2 -Ilib/core seeded/demo.cpp -o demo_bmi2 -pthread
//   g++ -std=c++20 -O1 -g -fsanitize=address,undefined -fno-sanitize-recover=all
//     -Ilib/core seeded/demo.cpp -o demo_asan -pthread   (one line)
//   g++ -std=c++20 -O1 -g -fsanitize=thread -Ilib/core seeded/demo.cpp -o demo_tsan -pthread
//   valgrind --error-exitcode=9 --leak-check=full ./demo_dbg
//
// `./demo --digest` additionally prints a digest of everything that was
// computed, which must be the same for all build flavours and for both
// versions of the headers.

#include <algorithm>
#include <cstdint>
#include <cstdio>
#include <cstring>
#include <iostream>
#include <random>
#include <sstream>
#include <stdexcept>
#include <string>
#include <thread>
#include <type_traits>
#include <utility>
#include <vector>

#include <covfie/core/algebra/affine.hpp>
#include <covfie/core/algebra/matrix.hpp>
#include <covfie/core/algebra/vector.hpp>
#include <covfie/core/array.hpp>
#include <covfie/core/backend/primitive/array.hpp>
#include <covfie/core/backend/transformer/affine.hpp>
#include <covfie/core/backend/transformer/hilbert.hpp>
#include <covfie/core/backend/transformer/morton.hpp>
#include <covfie/core/backend/transformer/strided.hpp>
#include <covfie/core/field.hpp>
#include <covfie/core/field_view.hpp>
#include <covfie/core/parameter_pack.hpp>
#include <covfie/core/utility/binary_io.hpp>
#include <covfie/core/utility/nd_size.hpp>
#include <covfie/core/utility/numeric.hpp>
#include <covfie/core/vector.hpp>

namespace {
int g_failures = 0;
std::uint64_t g_digest = 0xcbf29ce484222325ull;

void digest_bytes(const void * p, std::size_t n)
{
    const unsigned char * c = static_cast<const unsigned char *>(p);
    for (std::size_t i = 0; i < n; ++i) {
        g_digest = (g_digest ^ c[i]) * 0x100000001b3ull;
    }
}

template <typename T>
void digest(const T & v)
{
    static_assert(std::is_trivially_copyable_v<T>);
    digest_bytes(&v, sizeof(T));
}

#define CHECK(cond)                                                            \
    do {                                                                       \
        if (!(cond)) {                                                         \
            ++g_failures;                                                      \
            std::fprintf(                                                      \
                stderr, "CHECK failed at line %d: %s\n", __LINE__, #cond       \
            );                                                                 \
        }                                                                      \
    } while (0)

namespace cb = covfie::backend;
namespace cv = covfie::vector;

// ---------------------------------------------------------------------------
// Independent reference implementations.
// ---------------------------------------------------------------------------
template <std::size_t N>
std::size_t ref_product(const covfie::utility::nd_size<N> & s)
{
    std::size_t r = 1;
    for (std::size_t i = 0; i < N; ++i) {
        r *= s[i];
    }
    return r;
}

template <std::size_t N>
std::size_t ref_row_major(
    const covfie::utility::nd_size<N> & c,
    const covfie::utility::nd_size<N> & s
)
{
    std::size_t idx = 0;
    for (std::size_t k = 0; k < N; ++k) {
        std::size_t t = c[k];
        for (std::size_t l = k + 1; l < N; ++l) {
            t *= s[l];
        }
        idx += t;
    }
    return idx;
}

// Bit i of coordinate j goes to bit i * N + j; only 64 / N bits per coordinate.
template <std::size_t N>
std::uint64_t ref_morton(const covfie::utility::nd_size<N> & c)
{
    std::uint64_t r = 0;
    for (std::size_t i = 0; i < 64 / N; ++i) {
        for (std::size_t j = 0; j < N; ++j) {
            const std::uint64_t bit = (static_cast<std::uint64_t>(c[j]) >> i) & 1u;
            r |= bit << (i * N + j);
        }
    }
    return r;
}

template <std::size_t N, typename F>
void for_each_coord(const covfie::utility::nd_size<N> & s, F && f)
{
    const std::size_t total = ref_product<N>(s);
    covfie::utility::nd_size<N> c;
    for (std::size_t i = 0; i < N; ++i) {
        c[i] = 0;
    }
    for (std::size_t n = 0; n < total; ++n) {
        f(c);
        for (std::size_t k = N; k-- > 0;) {
            if (++c[k] < s[k]) {
                break;
            }
            c[k] = 0;
        }
    }
}

template <typename scalar_t, std::size_t N>
scalar_t pattern(const covfie::utility::nd_size<N> & c, std::size_t comp, unsigned salt)
{
    // Exactly representable in float: small integers and halves.
    std::size_t h = salt;
    for (std::size_t i = 0; i < N; ++i) {
        h = h * 31 + c[i];
    }
    h = h * 7 + comp;
    return static_cast<scalar_t>(static_cast<double>(h % 4096) * 0.5 - 512.0);
}

// ---------------------------------------------------------------------------
// Byte level helpers for the on-disk format.
// ---------------------------------------------------------------------------
template <typename T>
void put(std::string & s, const T & v)
{
    char buf[sizeof(T)];
    std::memcpy(buf, &v, sizeof(T));
    s.append(buf, sizeof(T));
}

constexpr std::uint32_t MAGIC_H = 0xC04F1EAB;
constexpr std::uint32_t MAGIC_F = 0xC04F1E70;

void put_hdr(std::string & s, std::uint32_t tag)
{
    put<std::uint32_t>(s, MAGIC_H);
    put<std::uint32_t>(s, tag);
}

void put_ftr(std::string & s, std::uint32_t tag)
{
    put<std::uint32_t>(s, MAGIC_F);
    put<std::uint32_t>(s, tag + 0x20000000u);
}

// Expected serialisation of field<layout<sizeN, array<scalar x D>>> where the
// payload is given in storage order and stored on disk as disk_t.
template <typename disk_t, std::size_t N, typename mem_t>
std::string expected_bytes(
    std::uint32_t layout_tag,
    const covfie::utility::nd_size<N> & sizes,
    const std::vector<mem_t> & payload,
    std::size_t dims
)
{
    std::string s;
    put_hdr(s, 0xAB000000u);
    put_hdr(s, layout_tag);
    for (std::size_t i = 0; i < N; ++i) {
        put<std::uint64_t>(s, sizes[i]);
    }
    put_hdr(s, 0xAB010000u);
    put<std::uint32_t>(s, static_cast<std::uint32_t>(sizeof(disk_t)));
    put<std::uint64_t>(s, payload.size() / dims);
    for (const mem_t & v : payload) {
        put<disk_t>(s, static_cast<disk_t>(v));
    }
    put_ftr(s, 0xAB010000u);
    put_ftr(s, layout_tag);
    put_ftr(s, 0xAB000000u);
    return s;
}

template <typename field_t>
std::string dump_to_string(const field_t & f)
{
    std::ostringstream os(std::ios::binary);
    f.dump(os);
    CHECK(os.good());
    return os.str();
}

template <typename field_t>
field_t load_from_string(const std::string & s)
{
    std::istringstream is(s, std::ios::binary);
    field_t f(is);
    // Everything must have been consumed.
    CHECK(is.peek() == std::char_traits<char>::eof());
    return f;
}

// ---------------------------------------------------------------------------
// Strided fields.
// ---------------------------------------------------------------------------
template <typename in_vec, typename out_vec>
struct strided_suite {
    static constexpr std::size_t N = in_vec::size;
    static constexpr std::size_t D = out_vec::size;
    using scalar_t = typename out_vec::type;
    using backend_t = cb::strided<in_vec, cb::array<out_vec>>;
    using field_t = covfie::field<backend_t>;
    using view_t = typename field_t::view_t;
    using sizes_t = covfie::utility::nd_size<N>;
    using coord_t = typename field_t::coordinate_t;

    static coord_t to_coord(const sizes_t & c)
    {
        coord_t r;
        for (std::size_t i = 0; i < N; ++i) {
            r[i] = static_cast<typename in_vec::type>(c[i]);
        }
        return r;
    }

    static field_t make(const sizes_t & sizes, unsigned salt)
    {
        field_t f(covfie::make_parameter_pack(
            typename backend_t::configuration_t(sizes)
        ));
        view_t v(f);
        for_each_coord<N>(sizes, [&](const sizes_t & c) {
            for (std::size_t j = 0; j < D; ++j) {
                v.at(to_coord(c))[j] = pattern<scalar_t, N>(c, j, salt);
            }
        });
        return f;
    }

    static void verify(const field_t & f, const sizes_t & sizes, unsigned salt)
    {
        const auto & st = f.backend();
        sizes_t got = st.get_configuration();
        for (std::size_t i = 0; i < N; ++i) {
            CHECK(got[i] == sizes[i]);
            digest(got[i]);
        }
        const std::size_t total = ref_product<N>(sizes);
        CHECK(st.get_backend().m_size == total);
        CHECK(st.get_backend().get_configuration()[0] == total);

        view_t v(f);
        for_each_coord<N>(sizes, [&](const sizes_t & c) {
            const std::size_t lin = ref_row_major<N>(c, sizes);
            for (std::size_t j = 0; j < D; ++j) {
                const scalar_t e = pattern<scalar_t, N>(c, j, salt);
                CHECK(v.at(to_coord(c))[j] == e);
                // Row-major layout of the underlying storage.
                CHECK(st.get_backend().m_ptr[lin][j] == e);
                digest(e);
            }
        });
    }

    static std::vector<scalar_t> payload(const sizes_t & sizes, unsigned salt)
    {
        std::vector<scalar_t> p;
        for_each_coord<N>(sizes, [&](const sizes_t & c) {
            for (std::size_t j = 0; j < D; ++j) {
                p.push_back(pattern<scalar_t, N>(c, j, salt));
            }
        });
        return p;
    }

    static void run_shape(const sizes_t & sizes, unsigned salt)
    {
        field_t f = make(sizes, salt);
        verify(f, sizes, salt);

        // Copy construction is deep.
        field_t c(f);
        verify(c, sizes, salt);
        if (ref_product<N>(sizes) > 0) {
            CHECK(
                c.backend().get_backend().m_ptr.get() !=
                f.backend().get_backend().m_ptr.get()
            );
        }

        // Copy assignment over a field of another shape, and over itself.
        sizes_t other;
        for (std::size_t i = 0; i < N; ++i) {
            other[i] = (sizes[i] % 3) + 1;
        }
        field_t a = make(other, salt + 1);
        verify(a, other, salt + 1);
        a = f;
        verify(a, sizes, salt);
        field_t & alias = a;
        a = alias;
        verify(a, sizes, salt);

        // Writing to the copy does not affect the original.
        if (ref_product<N>(sizes) > 0) {
            view_t av(a);
            sizes_t zero;
            for (std::size_t i = 0; i < N; ++i) {
                zero[i] = 0;
            }
            av.at(to_coord(zero))[0] = static_cast<scalar_t>(12345);
            verify(f, sizes, salt);
            verify(c, sizes, salt);
        }

        // Move construction and move assignment; the moved-from objects are
        // only assigned to and destroyed.
        field_t m(std::move(c));
        verify(m, sizes, salt);
        c = make(other, salt + 2);
        verify(c, other, salt + 2);
        field_t n = make(other, salt + 3);
        n = std::move(m);
        verify(n, sizes, salt);
        m = n;
        verify(m, sizes, salt);

        // Serialisation: exact bytes, then a round trip.
        const std::string bytes = dump_to_string(f);
        const std::string expect = expected_bytes<scalar_t, N, scalar_t>(
            0xAB020010u, sizes, payload(sizes, salt), D
        );
        CHECK(bytes == expect);
        digest_bytes(bytes.data(), bytes.size());

        field_t l = load_from_string<field_t>(bytes);
        verify(l, sizes, salt);
        CHECK(dump_to_string(l) == bytes);

        // Loading data that was written in the other precision.
        using other_t =
            std::conditional_t<std::is_same_v<scalar_t, float>, double, float>;
        const std::string obytes = expected_bytes<other_t, N, scalar_t>(
            0xAB020010u, sizes, payload(sizes, salt), D
        );
        field_t lo = load_from_string<field_t>(obytes);
        verify(lo, sizes, salt);
        CHECK(dump_to_string(lo) == bytes);
    }

    static void run_truncation(const sizes_t & sizes, unsigned salt)
    {
        field_t f = make(sizes, salt);
        const std::string bytes = dump_to_string(f);
        for (std::size_t n = 0; n < bytes.size(); ++n) {
            bool threw = false;
            try {
                std::istringstream is(bytes.substr(0, n), std::ios::binary);
                field_t g(is);
            } catch (const std::runtime_error &) {
                threw = true;
            }
            CHECK(threw);
        }
        // Corrupt float width.
        {
            std::string b = bytes;
            const std::size_t off = 8 + 8 + 8 * N + 8;
            b[off] = 5;
            bool threw = false;
            try {
                std::istringstream is(b, std::ios::binary);
                field_t g(is);
            } catch (const std::runtime_error &) {
                threw = true;
            }
            CHECK(threw);
        }
        // Corrupt magic numbers: every header/footer word.
        for (std::size_t off : {std::size_t(0), std::size_t(4), std::size_t(8),
                                std::size_t(12), bytes.size() - 4,
                                bytes.size() - 8, bytes.size() - 12,
                                bytes.size() - 24}) {
            std::string b = bytes;
            b[off] = static_cast<char>(b[off] ^ 0x40);
            bool threw = false;
            try {
                std::istringstream is(b, std::ios::binary);
                field_t g(is);
            } catch (const std::runtime_error &) {
                threw = true;
            }
            CHECK(threw);
        }
    }
};

// ---------------------------------------------------------------------------
// Space filling curves on top of strided fields.
// ---------------------------------------------------------------------------
template <std::size_t N, typename out_vec, bool bmi2>
struct morton_suite {
    using in_vec = cv::vector_d<std::size_t, N>;
    static constexpr std::size_t D = out_vec::size;
    using scalar_t = typename out_vec::type;
    using S = strided_suite<in_vec, out_vec>;
    using sizes_t = typename S::sizes_t;
    using backend_t = cb::morton<in_vec, cb::array<out_vec>, bmi2>;
    using field_t = covfie::field<backend_t>;
    using view_t = typename field_t::view_t;

    static std::size_t storage_size(const sizes_t & sizes)
    {
        std::size_t m = 0;
        for (std::size_t i = 0; i < N; ++i) {
            m = std::max(m, sizes[i]);
        }
        std::size_t p = 1;
        while (p < m) {
            p *= 2;
        }
        std::size_t r = 1;
        for (std::size_t i = 0; i < N; ++i) {
            r *= p;
        }
        return r;
    }

    static void verify(const field_t & f, const sizes_t & sizes, unsigned salt)
    {
        const auto & st = f.backend();
        sizes_t got = st.get_configuration();
        for (std::size_t i = 0; i < N; ++i) {
            CHECK(got[i] == sizes[i]);
        }
        CHECK(st.get_backend().m_size == storage_size(sizes));

        view_t v(f);
        std::vector<bool> used(storage_size(sizes), false);
        for_each_coord<N>(sizes, [&](const sizes_t & c) {
            const std::size_t idx = backend_t::calculate_index(S::to_coord(c));
            CHECK(idx == ref_morton<N>(c));
            CHECK(idx < used.size());
            if (idx < used.size()) {
                CHECK(!used[idx]);
                used[idx] = true;
            }
            digest(idx);
            for (std::size_t j = 0; j < D; ++j) {
                const scalar_t e = pattern<scalar_t, N>(c, j, salt);
                CHECK(v.at(S::to_coord(c))[j] == e);
                if (idx < used.size()) {
                    CHECK(st.get_backend().m_ptr[idx][j] == e);
                }
            }
        });
        // Padding cells are value-initialised.
        for (std::size_t i = 0; i < used.size(); ++i) {
            if (!used[i]) {
                for (std::size_t j = 0; j < D; ++j) {
                    CHECK(st.get_backend().m_ptr[i][j] == static_cast<scalar_t>(0));
                }
            }
        }
    }

    static void run_shape(const sizes_t & sizes, unsigned salt)
    {
        typename S::field_t sf = S::make(sizes, salt);
        field_t f(sf);
        verify(f, sizes, salt);
        S::verify(sf, sizes, salt);

        field_t c(f);
        verify(c, sizes, salt);
        field_t m(std::move(c));
        verify(m, sizes, salt);
        c = m;
        verify(c, sizes, salt);
        field_t & alias = c;
        c = alias;
        verify(c, sizes, salt);
        c = std::move(m);
        verify(c, sizes, salt);

        const std::string bytes = dump_to_string(f);
        digest_bytes(bytes.data(), bytes.size());
        // Payload in storage order.
        std::vector<scalar_t> pl(storage_size(sizes) * D, static_cast<scalar_t>(0));
        for_each_coord<N>(sizes, [&](const sizes_t & cc) {
            for (std::size_t j = 0; j < D; ++j) {
                pl[ref_morton<N>(cc) * D + j] = pattern<scalar_t, N>(cc, j, salt);
            }
        });
        CHECK(
            bytes ==
            (expected_bytes<scalar_t, N, scalar_t>(0xAB020006u, sizes, pl, D))
        );
        field_t l = load_from_string<field_t>(bytes);
        verify(l, sizes, salt);
        CHECK(dump_to_string(l) == bytes);
    }

    static void run_index(std::mt19937_64 & rng)
    {
        // Random coordinates which use all bits that both code paths honour.
        const unsigned bits = static_cast<unsigned>(64 / N);
        for (int it = 0; it < 20000; ++it) {
            sizes_t c;
            for (std::size_t j = 0; j < N; ++j) {
                std::uint64_t r = rng();
                if (bits < 64) {
                    r &= (std::uint64_t(1) << bits) - 1;
                }
                if (it % 4 == 1) {
                    r >>= (rng() % bits);
                }
                c[j] = static_cast<std::size_t>(r);
            }
            const std::size_t idx = backend_t::calculate_index(S::to_coord(c));
            CHECK(idx == ref_morton<N>(c));
            digest(idx);
        }
        // Single bits.
        for (std::size_t j = 0; j < N; ++j) {
            for (unsigned b = 0; b < bits; ++b) {
                sizes_t c;
                for (std::size_t k = 0; k < N; ++k) {
                    c[k] = 0;
                }
                c[j] = std::size_t(1) << b;
                CHECK(
                    backend_t::calculate_index(S::to_coord(c)) ==
                    (std::uint64_t(1) << (b * N + j))
                );
            }
        }
        if constexpr (!bmi2) {
            // The portable path ignores the bits above 64 / N.
            for (int it = 0; it < 2000; ++it) {
                sizes_t c, d;
                for (std::size_t j = 0; j < N; ++j) {
                    c[j] = static_cast<std::size_t>(rng());
                    d[j] = c[j];
                    if (bits < 64) {
                        d[j] &= (std::size_t(1) << bits) - 1;
                    }
                }
                CHECK(
                    backend_t::calculate_index(S::to_coord(c)) ==
                    backend_t::calculate_index(S::to_coord(d))
                );
                CHECK(
                    backend_t::calculate_index(S::to_coord(c)) == ref_morton<N>(d)
                );
            }
        }
    }
};

void run_hilbert(std::size_t nx, std::size_t ny, unsigned salt)
{
    using S = strided_suite<cv::size2, cv::float2>;
    using backend_t = cb::hilbert<cv::size2, cb::array<cv::float2>>;
    using field_t = covfie::field<backend_t>;
    S::sizes_t sizes{nx, ny};
    S::field_t sf = S::make(sizes, salt);
    field_t f(sf);
    field_t c(f);
    field_t l = load_from_string<field_t>(dump_to_string(c));
    field_t::view_t v(l);
    for_each_coord<2>(sizes, [&](const S::sizes_t & cc) {
        for (std::size_t j = 0; j < 2; ++j) {
            CHECK(v.at(cc[0], cc[1])[j] == (pattern<float, 2>(cc, j, salt)));
        }
    });
    digest_bytes(dump_to_string(l).data(), dump_to_string(l).size());
}

// ---------------------------------------------------------------------------
// Empty and default constructed fields.
// ---------------------------------------------------------------------------
void run_empty()
{
    using S3 = strided_suite<cv::size3, cv::float3>;
    {
        S3::field_t d;
        S3::sizes_t z{0u, 0u, 0u};
        S3::verify(d, z, 0);
        S3::field_t c(d);
        S3::verify(c, z, 0);
        S3::field_t a = S3::make(S3::sizes_t{2u, 3u, 2u}, 5);
        a = d;
        S3::verify(a, z, 0);
        {
            S3::field_t & self = a;
            a = self;
        }
        S3::verify(a, z, 0);
        const std::string b = dump_to_string(d);
        CHECK(
            b == (expected_bytes<float, 3, float>(0xAB020010u, z, {}, 3))
        );
        S3::field_t l = load_from_string<S3::field_t>(b);
        S3::verify(l, z, 0);
        d = S3::make(S3::sizes_t{1u, 2u, 3u}, 6);
        S3::verify(d, S3::sizes_t{1u, 2u, 3u}, 6);
    }
    // Shapes in which only some extents are zero.
    S3::run_shape(S3::sizes_t{0u, 4u, 2u}, 1);
    S3::run_shape(S3::sizes_t{3u, 0u, 2u}, 2);
    S3::run_shape(S3::sizes_t{3u, 2u, 0u}, 3);
    // Huge extents next to a zero extent: the number of elements is zero.
    S3::run_shape(
        S3::sizes_t{std::size_t(1) << 40, std::size_t(1) << 40, 0u}, 4
    );
    S3::run_shape(S3::sizes_t{0u, ~std::size_t(0), ~std::size_t(0)}, 5);

    using M2 = morton_suite<2, cv::double1, false>;
    M2::run_shape(M2::sizes_t{0u, 0u}, 1);
    M2::run_shape(M2::sizes_t{0u, 5u}, 2);
    {
        // Default constructed objects are only destroyed or assigned to.
        M2::field_t d;
        d = M2::field_t(M2::S::make(M2::sizes_t{3u, 2u}, 9));
        M2::verify(d, M2::sizes_t{3u, 2u}, 9);
        covfie::field<cb::array<cv::float2>> e, e2(e), e3;
        e3 = e2;
        e3 = std::move(e);
        CHECK(e3.backend().m_size == 0);
        CHECK(e2.backend().get_configuration()[0] == 0);
        std::string b = dump_to_string(e3);
        auto l = load_from_string<covfie::field<cb::array<cv::float2>>>(b);
        CHECK(l.backend().m_size == 0);
    }
}

// ---------------------------------------------------------------------------
// Bare array backend and 32-bit coordinate types.
// ---------------------------------------------------------------------------
void run_misc()
{
    {
        using field_t = covfie::field<cb::array<cv::double3>>;
        field_t f(covfie::make_parameter_pack(field_t::backend_t::configuration_t{17u}));
        field_t::view_t v(f);
        for (std::size_t i = 0; i < 17; ++i) {
            for (std::size_t j = 0; j < 3; ++j) {
                CHECK(v.at(i)[j] == 0.0);
                v.at(i)[j] = static_cast<double>(i) * 0.25 + static_cast<double>(j);
            }
        }
        field_t g(f), h;
        h = g;
        {
            field_t & self = h;
            h = self;
        }
        field_t k(std::move(g));
        g = k;
        for (const field_t * p : {&f, &g, &h, &k}) {
            field_t::view_t w(*p);
            CHECK(p->backend().m_size == 17);
            for (std::size_t i = 0; i < 17; ++i) {
                for (std::size_t j = 0; j < 3; ++j) {
                    CHECK(
                        w.at(i)[j] ==
                        static_cast<double>(i) * 0.25 + static_cast<double>(j)
                    );
                }
            }
        }
        const std::string b = dump_to_string(h);
        digest_bytes(b.data(), b.size());
        field_t l = load_from_string<field_t>(b);
        CHECK(dump_to_string(l) == b);
    }
    {
        // Unsigned 32-bit coordinates.
        using S = strided_suite<cv::uint3, cv::float1>;
        S::run_shape(S::sizes_t{3u, 5u, 4u}, 77);
        using T = strided_suite<cv::vector_d<unsigned long, 2>, cv::double2>;
        T::run_shape(T::sizes_t{6u, 7u}, 78);
    }
    {
        // nd_size basics.
        covfie::utility::nd_size<4> z{};
        for (std::size_t i = 0; i < 4; ++i) {
            CHECK(z[i] == 0);
            CHECK(z.at(i) == 0);
        }
        covfie::utility::nd_size<4> a{1u, 2u, 3u, 4u}, b(a), c(7u);
        c = a;
        std::size_t sum = 0;
        for (std::size_t x : c) {
            sum += x;
        }
        CHECK(sum == 10);
        CHECK(b.size() == 4);
        CHECK(b.end() - b.begin() == 4);
        CHECK(b.cend() - b.cbegin() == 4);
        const std::size_t raw[3] = {9, 8, 7};
        covfie::utility::nd_size<3> r(raw);
        CHECK(r[0] == 9 && r[1] == 8 && r[2] == 7);
        CHECK(covfie::utility::round_pow2(std::size_t(0)) == 1);
        CHECK(covfie::utility::round_pow2(std::size_t(1000)) == 1024);
        CHECK(covfie::utility::ipow(std::size_t(16), std::size_t(3)) == 4096);
    }
}

// ---------------------------------------------------------------------------
// Algebra.
// ---------------------------------------------------------------------------
template <typename T, typename I>
void run_algebra()
{
    using namespace covfie::algebra;
    {
        matrix<2, 3, T, I> a(covfie::array::array<covfie::array::array<T, 3>, 2>(
            {covfie::array::array<T, 3>({T(1), T(2), T(3)}),
             covfie::array::array<T, 3>({T(4), T(5), T(6)})}
        ));
        matrix<3, 2, T, I> b(covfie::array::array<covfie::array::array<T, 2>, 3>(
            {covfie::array::array<T, 2>({T(7), T(8)}),
             covfie::array::array<T, 2>({T(9), T(10)}),
             covfie::array::array<T, 2>({T(11), T(12)})}
        ));
        matrix<2, 2, T, I> c = a * b;
        CHECK(c(0, 0) == T(58) && c(0, 1) == T(64));
        CHECK(c(1, 0) == T(139) && c(1, 1) == T(154));
        matrix<3, 3, T, I> d = b * a;
        const T ed[3][3] = {{39, 54, 69}, {49, 68, 87}, {59, 82, 105}};
        for (I i = 0; i < 3; ++i) {
            for (I j = 0; j < 3; ++j) {
                CHECK(d(i, j) == ed[i][j]);
                digest(d(i, j));
            }
        }
        matrix<2, 3, T, I> cp(a), as = matrix<2, 3, T, I>::identity();
        as = cp;
        as(1, 2) = T(60);
        CHECK(cp(1, 2) == T(6) && as(1, 2) == T(60) && as(0, 0) == T(1));
        auto id = matrix<3, 4, T, I>::identity();
        for (I i = 0; i < 3; ++i) {
            for (I j = 0; j < 4; ++j) {
                CHECK(id(i, j) == (i == j ? T(1) : T(0)));
            }
        }
        auto idp = matrix<3, 3, T, I>::identity() * d;
        for (I i = 0; i < 3; ++i) {
            for (I j = 0; j < 3; ++j) {
                CHECK(idp(i, j) == d(i, j));
            }
        }
    }
    {
        auto t = affine<3, T, I>::translation(T(1), T(-2), T(0.5));
        auto s = affine<3, T, I>::scaling(T(2), T(4), T(-8));
        vector<3, T, I> v(T(1), T(2), T(3));
        vector<3, T, I> tv = t * v, sv = s * v;
        CHECK(tv(0) == T(2) && tv(1) == T(0) && tv(2) == T(3.5));
        CHECK(sv(0) == T(2) && sv(1) == T(8) && sv(2) == T(-24));
        affine<3, T, I> ts = t * s, st = s * t;
        vector<3, T, I> a = ts * v, b = st * v;
        CHECK(a(0) == T(3) && a(1) == T(6) && a(2) == T(-23.5));
        CHECK(b(0) == T(4) && b(1) == T(0) && b(2) == T(-28));
        for (I i = 0; i < 3; ++i) {
            digest(a(i));
            digest(b(i));
            for (I j = 0; j < 4; ++j) {
                digest(ts(i, j));
            }
        }
        affine<3, T, I> cp(ts), mv(std::move(cp)), as;
        as = mv;
        as = std::move(mv);
        for (I i = 0; i < 3; ++i) {
            for (I j = 0; j < 4; ++j) {
                CHECK(as(i, j) == ts(i, j));
            }
        }
    }
}

void run_affine_backend()
{
    using backend_t =
        cb::affine<cb::strided<cv::size2, cb::array<cv::float2>>>;
    using inner = strided_suite<cv::size2, cv::float2>;
    using field_t = covfie::field<backend_t>;
    inner::sizes_t sizes{4u, 6u};
    inner::field_t in = inner::make(sizes, 21);
    // Swap of the two axes; exact for integral coordinates.
    covfie::algebra::affine<2, std::size_t> sw(
        covfie::algebra::matrix<2, 3, std::size_t>(
            covfie::array::array<covfie::array::array<std::size_t, 3>, 2>(
                {covfie::array::array<std::size_t, 3>({0u, 1u, 0u}),
                 covfie::array::array<std::size_t, 3>({1u, 0u, 0u})}
            )
        )
    );
    field_t f(covfie::make_parameter_pack(
        backend_t::configuration_t(sw), in.backend()
    ));
    field_t c(f), a;
    a = c;
    field_t l = load_from_string<field_t>(dump_to_string(a));
    for (const field_t * p : {&f, &c, &a, &l}) {
        field_t::view_t v(*p);
        for_each_coord<2>(sizes, [&](const inner::sizes_t & cc) {
            for (std::size_t j = 0; j < 2; ++j) {
                CHECK(v.at(cc[1], cc[0])[j] == (pattern<float, 2>(cc, j, 21)));
            }
        });
    }
    const std::string b = dump_to_string(l);
    digest_bytes(b.data(), b.size());
}

// ---------------------------------------------------------------------------
// Random programs against a plain model.
// ---------------------------------------------------------------------------
template <typename in_vec, typename out_vec>
void run_random_program(unsigned seed, int steps)
{
    using S = strided_suite<in_vec, out_vec>;
    using M = morton_suite<S::N, out_vec, false>;
    using MB = morton_suite<S::N, out_vec, true>;
    using sizes_t = typename S::sizes_t;
    using scalar_t = typename S::scalar_t;

    struct model_t {
        sizes_t sizes;
        std::vector<scalar_t> data;
    };

    std::mt19937_64 rng(seed);

    auto random_sizes = [&]() {
        sizes_t s;
        for (std::size_t i = 0; i < S::N; ++i) {
            s[i] = static_cast<std::size_t>(rng() % 6);
            if (rng() % 8 != 0 && s[i] == 0) {
                s[i] = 1;
            }
        }
        return s;
    };

    auto fresh = [&](model_t & m) {
        m.sizes = random_sizes();
        m.data.assign(ref_product<S::N>(m.sizes) * S::D, static_cast<scalar_t>(0));
        return typename S::field_t(covfie::make_parameter_pack(
            typename S::backend_t::configuration_t(m.sizes)
        ));
    };

    constexpr std::size_t P = 4;
    std::vector<typename S::field_t> pool(P);
    std::vector<model_t> model(P);
    for (std::size_t i = 0; i < P; ++i) {
        pool[i] = fresh(model[i]);
    }

    auto check_all = [&](std::size_t i) {
        typename S::view_t v(pool[i]);
        sizes_t got = pool[i].backend().get_configuration();
        for (std::size_t k = 0; k < S::N; ++k) {
            CHECK(got[k] == model[i].sizes[k]);
        }
        for_each_coord<S::N>(model[i].sizes, [&](const sizes_t & c) {
            const std::size_t lin = ref_row_major<S::N>(c, model[i].sizes);
            for (std::size_t j = 0; j < S::D; ++j) {
                CHECK(v.at(S::to_coord(c))[j] == model[i].data[lin * S::D + j]);
                digest(model[i].data[lin * S::D + j]);
            }
        });
    };

    for (int step = 0; step < steps; ++step) {
        const std::size_t i = rng() % P, k = rng() % P;
        switch (rng() % 9) {
            case 0:
                pool[i] = fresh(model[i]);
                break;
            case 1: {
                // A handful of random writes.
                const std::size_t total = ref_product<S::N>(model[i].sizes);
                if (total == 0) {
                    break;
                }
                typename S::view_t v(pool[i]);
                for (int w = 0; w < 8; ++w) {
                    sizes_t c;
                    for (std::size_t d = 0; d < S::N; ++d) {
                        c[d] = rng() % model[i].sizes[d];
                    }
                    const std::size_t j = rng() % S::D;
                    const scalar_t val = static_cast<scalar_t>(
                        static_cast<double>(rng() % 2048) * 0.25
                    );
                    v.at(S::to_coord(c))[j] = val;
                    model[i].data
                        [ref_row_major<S::N>(c, model[i].sizes) * S::D + j] = val;
                }
                break;
            }
            case 2:
                pool[i] = pool[k];
                model[i] = model[k];
                break;
            case 3:
                if (i != k) {
                    pool[i] = std::move(pool[k]);
                    model[i] = model[k];
                    pool[k] = fresh(model[k]);
                }
                break;
            case 4: {
                typename S::field_t tmp(pool[k]);
                pool[i] = std::move(tmp);
                model[i] = model[k];
                break;
            }
            case 5: {
                const std::string b = dump_to_string(pool[k]);
                CHECK(
                    b == (expected_bytes<scalar_t, S::N, scalar_t>(
                             0xAB020010u, model[k].sizes, model[k].data, S::D
                         ))
                );
                pool[i] = load_from_string<typename S::field_t>(b);
                model[i] = model[k];
                break;
            }
            case 6: {
                typename M::field_t mf(pool[i]);
                typename MB::field_t mb(pool[i]);
                typename M::view_t mv(mf);
                typename MB::view_t mbv(mb);
                for_each_coord<S::N>(model[i].sizes, [&](const sizes_t & c) {
                    const std::size_t lin = ref_row_major<S::N>(c, model[i].sizes);
                    for (std::size_t j = 0; j < S::D; ++j) {
                        CHECK(
                            mv.at(M::S::to_coord(c))[j] ==
                            model[i].data[lin * S::D + j]
                        );
                        CHECK(
                            mbv.at(M::S::to_coord(c))[j] ==
                            model[i].data[lin * S::D + j]
                        );
                    }
                });
                CHECK(dump_to_string(mf).size() == dump_to_string(mb).size());
                CHECK(
                    dump_to_string(load_from_string<typename M::field_t>(
                        dump_to_string(mf)
                    )) == dump_to_string(mf)
                );
                break;
            }
            case 7: {
                typename S::field_t & alias = pool[i];
                pool[i] = alias;
                break;
            }
            default:
                check_all(k);
                break;
        }
        check_all(i);
    }
}

// ---------------------------------------------------------------------------
// Concurrent readers.
// ---------------------------------------------------------------------------
void run_threads()
{
    using S = strided_suite<cv::size3, cv::double3>;
    using M = morton_suite<3, cv::double3, false>;
    const S::sizes_t sizes{7u, 5u, 6u};
    const S::field_t f = S::make(sizes, 99);
    const M::field_t mf(f);
    const std::string bytes = dump_to_string(f);

    std::vector<int> fails(6, 0);
    std::vector<std::thread> ts;
    for (int t = 0; t < 6; ++t) {
        ts.emplace_back([&, t]() {
            int bad = 0;
            S::view_t v(f);
            M::view_t mv(mf);
            for (int rep = 0; rep < 3; ++rep) {
                for_each_coord<3>(sizes, [&](const S::sizes_t & c) {
                    for (std::size_t j = 0; j < 3; ++j) {
                        const double e = pattern<double, 3>(c, j, 99);
                        bad += v.at(c[0], c[1], c[2])[j] != e;
                        bad += mv.at(c[0], c[1], c[2])[j] != e;
                    }
                });
                // Private copies and serialisation of shared const data.
                S::field_t mine(f);
                M::field_t mmine(mf);
                mine = f;
                std::ostringstream os(std::ios::binary);
                mine.dump(os);
                bad += os.str() != bytes;
                std::istringstream is(os.str(), std::ios::binary);
                S::field_t back(is);
                S::view_t bv(back);
                bv.at(std::size_t(t % 7), 0u, 0u)[0] = 1.0;
            }
            fails[static_cast<std::size_t>(t)] = bad;
        });
    }
    for (std::thread & t : ts) {
        t.join();
    }
    for (int b : fails) {
        CHECK(b == 0);
    }
    S::verify(f, sizes, 99);
}
}

int main(int argc, char ** argv)
{
    // Many shapes, all dimensionalities, both precisions.
    {
        using S = strided_suite<cv::size1, cv::float1>;
        for (std::size_t n : {1u, 2u, 3u, 8u, 31u, 64u}) {
            S::run_shape(S::sizes_t{n}, static_cast<unsigned>(n));
        }
        S::run_truncation(S::sizes_t{3u}, 3);
    }
    {
        using S = strided_suite<cv::size1, cv::double3>;
        for (std::size_t n : {1u, 5u, 17u}) {
            S::run_shape(S::sizes_t{n}, static_cast<unsigned>(n));
        }
    }
    {
        using S = strided_suite<cv::size2, cv::float3>;
        for (std::size_t a : {1u, 2u, 5u, 8u}) {
            for (std::size_t b : {1u, 3u, 7u}) {
                S::run_shape(S::sizes_t{a, b}, static_cast<unsigned>(a * 10 + b));
            }
        }
        S::run_truncation(S::sizes_t{2u, 2u}, 4);
    }
    {
        using S = strided_suite<cv::size2, cv::double1>;
        S::run_shape(S::sizes_t{13u, 11u}, 5);
        S::run_shape(S::sizes_t{1u, 29u}, 6);
        S::run_shape(S::sizes_t{29u, 1u}, 7);
    }
    {
        using S = strided_suite<cv::size3, cv::float3>;
        for (std::size_t a : {1u, 2u, 5u}) {
            for (std::size_t b : {1u, 3u, 4u}) {
                for (std::size_t c : {1u, 2u, 7u}) {
                    S::run_shape(
                        S::sizes_t{a, b, c},
                        static_cast<unsigned>(a * 100 + b * 10 + c)
                    );
                }
            }
        }
    }
    {
        using S = strided_suite<cv::size3, cv::double2>;
        S::run_shape(S::sizes_t{4u, 9u, 3u}, 8);
        S::run_truncation(S::sizes_t{1u, 2u, 1u}, 9);
    }
    {
        using S = strided_suite<cv::size4, cv::float2>;
        S::run_shape(S::sizes_t{2u, 3u, 4u, 5u}, 10);
        S::run_shape(S::sizes_t{1u, 1u, 1u, 1u}, 11);
        S::run_shape(S::sizes_t{3u, 1u, 2u, 1u}, 12);
        using D = strided_suite<cv::size4, cv::double4>;
        D::run_shape(D::sizes_t{2u, 2u, 3u, 2u}, 13);
    }

    // Space filling curves.
    {
        std::mt19937_64 rng(2024);
        morton_suite<1, cv::float1, false>::run_index(rng);
        morton_suite<1, cv::float1, true>::run_index(rng);
        morton_suite<2, cv::float1, false>::run_index(rng);
        morton_suite<2, cv::float1, true>::run_index(rng);
        morton_suite<3, cv::float1, false>::run_index(rng);
        morton_suite<4, cv::float1, false>::run_index(rng);
        morton_suite<4, cv::float1, true>::run_index(rng);
        morton_suite<5, cv::float1, false>::run_index(rng);
        morton_suite<7, cv::float1, false>::run_index(rng);
        {
            // With pdep the first of three coordinates has one more usable
            // bit; stay below 2^21 as every real field does.
            using MB = morton_suite<3, cv::float1, true>;
            for (int it = 0; it < 20000; ++it) {
                MB::sizes_t c{
                    static_cast<std::size_t>(rng() & 0x1FFFFF),
                    static_cast<std::size_t>(rng() & 0x1FFFFF),
                    static_cast<std::size_t>(rng() & 0x1FFFFF)};
                CHECK(
                    MB::backend_t::calculate_index(MB::S::to_coord(c)) ==
                    ref_morton<3>(c)
                );
            }
        }

        for (std::size_t n : {1u, 2u, 3u, 8u, 9u, 33u}) {
            morton_suite<1, cv::float3, false>::run_shape({n}, 1);
            morton_suite<1, cv::double1, true>::run_shape({n}, 2);
        }
        for (std::size_t a : {1u, 2u, 5u, 8u}) {
            for (std::size_t b : {1u, 3u, 9u}) {
                morton_suite<2, cv::float2, false>::run_shape({a, b}, 3);
                morton_suite<2, cv::double3, true>::run_shape({a, b}, 4);
            }
        }
        for (std::size_t a : {1u, 3u, 4u}) {
            for (std::size_t b : {1u, 2u, 5u}) {
                for (std::size_t c : {1u, 6u}) {
                    morton_suite<3, cv::float3, false>::run_shape({a, b, c}, 5);
                    morton_suite<3, cv::float3, true>::run_shape({a, b, c}, 6);
                    morton_suite<3, cv::double3, false>::run_shape({a, b, c}, 7);
                }
            }
        }
        morton_suite<4, cv::float1, false>::run_shape({2u, 3u, 1u, 4u}, 8);

        run_hilbert(1, 1, 1);
        run_hilbert(4, 4, 2);
        run_hilbert(5, 3, 3);
        run_hilbert(2, 9, 4);
    }

    run_empty();
    run_misc();

    run_algebra<float, std::size_t>();
    run_algebra<double, std::size_t>();
    run_algebra<float, int>();
    run_algebra<double, unsigned char>();
    run_affine_backend();

    run_random_program<cv::size1, cv::float3>(1, 300);
    run_random_program<cv::size2, cv::float1>(2, 300);
    run_random_program<cv::size3, cv::double3>(3, 300);
    run_random_program<cv::size3, cv::float3>(4, 300);
    run_random_program<cv::size4, cv::double1>(5, 150);

    run_threads();

    if (argc > 1 && std::string(argv[1]) == "--digest") {
        std::printf("digest %016llx\n", static_cast<unsigned long long>(g_digest));
    }

    if (g_failures != 0) {
        std::printf("FAIL (%d checks)\n", g_failures);
        return 1;
    }

    std::printf("PASS\n");
    return 0;
}
