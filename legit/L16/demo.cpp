// Standalone exerciser for the storage orders (strided / Morton / Hilbert), the
// array primitive, field views and the interpolators of covfie, single- and
// multi-threaded. It uses only API that exists both before and after the change
// it accompanies, and must print PASS and exit 0 in both situations.
//
// Compile and run (from the root of the checkout; g++ is required, clang 14
// cannot compile linear.hpp):
//
//   g++ -std=c++20 -O2 -g -Wall -Wextra -pthread -I lib/core
//     seeded/demo.cpp -o /tmp/demo_L16 && /tmp/demo_L16
//
// Variants which were run as well (all must print PASS):
//
//   ... -O2 -DNDEBUG ...
//   ... -O1 -fsanitize=address,undefined -fno-sanitize-recover=all ...
//   ... -O1 -fsanitize=thread ...               (TSAN_OPTIONS=halt_on_error=1)
//   ... -O2 -mbmi2 ...                          (PDEP encoder for Morton)
//   valgrind --error-exitcode=9 --leak-check=full /tmp/demo_L16 quick
//
// (Helgrind and DRD do not model the compiler-generated guard of C++11
// thread-safe function-local statics; on a library which uses such statics
// they report the well-known false positives for them. See README.md.)
//
// An optional argument "quick" reduces the number of shapes and threads (for
// valgrind); the optional argument "sums" prints the checksums.

#include <atomic>
#include <cmath>
#include <cstdint>
#include <cstdio>
#include <cstring>
#include <functional>
#include <iostream>
#include <random>
#include <sstream>
#include <string>
#include <thread>
#include <type_traits>
#include <vector>

#include <covfie/core/backend/primitive/array.hpp>
#include <covfie/core/backend/transformer/affine.hpp>
#include <covfie/core/backend/transformer/hilbert.hpp>
#include <covfie/core/backend/transformer/linear.hpp>
#include <covfie/core/backend/transformer/morton.hpp>
#include <covfie/core/backend/transformer/nearest_neighbour.hpp>
#include <covfie/core/backend/transformer/strided.hpp>
#include <covfie/core/field.hpp>
#include <covfie/core/field_view.hpp>
#include <covfie/core/parameter_pack.hpp>
#include <covfie/core/vector.hpp>

#if __has_include(<covfie/core/utility/statistics.hpp>)
#include <covfie/core/utility/statistics.hpp>
#define DEMO_HAVE_STATISTICS 1
#else
#define DEMO_HAVE_STATISTICS 0
#endif

namespace cb = covfie::backend;
namespace cv = covfie::vector;

// ---------------------------------------------------------------------------
// Bookkeeping
// ---------------------------------------------------------------------------

static std::atomic<unsigned long> g_failures{0};
static std::atomic<unsigned long> g_checks{0};

#define CHECK(cond)                                                            \
    do {                                                                       \
        g_checks.fetch_add(1, std::memory_order_relaxed);                      \
        if (!(cond)) {                                                         \
            if (g_failures.fetch_add(1, std::memory_order_relaxed) < 20) {     \
                std::fprintf(                                                  \
                    stderr, "CHECK failed: %s (line %d)\n", #cond, __LINE__    \
                );                                                             \
            }                                                                  \
        }                                                                      \
    } while (0)

static std::uint64_t fnv(const void * p, std::size_t n, std::uint64_t h)
{
    const unsigned char * b = static_cast<const unsigned char *>(p);
    for (std::size_t i = 0; i < n; ++i) {
        h ^= b[i];
        h *= 1099511628211ull;
    }
    return h;
}

static std::uint64_t g_dump_sum = 1469598103934665603ull;
static std::uint64_t g_value_sum = 1469598103934665603ull;

static bool g_quick = false;

// ---------------------------------------------------------------------------
// Independent reference implementations of the layouts
// ---------------------------------------------------------------------------

template <std::size_t N>
using extent = covfie::array::array<std::size_t, N>;

template <std::size_t N>
static std::size_t volume(const extent<N> & s)
{
    std::size_t r = 1;
    for (std::size_t i = 0; i < N; ++i) {
        r *= s[i];
    }
    return r;
}

template <std::size_t N>
static std::size_t ref_row_major(const extent<N> & c, const extent<N> & s)
{
    std::size_t r = 0;
    for (std::size_t i = 0; i < N; ++i) {
        r = r * s[i] + c[i];
    }
    return r;
}

// Bit i of coordinate j goes to bit i * N + j; only the low (index_bits / N)
// bits of each coordinate take part.
template <std::size_t N, typename C>
static std::size_t ref_morton(const C & c, std::size_t index_bits = 64)
{
    std::size_t r = 0;
    for (std::size_t i = 0; i < index_bits / N; ++i) {
        for (std::size_t j = 0; j < N; ++j) {
            std::size_t bit = (static_cast<std::size_t>(c[j]) >> i) & 1u;
            r |= bit << (i * N + j);
        }
    }
    return r;
}

static std::size_t ref_pow2(std::size_t v)
{
    std::size_t r = 1;
    while (r < v) {
        r *= 2;
    }
    return r;
}

// The classic xy2d from Wikipedia, written independently of the library.
static std::size_t ref_hilbert(std::size_t x, std::size_t y, std::size_t n)
{
    std::size_t d = 0;
    for (std::size_t s = n / 2; s > 0; s /= 2) {
        std::size_t rx = (x & s) ? 1 : 0;
        std::size_t ry = (y & s) ? 1 : 0;
        d += s * s * ((3 * rx) ^ ry);
        if (ry == 0) {
            if (rx == 1) {
                x = n - 1 - x;
                y = n - 1 - y;
            }
            std::swap(x, y);
        }
    }
    return d;
}

template <std::size_t N>
static std::size_t ref_side(const extent<N> & s)
{
    std::size_t m = 0;
    for (std::size_t i = 0; i < N; ++i) {
        m = std::max(m, s[i]);
    }
    return ref_pow2(m);
}

// Deterministic, exactly representable (in float) test value.
template <typename F>
static F test_value(std::size_t lin, std::size_t comp)
{
    std::uint32_t h = static_cast<std::uint32_t>(lin) * 2654435761u;
    h ^= h >> 15;
    return static_cast<F>(((h & 0xFFFFu) * 4u + comp) & 0xFFFFFu) -
           static_cast<F>(100000);
}

template <std::size_t N, typename Fn>
static void for_each_coord(const extent<N> & s, Fn && fn)
{
    if (volume(s) == 0) {
        return;
    }
    extent<N> c(std::size_t(0));
    for (;;) {
        fn(c);
        std::size_t k = N;
        while (k-- > 0) {
            if (++c[k] < s[k]) {
                break;
            }
            c[k] = 0;
            if (k == 0) {
                return;
            }
        }
    }
}

// ---------------------------------------------------------------------------
// Type zoo
// ---------------------------------------------------------------------------

template <typename F, std::size_t M>
using array_b = cb::array<cv::vector_d<F, M>>;

template <std::size_t N, typename F, std::size_t M>
using strided_b = cb::strided<cv::vector_d<std::size_t, N>, array_b<F, M>>;

template <std::size_t N, typename F, std::size_t M, bool B = true>
using morton_b = cb::morton<cv::vector_d<std::size_t, N>, array_b<F, M>, B>;

template <typename F, std::size_t M>
using hilbert_b = cb::hilbert<cv::vector_d<std::size_t, 2>, array_b<F, M>>;

// ---------------------------------------------------------------------------
// Generic checks on integer-coordinate fields
// ---------------------------------------------------------------------------

template <typename Field, std::size_t N>
static void fill_through_view(Field & f, const extent<N> & s)
{
    typename Field::view_t v(f);
    constexpr std::size_t M = Field::backend_t::covariant_output_t::dimensions;
    using F = typename Field::backend_t::covariant_output_t::scalar_t;

    for_each_coord<N>(s, [&](const extent<N> & c) {
        for (std::size_t m = 0; m < M; ++m) {
            v.at(c)[m] = test_value<F>(ref_row_major(c, s), m);
        }
    });
}

template <typename View, std::size_t N>
static unsigned long count_mismatches(const View & v, const extent<N> & s)
{
    constexpr std::size_t M = View::backend_t::covariant_output_t::dimensions;
    using F = typename View::backend_t::covariant_output_t::scalar_t;
    unsigned long bad = 0;

    for_each_coord<N>(s, [&](const extent<N> & c) {
        for (std::size_t m = 0; m < M; ++m) {
            if (v.at(c)[m] != test_value<F>(ref_row_major(c, s), m)) {
                ++bad;
            }
        }
    });

    return bad;
}

template <typename Field, std::size_t N>
static void check_field(const Field & f, const extent<N> & s)
{
    typename Field::view_t v(f);
    CHECK(count_mismatches(v, s) == 0);

    // A copy of the view is as good as the view.
    typename Field::view_t v2(v);
    CHECK(count_mismatches(v2, s) == 0);
    typename Field::view_t v3(f);
    v3 = v2;
    CHECK(count_mismatches(v3, s) == 0);
}

template <typename Field>
static std::string dump_to_string(const Field & f)
{
    std::stringstream ss(
        std::ios::in | std::ios::out | std::ios::binary
    );
    f.dump(ss);
    return ss.str();
}

// Copies, moves, assignments (including self-assignment and assignment to and
// from moved-from objects), dump and load.
template <typename Field, std::size_t N>
static void exercise_value_semantics(const Field & f, const extent<N> & s)
{
    check_field(f, s);

    Field c(f);
    check_field(c, s);
    check_field(f, s);

    Field m(std::move(c));
    check_field(m, s);
    {
        // A view of the moved-from object can be made (but not used).
        typename Field::view_t dead(c);
        (void)dead;
    }

    Field a;
    {
        typename Field::view_t empty_view(a);
        (void)empty_view;
    }
    a = f;
    check_field(a, s);

    Field & alias = a;
    a = alias;
    check_field(a, s);

    Field b;
    b = std::move(a);
    check_field(b, s);

    a = b; // assign to moved-from
    check_field(a, s);
    check_field(b, s);

    c = std::move(b); // move-assign to moved-from
    check_field(c, s);

    Field & calias = c;
    c = std::move(calias); // self-move-assignment must leave a valid object
    c = f;
    check_field(c, s);

    // Dump, load, dump again: values and bytes must survive.
    std::string bytes = dump_to_string(f);
    g_dump_sum = fnv(bytes.data(), bytes.size(), g_dump_sum);

    std::stringstream is(bytes, std::ios::in | std::ios::binary);
    Field l(is);
    check_field(l, s);
    CHECK(dump_to_string(l) == bytes);
    CHECK(dump_to_string(m) == bytes);

    // Truncated input must throw, not crash or hang.
    if (bytes.size() > 8) {
        bool threw = false;
        try {
            std::stringstream ts(
                bytes.substr(0, bytes.size() / 2),
                std::ios::in | std::ios::binary
            );
            Field t(ts);
        } catch (const std::exception &) {
            threw = true;
        }
        CHECK(threw);
    }
}

// The element for coordinate c must sit at the position in the raw array
// which the (independently computed) layout function dictates.
template <typename Field, std::size_t N, typename IndexFn>
static void
check_raw_layout(const Field & f, const extent<N> & s, IndexFn && index_of)
{
    using array_t = typename Field::backend_t::backend_t;
    typename array_t::non_owning_data_t raw(f.backend().get_backend());
    constexpr std::size_t M = Field::backend_t::covariant_output_t::dimensions;
    using F = typename Field::backend_t::covariant_output_t::scalar_t;
    unsigned long bad = 0;

    for_each_coord<N>(s, [&](const extent<N> & c) {
        std::size_t idx = index_of(c);
        for (std::size_t m = 0; m < M; ++m) {
            if (raw.at(idx)[m] != test_value<F>(ref_row_major(c, s), m)) {
                ++bad;
            }
        }
    });

    CHECK(bad == 0);
}

// ---------------------------------------------------------------------------
// Threads
// ---------------------------------------------------------------------------

struct start_gate {
    explicit start_gate(unsigned n)
        : m_expected(n)
    {
    }

    void arrive_and_wait()
    {
        m_arrived.fetch_add(1, std::memory_order_acq_rel);
        while (m_arrived.load(std::memory_order_acquire) < m_expected) {
            std::this_thread::yield();
        }
    }

    unsigned m_expected;
    std::atomic<unsigned> m_arrived{0};
};

template <typename Fn>
static void run_threads(unsigned n, Fn && fn)
{
    start_gate gate(n);
    std::vector<std::thread> ts;
    ts.reserve(n);
    for (unsigned t = 0; t < n; ++t) {
        ts.emplace_back([&gate, &fn, t]() {
            gate.arrive_and_wait();
            fn(t);
        });
    }
    for (auto & t : ts) {
        t.join();
    }
}

// Sequential baseline of every component of every lookup, as raw bytes.
template <typename View, std::size_t N>
static std::vector<unsigned char>
snapshot(const View & v, const extent<N> & s)
{
    constexpr std::size_t M = View::backend_t::covariant_output_t::dimensions;
    using F = typename View::backend_t::covariant_output_t::scalar_t;
    std::vector<unsigned char> out;
    out.reserve(volume(s) * M * sizeof(F));

    for_each_coord<N>(s, [&](const extent<N> & c) {
        for (std::size_t m = 0; m < M; ++m) {
            F x = v.at(c)[m];
            unsigned char b[sizeof(F)];
            std::memcpy(b, &x, sizeof(F));
            out.insert(out.end(), b, b + sizeof(F));
        }
    });

    return out;
}

// Readers: shared view, copied view, per-thread view; every thread must see
// bit for bit what the sequential baseline saw.
template <typename Field, std::size_t N>
static void concurrent_readers(
    const Field & f, const extent<N> & s, unsigned nthreads
)
{
    using view_t = typename Field::view_t;

    const view_t shared(f);
    const std::vector<unsigned char> expect = snapshot(shared, s);
    g_value_sum = fnv(expect.data(), expect.size(), g_value_sum);

    std::vector<unsigned long> bad(nthreads, 0);

    run_threads(nthreads, [&](unsigned t) {
        switch (t % 3) {
            case 0: {
                bad[t] = snapshot(shared, s) != expect;
                break;
            }
            case 1: {
                view_t mine(shared);
                bad[t] = snapshot(mine, s) != expect;
                break;
            }
            default: {
                view_t mine(f);
                bad[t] = snapshot(mine, s) != expect;
                break;
            }
        }
    });

    for (unsigned t = 0; t < nthreads; ++t) {
        CHECK(bad[t] == 0);
    }
}

// Writers own the coordinates whose row-major id is odd, partitioned between
// them; readers simultaneously read the even ones, which nobody writes.
template <typename Field, std::size_t N>
static void concurrent_readers_and_writers(
    Field & f, const extent<N> & s, unsigned nwriters, unsigned nreaders
)
{
    using view_t = typename Field::view_t;
    constexpr std::size_t M = Field::backend_t::covariant_output_t::dimensions;
    using F = typename Field::backend_t::covariant_output_t::scalar_t;

    const view_t shared(f);
    std::vector<unsigned long> bad(nwriters + nreaders, 0);

    auto new_value = [](std::size_t lin, std::size_t m) {
        return test_value<F>(lin, m) + static_cast<F>(7);
    };

    run_threads(nwriters + nreaders, [&](unsigned t) {
        // Half of the threads use the shared view, half make their own.
        view_t mine(f);
        const view_t & v = (t % 2 == 0) ? shared : mine;

        if (t < nwriters) {
            for_each_coord<N>(s, [&](const extent<N> & c) {
                std::size_t lin = ref_row_major(c, s);
                if (lin % 2 == 1 && (lin / 2) % nwriters == t) {
                    for (std::size_t m = 0; m < M; ++m) {
                        v.at(c)[m] = new_value(lin, m);
                    }
                    // Read our own write back.
                    for (std::size_t m = 0; m < M; ++m) {
                        if (v.at(c)[m] != new_value(lin, m)) {
                            ++bad[t];
                        }
                    }
                }
            });
        } else {
            for (int rep = 0; rep < 2; ++rep) {
                for_each_coord<N>(s, [&](const extent<N> & c) {
                    std::size_t lin = ref_row_major(c, s);
                    if (lin % 2 == 0) {
                        for (std::size_t m = 0; m < M; ++m) {
                            if (v.at(c)[m] != test_value<F>(lin, m)) {
                                ++bad[t];
                            }
                        }
                    }
                });
            }
        }
    });

    for (unsigned long b : bad) {
        CHECK(b == 0);
    }

    // After the join, everything is where it should be ...
    unsigned long wrong = 0;
    view_t after(f);
    for_each_coord<N>(s, [&](const extent<N> & c) {
        std::size_t lin = ref_row_major(c, s);
        for (std::size_t m = 0; m < M; ++m) {
            F want = (lin % 2 == 1) ? new_value(lin, m) : test_value<F>(lin, m);
            if (after.at(c)[m] != want) {
                ++wrong;
            }
        }
    });
    CHECK(wrong == 0);

    // ... and we put the original contents back (sequentially).
    for_each_coord<N>(s, [&](const extent<N> & c) {
        std::size_t lin = ref_row_major(c, s);
        for (std::size_t m = 0; m < M; ++m) {
            after.at(c)[m] = test_value<F>(lin, m);
        }
    });
    CHECK(count_mismatches(after, s) == 0);
}

// ---------------------------------------------------------------------------
// Interpolators on top of the layouts
// ---------------------------------------------------------------------------

template <std::size_t N, typename CF>
static std::vector<covfie::array::array<CF, N>>
sample_points(const extent<N> & s, std::size_t count, unsigned seed)
{
    std::mt19937 rng(seed);
    std::vector<covfie::array::array<CF, N>> pts;
    const CF fracs[] = {CF(0), CF(0.25), CF(0.5), CF(0.75), CF(0.125)};

    for (std::size_t i = 0; i < count; ++i) {
        covfie::array::array<CF, N> p(CF(0));
        for (std::size_t k = 0; k < N; ++k) {
            // Cell index in [0, s[k] - 2], so that the +1 neighbour exists.
            std::size_t cell = rng() % (s[k] - 1);
            p[k] = static_cast<CF>(cell) + fracs[rng() % 5];
        }
        pts.push_back(p);
    }

    return pts;
}

template <typename View, typename Pts>
static std::vector<unsigned char> snapshot_points(const View & v, const Pts & p)
{
    constexpr std::size_t M = View::backend_t::covariant_output_t::dimensions;
    using F = typename View::backend_t::covariant_output_t::scalar_t;
    std::vector<unsigned char> out;
    out.reserve(p.size() * M * sizeof(F));

    for (const auto & c : p) {
        auto r = v.at(c);
        for (std::size_t m = 0; m < M; ++m) {
            F x = r[m];
            unsigned char b[sizeof(F)];
            std::memcpy(b, &x, sizeof(F));
            out.insert(out.end(), b, b + sizeof(F));
        }
    }

    return out;
}

// Reference multilinear interpolation straight from the test value function.
template <typename F, typename CF, std::size_t N>
static double ref_interpolate(
    const covfie::array::array<CF, N> & p, const extent<N> & s, std::size_t m
)
{
    double acc = 0.;
    for (std::size_t corner = 0; corner < (std::size_t(1) << N); ++corner) {
        extent<N> c(std::size_t(0));
        double w = 1.;
        for (std::size_t k = 0; k < N; ++k) {
            double fl = std::floor(static_cast<double>(p[k]));
            double fr = static_cast<double>(p[k]) - fl;
            bool up = (corner >> k) & 1u;
            c[k] = static_cast<std::size_t>(fl) + (up ? 1 : 0);
            w *= up ? fr : (1. - fr);
        }
        acc += w * static_cast<double>(test_value<F>(ref_row_major(c, s), m));
    }
    return acc;
}

template <typename InterpField, typename Pts>
static void concurrent_interpolation(
    const InterpField & f,
    const Pts & pts,
    const std::vector<unsigned char> & expect,
    unsigned nthreads
)
{
    using view_t = typename InterpField::view_t;
    const view_t shared(f);

    CHECK(snapshot_points(shared, pts) == expect);

    std::vector<unsigned long> bad(nthreads, 0);

    run_threads(nthreads, [&](unsigned t) {
        if (t % 2 == 0) {
            bad[t] = snapshot_points(shared, pts) != expect;
        } else {
            view_t mine(f);
            bad[t] = snapshot_points(mine, pts) != expect;
        }
    });

    for (unsigned long b : bad) {
        CHECK(b == 0);
    }
}

template <typename Layout, typename SField, std::size_t N, typename CF>
static void interpolators_over(
    const SField & sf, const extent<N> & s, unsigned nthreads, unsigned seed
)
{
    using sbackend_t = typename SField::backend_t;
    using F = typename sbackend_t::covariant_output_t::scalar_t;
    constexpr std::size_t M = sbackend_t::covariant_output_t::dimensions;
    using coord_d = cv::vector_d<CF, N>;

    using lin_s_t = covfie::field<cb::linear<sbackend_t, coord_d>>;
    using lin_l_t = covfie::field<cb::linear<Layout, coord_d>>;
    using nn_s_t = covfie::field<cb::nearest_neighbour<sbackend_t, coord_d>>;
    using nn_l_t = covfie::field<cb::nearest_neighbour<Layout, coord_d>>;

    lin_s_t lin_s(sf);
    lin_l_t lin_l(lin_s);
    nn_s_t nn_s(covfie::make_parameter_pack(
        typename nn_s_t::backend_t::configuration_t{}, sf.backend()
    ));
    nn_l_t nn_l(nn_s);

    auto pts = sample_points<N, CF>(s, g_quick ? 60 : 400, seed);

    // The strided variant is the baseline; the other layout must agree with
    // it bit for bit since only the storage order differs.
    typename lin_s_t::view_t lsv(lin_s);
    auto expect_lin = snapshot_points(lsv, pts);
    typename nn_s_t::view_t nsv(nn_s);
    auto expect_nn = snapshot_points(nsv, pts);

    g_value_sum = fnv(expect_lin.data(), expect_lin.size(), g_value_sum);
    g_value_sum = fnv(expect_nn.data(), expect_nn.size(), g_value_sum);

    // And the baseline must be close to an independent evaluation.
    unsigned long far = 0;
    for (const auto & p : pts) {
        auto r = lsv.at(p);
        for (std::size_t m = 0; m < M; ++m) {
            double want = ref_interpolate<F, CF, N>(p, s, m);
            double tol = std::is_same_v<CF, float> &&
                                 std::is_same_v<F, float>
                             ? 0.26
                             : (std::is_same_v<F, float> ? 0.26 : 1e-6);
            if (!(std::fabs(static_cast<double>(r[m]) - want) <= tol)) {
                ++far;
            }
        }
    }
    CHECK(far == 0);

    concurrent_interpolation(lin_s, pts, expect_lin, nthreads);
    concurrent_interpolation(lin_l, pts, expect_lin, nthreads);
    concurrent_interpolation(nn_s, pts, expect_nn, nthreads);
    concurrent_interpolation(nn_l, pts, expect_nn, nthreads);

    // Copy and move the composite fields around as well.
    lin_l_t copy(lin_l);
    lin_l_t moved(std::move(copy));
    lin_l_t assigned;
    assigned = moved;
    concurrent_interpolation(assigned, pts, expect_lin, 2);

    std::string bytes = dump_to_string(lin_l);
    g_dump_sum = fnv(bytes.data(), bytes.size(), g_dump_sum);
    std::stringstream is(bytes, std::ios::in | std::ios::binary);
    lin_l_t loaded(is);
    concurrent_interpolation(loaded, pts, expect_lin, 2);
}

// ---------------------------------------------------------------------------
// Per-shape drivers
// ---------------------------------------------------------------------------

template <typename F, std::size_t M, std::size_t N>
static covfie::field<strided_b<N, F, M>> make_strided(const extent<N> & s)
{
    using field_t = covfie::field<strided_b<N, F, M>>;
    field_t f(covfie::make_parameter_pack(
        typename field_t::backend_t::configuration_t(s)
    ));
    fill_through_view(f, s);
    return f;
}

template <typename F, std::size_t M, std::size_t N>
static void shape_strided_and_morton(const extent<N> & s, unsigned nthreads)
{
    using sfield_t = covfie::field<strided_b<N, F, M>>;
    using mfield_t = covfie::field<morton_b<N, F, M>>;
    using nfield_t = covfie::field<morton_b<N, F, M, false>>;

    sfield_t sf = make_strided<F, M, N>(s);
    exercise_value_semantics(sf, s);
    check_raw_layout(sf, s, [&](const extent<N> & c) {
        return ref_row_major(c, s);
    });

    mfield_t mf(sf);
    exercise_value_semantics(mf, s);
    check_raw_layout(mf, s, [&](const extent<N> & c) {
        return ref_morton<N>(c);
    });

    nfield_t nf(sf);
    check_field(nf, s);
    check_raw_layout(nf, s, [&](const extent<N> & c) {
        return ref_morton<N>(c);
    });

    // Morton -> strided -> Morton round trip through the converting
    // constructors.
    sfield_t back(mf);
    check_field(back, s);
    CHECK(dump_to_string(back) == dump_to_string(sf));

    if (volume(s) > 0) {
        concurrent_readers(sf, s, nthreads);
        concurrent_readers(mf, s, nthreads);
        concurrent_readers_and_writers(sf, s, nthreads / 2, nthreads / 2);
        concurrent_readers_and_writers(mf, s, nthreads / 2, nthreads / 2);
    }

    bool interpolable = true;
    for (std::size_t k = 0; k < N; ++k) {
        interpolable = interpolable && s[k] >= 2;
    }
    if (interpolable) {
        interpolators_over<morton_b<N, F, M>, sfield_t, N, float>(
            sf, s, nthreads, 17u
        );
        interpolators_over<morton_b<N, F, M, false>, sfield_t, N, double>(
            sf, s, nthreads, 18u
        );
    }
}

template <typename F, std::size_t M>
static void shape_hilbert(const extent<2> & s, unsigned nthreads)
{
    using sfield_t = covfie::field<strided_b<2, F, M>>;
    using hfield_t = covfie::field<hilbert_b<F, M>>;

    sfield_t sf = make_strided<F, M, 2>(s);

    hfield_t hf(sf);
    exercise_value_semantics(hf, s);

    const std::size_t side = ref_side(s);
    check_raw_layout(hf, s, [&](const extent<2> & c) {
        return ref_hilbert(c[0], c[1], side);
    });

    // The static index function agrees with the reference, too.
    unsigned long bad = 0;
    for_each_coord<2>(s, [&](const extent<2> & c) {
        if (hilbert_b<F, M>::calculate_index(c, s) !=
            ref_hilbert(c[0], c[1], side))
        {
            ++bad;
        }
    });
    CHECK(bad == 0);

    // Hilbert -> strided round trip.
    sfield_t back(hf);
    check_field(back, s);
    CHECK(dump_to_string(back) == dump_to_string(sf));

    if (volume(s) > 0) {
        concurrent_readers(hf, s, nthreads);
        concurrent_readers_and_writers(hf, s, nthreads / 2, nthreads / 2);
    }

    if (s[0] >= 2 && s[1] >= 2) {
        interpolators_over<hilbert_b<F, M>, sfield_t, 2, float>(
            sf, s, nthreads, 19u
        );
        interpolators_over<hilbert_b<F, M>, sfield_t, 2, double>(
            sf, s, nthreads, 20u
        );
    }
}

// ---------------------------------------------------------------------------
// Index functions, hammered from many threads at once (this is also the very
// first use of several of them in the process, so any lazy initialisation
// inside of the library happens under contention).
// ---------------------------------------------------------------------------

template <std::size_t N, typename IxT = std::size_t>
static void morton_index_storm(unsigned nthreads, unsigned seed)
{
    // (Explicitly the portable encoder: with -mbmi2 the PDEP encoder treats
    // coordinate bits which do not fit in the code differently.)
    using layout_t = cb::morton<
        cv::vector_d<std::size_t, N>,
        cb::array<cv::float1, IxT>,
        false>;
    using small_layout_t = cb::morton<
        cv::vector_d<unsigned int, N>,
        cb::array<cv::float1, IxT>,
        false>;
    constexpr std::size_t bits = CHAR_BIT * sizeof(IxT);

    std::vector<unsigned long> bad(nthreads, 0);

    run_threads(nthreads, [&](unsigned t) {
        std::mt19937_64 rng(seed * 1000u + t);

        for (int i = 0; i < (g_quick ? 2000 : 20000); ++i) {
            covfie::array::array<std::size_t, N> c(std::size_t(0));
            covfie::array::array<unsigned int, N> cs(0u);

            // Mix small values, single bits, all-ones and arbitrary junk
            // (including bits which do not fit in the code).
            for (std::size_t k = 0; k < N; ++k) {
                std::uint64_t r = rng();
                switch (r & 7u) {
                    case 0:
                        c[k] = (r >> 8) & 0xFFu;
                        break;
                    case 1:
                        c[k] = std::size_t(1) << ((r >> 8) % 64u);
                        break;
                    case 2:
                        c[k] = ~std::size_t(0) >> ((r >> 8) % 64u);
                        break;
                    case 3:
                        c[k] = (r >> 8) & 0xFFFFFu;
                        break;
                    default:
                        c[k] = rng();
                        break;
                }
                cs[k] = static_cast<unsigned int>(c[k]);
            }

            if (layout_t::calculate_index(c) != ref_morton<N>(c, bits)) {
                ++bad[t];
            }
            if (small_layout_t::calculate_index(cs) != ref_morton<N>(cs, bits))
            {
                ++bad[t];
            }
        }
    });

    for (unsigned long b : bad) {
        CHECK(b == 0);
    }
}

static void hilbert_index_storm(unsigned nthreads)
{
    using layout_t = hilbert_b<float, 1>;
    std::vector<unsigned long> bad(nthreads, 0);

    run_threads(nthreads, [&](unsigned t) {
        std::mt19937_64 rng(4242u + t);
        for (int i = 0; i < (g_quick ? 1000 : 10000); ++i) {
            extent<2> s(std::size_t(0));
            s[0] = 1 + rng() % (1u << (rng() % 12u));
            s[1] = 1 + rng() % (1u << (rng() % 12u));
            extent<2> c(std::size_t(0));
            c[0] = rng() % s[0];
            c[1] = rng() % s[1];
            std::size_t n = ref_side(s);
            std::size_t d = layout_t::calculate_index(c, s);
            if (d != ref_hilbert(c[0], c[1], n) || d >= n * n) {
                ++bad[t];
            }
        }
    });

    for (unsigned long b : bad) {
        CHECK(b == 0);
    }
}

// Many threads make their first view of Hilbert fields of assorted (some of
// them never seen before) sizes at the same moment and read through them.
static void hilbert_view_storm(unsigned nthreads)
{
    using hfield_t = covfie::field<hilbert_b<float, 2>>;

    const extent<2> shapes[] = {
        extent<2>(std::size_t(11), std::size_t(13)),  // side 16
        extent<2>(std::size_t(120), std::size_t(3)),  // side 128
        extent<2>(std::size_t(2), std::size_t(200)),  // side 256
        extent<2>(std::size_t(260), std::size_t(5)),  // side 512
        extent<2>(std::size_t(1), std::size_t(1)),    // side 1
    };
    constexpr std::size_t nshapes = sizeof(shapes) / sizeof(shapes[0]);

    std::vector<hfield_t> fields;
    for (const auto & s : shapes) {
        fields.emplace_back(make_strided<float, 2, 2>(s));
    }

    std::vector<unsigned long> bad(nthreads, 0);

    run_threads(nthreads, [&](unsigned t) {
        for (std::size_t i = 0; i < nshapes; ++i) {
            std::size_t k = (i + t) % nshapes;
            hfield_t::view_t v(fields[k]);
            bad[t] += count_mismatches(v, shapes[k]);
        }
    });

    for (unsigned long b : bad) {
        CHECK(b == 0);
    }
}

// ---------------------------------------------------------------------------
// Odds and ends
// ---------------------------------------------------------------------------

template <typename Field>
static void default_constructed_objects()
{
    Field a;
    Field b(a);
    Field c(std::move(a));
    Field d;
    d = b;
    d = std::move(c);
    Field & dalias = d;
    d = dalias;
    typename Field::view_t v(d);
    typename Field::view_t w(v);
    (void)w;
}

static void affine_on_top()
{
    // One deep composite, as used by the benchmarks:
    // affine<linear<morton<array>>>.
    using sfield_t = covfie::field<strided_b<3, float, 3>>;
    using mfield_t = covfie::field<morton_b<3, float, 3>>;
    using lbackend_t = cb::linear<morton_b<3, float, 3>>;
    using abackend_t = cb::affine<lbackend_t>;
    using afield_t = covfie::field<abackend_t>;

    const extent<3> s(std::size_t(6), std::size_t(9), std::size_t(5));
    sfield_t sf = make_strided<float, 3, 3>(s);
    mfield_t mf(sf);
    covfie::field<lbackend_t> lf(mf);

    abackend_t::matrix_t tr = abackend_t::matrix_t::scaling(0.5f, 0.5f, 0.5f);
    lbackend_t::owning_data_t lcopy(lf.backend());
    afield_t af(covfie::make_parameter_pack(
        abackend_t::configuration_t(tr), std::move(lcopy)
    ));

    afield_t::view_t av(af);
    covfie::field<lbackend_t>::view_t lv(lf);

    std::vector<covfie::array::array<float, 3>> pts;
    for (float x = 0.f; x < 9.5f; x += 0.75f) {
        for (float y = 0.f; y < 15.5f; y += 1.25f) {
            for (float z = 0.f; z < 7.5f; z += 0.5f) {
                pts.push_back(covfie::array::array<float, 3>(x, y, z));
            }
        }
    }

    auto expect = snapshot_points(av, pts);
    g_value_sum = fnv(expect.data(), expect.size(), g_value_sum);

    unsigned long bad = 0;
    for (const auto & p : pts) {
        auto a = av.at(p);
        auto l = lv.at(covfie::array::array<float, 3>(
            p[0] * 0.5f, p[1] * 0.5f, p[2] * 0.5f
        ));
        for (std::size_t m = 0; m < 3; ++m) {
            if (a[m] != l[m]) {
                ++bad;
            }
        }
    }
    CHECK(bad == 0);

    std::vector<unsigned long> tb(8, 0);
    run_threads(8, [&](unsigned t) {
        afield_t::view_t mine(af);
        tb[t] = snapshot_points((t % 2) ? mine : av, pts) != expect;
    });
    for (unsigned long b : tb) {
        CHECK(b == 0);
    }
}

int main(int argc, char ** argv)
{
    bool print_sums = false;
    for (int i = 1; i < argc; ++i) {
        if (std::string(argv[i]) == "quick") {
            g_quick = true;
        } else if (std::string(argv[i]) == "sums") {
            print_sums = true;
        }
    }

    const unsigned T = g_quick ? 8u : 16u;

#if DEMO_HAVE_STATISTICS
    namespace st = covfie::utility::statistics;
    const std::uint64_t views_before = st::read(st::counter::views_created);
#endif

    // --- first uses under contention -------------------------------------
    morton_index_storm<1>(T, 1);
    morton_index_storm<2>(T, 2);
    morton_index_storm<3>(T, 3);
    morton_index_storm<4>(T, 4);
    morton_index_storm<5>(T, 5);
    morton_index_storm<7>(T, 7);
    morton_index_storm<2, std::uint32_t>(T, 8);
    morton_index_storm<3, std::uint32_t>(T, 9);
    morton_index_storm<3, std::uint16_t>(T, 10);
    hilbert_index_storm(T);
    hilbert_view_storm(T);
    hilbert_view_storm(2);

    // --- default-constructed / empty objects -------------------------------
    default_constructed_objects<covfie::field<array_b<float, 3>>>();
    default_constructed_objects<covfie::field<strided_b<3, float, 3>>>();
    default_constructed_objects<covfie::field<morton_b<3, float, 3>>>();
    default_constructed_objects<covfie::field<hilbert_b<double, 2>>>();
    default_constructed_objects<
        covfie::field<cb::linear<hilbert_b<float, 2>>>>();

    // --- shapes ------------------------------------------------------------
    {
        std::vector<extent<1>> s1 = {
            extent<1>(std::size_t(0)),
            extent<1>(std::size_t(1)),
            extent<1>(std::size_t(5)),
            extent<1>(std::size_t(64)),
            extent<1>(std::size_t(300)),
        };
        for (const auto & s : s1) {
            shape_strided_and_morton<float, 1, 1>(s, T);
            shape_strided_and_morton<double, 3, 1>(s, g_quick ? 2 : 4);
        }
    }
    {
        using e2 = extent<2>;
        std::vector<e2> s2 = {
            e2(std::size_t(0), std::size_t(0)),
            e2(std::size_t(0), std::size_t(5)),
            e2(std::size_t(1), std::size_t(1)),
            e2(std::size_t(1), std::size_t(7)),
            e2(std::size_t(7), std::size_t(1)),
            e2(std::size_t(2), std::size_t(2)),
            e2(std::size_t(3), std::size_t(5)),
            e2(std::size_t(16), std::size_t(16)),
            e2(std::size_t(17), std::size_t(3)),
            e2(std::size_t(33), std::size_t(40)),
            e2(std::size_t(64), std::size_t(64)),
            e2(std::size_t(100), std::size_t(9)),
            e2(std::size_t(257), std::size_t(2)),
        };
        if (!g_quick) {
            s2.push_back(e2(std::size_t(256), std::size_t(256)));
            s2.push_back(e2(std::size_t(300), std::size_t(270)));
        }
        for (std::size_t i = 0; i < s2.size(); ++i) {
            const unsigned t = (i % 3 == 0) ? T : (g_quick ? 2u : 8u);
            shape_strided_and_morton<float, 2, 2>(s2[i], t);
            shape_hilbert<float, 2>(s2[i], t);
            if (i % 2 == 1) {
                shape_strided_and_morton<double, 1, 2>(s2[i], 2);
                shape_hilbert<double, 3>(s2[i], 2);
            }
        }
    }
    {
        using e3 = extent<3>;
        std::vector<e3> s3 = {
            e3(std::size_t(0), std::size_t(3), std::size_t(2)),
            e3(std::size_t(1), std::size_t(1), std::size_t(1)),
            e3(std::size_t(2), std::size_t(3), std::size_t(4)),
            e3(std::size_t(5), std::size_t(1), std::size_t(9)),
            e3(std::size_t(8), std::size_t(8), std::size_t(8)),
            e3(std::size_t(9), std::size_t(17), std::size_t(3)),
        };
        if (!g_quick) {
            s3.push_back(e3(std::size_t(16), std::size_t(2), std::size_t(33)));
            s3.push_back(e3(std::size_t(20), std::size_t(31), std::size_t(12)));
        }
        for (std::size_t i = 0; i < s3.size(); ++i) {
            const unsigned t = (i % 2 == 0) ? T : (g_quick ? 2u : 8u);
            shape_strided_and_morton<float, 3, 3>(s3[i], t);
            if (i % 2 == 0) {
                shape_strided_and_morton<double, 3, 3>(s3[i], 2);
            }
        }
    }
    {
        using e4 = extent<4>;
        shape_strided_and_morton<float, 2, 4>(
            e4(std::size_t(3), std::size_t(2), std::size_t(5), std::size_t(4)),
            g_quick ? 2u : 8u
        );
    }

    affine_on_top();

#if DEMO_HAVE_STATISTICS
    // All worker threads have been joined, so the counters are exact now.
    const std::uint64_t views_after = st::read(st::counter::views_created);
    CHECK(views_after > views_before);
    CHECK(st::read(st::counter::spread_tables_built) >= 1);
    CHECK(st::read(st::counter::spread_tables_built) <= 16);
    CHECK(st::read(st::counter::curve_cache_misses) >= 1);
    // At most one published table per power of two up to the cap.
    CHECK(st::read(st::counter::curve_cache_misses) <= 9);
    CHECK(st::read(st::counter::curve_cache_hits) >= 1);
    CHECK(st::read(st::counter::morton_table_encodes) >= 1);
    CHECK(st::read(st::counter::hilbert_table_lookups) >= 1);
    CHECK(st::read(st::counter::hilbert_curve_walks) >= 1);
    CHECK(st::read(st::counter::linear_interpolations) >= 1);
    if (print_sums) {
        std::printf(
            "statistics: views=%llu morton=%llu hilbert_table=%llu "
            "hilbert_walk=%llu linear=%llu spread_tables=%llu "
            "cache_hits=%llu cache_misses=%llu\n",
            (unsigned long long)views_after,
            (unsigned long long)st::read(st::counter::morton_table_encodes),
            (unsigned long long)st::read(st::counter::hilbert_table_lookups),
            (unsigned long long)st::read(st::counter::hilbert_curve_walks),
            (unsigned long long)st::read(st::counter::linear_interpolations),
            (unsigned long long)st::read(st::counter::spread_tables_built),
            (unsigned long long)st::read(st::counter::curve_cache_hits),
            (unsigned long long)st::read(st::counter::curve_cache_misses)
        );
    }
#endif

    if (print_sums) {
        std::printf(
            "checks=%lu dump_sum=%016llx value_sum=%016llx\n",
            g_checks.load(),
            (unsigned long long)g_dump_sum,
            (unsigned long long)g_value_sum
        );
    }

    if (g_failures.load() != 0) {
        std::printf("FAIL (%lu failed checks)\n", g_failures.load());
        return 1;
    }

    std::printf("PASS\n");
    return 0;
}
