/*
 * Demo / regression program for the "faster index computation" change
 * (morton.hpp, hilbert.hpp, strided.hpp, primitive/array.hpp).
 *
 * It only uses API that exists both before and after the change, carries its
 * own bit-by-bit reference implementations of the three storage orders, and
 * must print PASS and exit 0 with and without the change.
 *
 * Compile (from the root of the covfie checkout; use -I<pristine>/lib/core to
 * test the unchanged library):
 *
 *   g++ -std=c++20 -O2 -g -pthread -Ilib/core seeded/demo.cpp -o demo
 *
 * Variants that were run as well:
 *
 *   g++ -std=c++20 -O2 -g -DNDEBUG -pthread -Ilib/core seeded/demo.cpp
 *   g++ -std=c++20 -O0 -g -pthread -Ilib/core seeded/demo.cpp
 *   g++ -std=c++20 -O2 -g -mbmi2 -pthread -Ilib/core seeded/demo.cpp
 *   g++ -std=c++20 -O1 -g -fsanitize=address,undefined \
 *       -fno-sanitize-recover=all -pthread -Ilib/core seeded/demo.cpp
 *   g++ -std=c++20 -O1 -g -fsanitize=thread -pthread -Ilib/core \
 *       seeded/demo.cpp
 *   valgrind --error-exitcode=9 --leak-check=full ./demo
 */

#include <algorithm>
#include <atomic>
#include <climits>
#include <cmath>
#include <cstddef>
#include <cstdint>
#include <cstdio>
#include <cstring>
#include <functional>
#include <random>
#include <sstream>
#include <string>
#include <thread>
#include <utility>
#include <variant>
#include <vector>

#include <covfie/core/backend/primitive/array.hpp>
#include <covfie/core/backend/transformer/hilbert.hpp>
#include <covfie/core/backend/transformer/linear.hpp>
#include <covfie/core/backend/transformer/morton.hpp>
#include <covfie/core/backend/transformer/nearest_neighbour.hpp>
#include <covfie/core/backend/transformer/strided.hpp>
#include <covfie/core/field.hpp>
#include <covfie/core/field_view.hpp>
#include <covfie/core/parameter_pack.hpp>
#include <covfie/core/vector.hpp>

namespace cb = covfie::backend;
namespace cv = covfie::vector;

static std::atomic<unsigned long> g_failures{0};
static std::atomic<unsigned long> g_checks{0};

#define CHECK(...)                                                             \
    do {                                                                       \
        g_checks.fetch_add(1, std::memory_order_relaxed);                      \
        if (!(__VA_ARGS__)) {                                                  \
            if (g_failures.fetch_add(1, std::memory_order_relaxed) < 20) {     \
                std::fprintf(                                                  \
                    stderr, "CHECK FAILED %s:%d: %s\n", __FILE__, __LINE__,    \
                    #__VA_ARGS__                                               \
                );                                                             \
            }                                                                  \
        }                                                                      \
    } while (0)

constexpr unsigned MAX_THREADS = 16;

/*
 * Run `f(tid)` on `n` threads which are released at (as nearly as possible)
 * the same instant, to maximise the overlap of whatever they do first.
 */
template <typename F>
void run_threads(unsigned n, F f)
{
    std::atomic<unsigned> ready{0};
    std::atomic<bool> go{false};
    std::vector<std::thread> ts;

    for (unsigned t = 0; t < n; ++t) {
        ts.emplace_back([&, t]() {
            ready.fetch_add(1, std::memory_order_acq_rel);
            while (!go.load(std::memory_order_acquire)) {
                std::this_thread::yield();
            }
            f(t);
        });
    }

    while (ready.load(std::memory_order_acquire) != n) {
        std::this_thread::yield();
    }

    go.store(true, std::memory_order_release);

    for (std::thread & t : ts) {
        t.join();
    }
}

/* ------------------------------------------------------------------------ */
/* Reference implementations of the storage orders.                         */
/* ------------------------------------------------------------------------ */

template <std::size_t N, typename S>
std::size_t
ref_morton(const covfie::array::array<S, N> & c, std::size_t out_bits = 64)
{
    std::size_t idx = 0;

    for (std::size_t i = 0; i < out_bits / N; ++i) {
        for (std::size_t j = 0; j < N; ++j) {
            idx |= (c[j] & (static_cast<std::size_t>(1) << i))
                   << (i * (N - 1) + j);
        }
    }

    return idx;
}

std::size_t ref_round_pow2(std::size_t i)
{
    std::size_t j = 1;
    for (; j < i; j *= 2)
        ;
    return j;
}

std::size_t ref_hilbert(std::size_t x, std::size_t y, std::size_t n)
{
    std::size_t rx, ry, s, d = 0;

    for (s = n / 2; s > 0; s /= 2) {
        rx = (x & s) > 0;
        ry = (y & s) > 0;
        d += s * s * ((3 * rx) ^ ry);

        if (ry == 0) {
            if (rx == 1) {
                x = n - 1 - x;
                y = n - 1 - y;
            }

            std::swap(x, y);
        }
    }

    return d;
}

template <std::size_t N>
std::size_t ref_strided(
    const covfie::array::array<std::size_t, N> & c,
    const covfie::array::array<std::size_t, N> & s
)
{
    std::size_t idx = 0;

    for (std::size_t k = 0; k < N; ++k) {
        std::size_t tmp = c[k];
        for (std::size_t l = k + 1; l < N; ++l) {
            tmp *= s[l];
        }
        idx += tmp;
    }

    return idx;
}

/* The value stored at a coordinate: exactly representable, injective. */
template <typename F, std::size_t N>
F cell_value(const covfie::array::array<std::size_t, N> & c, std::size_t q)
{
    std::size_t v = 0;

    for (std::size_t k = 0; k < N; ++k) {
        v = v * 131 + c[k];
    }

    return static_cast<F>((v % 1000003) * 4 + q) * static_cast<F>(0.25);
}

template <std::size_t N, typename Fn>
void for_each_coord(const covfie::array::array<std::size_t, N> & s, Fn fn)
{
    std::size_t total = 1;
    for (std::size_t k = 0; k < N; ++k) {
        total *= s[k];
    }

    for (std::size_t i = 0; i < total; ++i) {
        covfie::array::array<std::size_t, N> c;
        std::size_t r = i;
        for (std::size_t k = N; k-- > 0;) {
            c[k] = s[k] ? r % s[k] : 0;
            r = s[k] ? r / s[k] : 0;
        }
        fn(c, i);
    }
}

template <typename To, typename From, std::size_t N>
covfie::array::array<To, N> convert(const covfie::array::array<From, N> & c)
{
    covfie::array::array<To, N> r;
    for (std::size_t k = 0; k < N; ++k) {
        r[k] = static_cast<To>(c[k]);
    }
    return r;
}

/* ------------------------------------------------------------------------ */
/* 1. Index functions, hammered from 16 threads from the very first call.   */
/* ------------------------------------------------------------------------ */

template <typename Vec, bool Bmi>
void morton_index_checks(std::uint64_t seed, std::size_t iterations)
{
    using S = typename Vec::type;
    constexpr std::size_t N = Vec::size;
    using B = cb::morton<Vec, cb::array<cv::float1>, Bmi>;
    using C = covfie::array::array<S, N>;

    std::mt19937_64 rng(seed);

    constexpr std::size_t bits = 64 / N;

    for (std::size_t it = 0; it < iterations; ++it) {
        C c;

        for (std::size_t j = 0; j < N; ++j) {
            std::uint64_t r = rng();

            /* Mix of small, boundary and full-width in-range coordinates. */
            switch (it % 4) {
                case 0:
                    r &= 0xFF;
                    break;
                case 1:
                    r &= 0xFFFF;
                    break;
                case 2:
                    r = (bits >= 64 ? ~0ull : ((1ull << bits) - 1)) - (r & 3);
                    break;
                default:
                    break;
            }

            if (bits < 64) {
                r &= (1ull << bits) - 1;
            }

            c[j] = static_cast<S>(r);
        }

        CHECK(B::calculate_index(c) == ref_morton<N, S>(c));
    }
}

void hilbert_index_checks(std::uint64_t seed, std::size_t iterations)
{
    using B = cb::hilbert<cv::size2, cb::array<cv::float1>>;
    using BU = cb::hilbert<cv::uint2, cb::array<cv::float1>>;

    std::mt19937_64 rng(seed);

    /* Exhaustive on small shapes, including degenerate ones. */
    const std::size_t shapes[][2] = {
        {0, 0},  {1, 1},  {1, 2},   {2, 1},   {1, 7},   {3, 5},   {4, 4},
        {8, 8},  {9, 2},  {16, 16}, {17, 16}, {16, 17}, {31, 33}, {64, 3},
        {5, 100}, {128, 128}, {129, 70}, {257, 9}};

    for (const auto & sh : shapes) {
        typename B::configuration_t sizes{sh[0], sh[1]};
        std::size_t n = ref_round_pow2(std::max(sh[0], sh[1]));
        std::vector<bool> seen(n * n, false);

        for (std::size_t x = 0; x < sh[0]; ++x) {
            for (std::size_t y = 0; y < sh[1]; ++y) {
                std::size_t d = B::calculate_index({x, y}, sizes);
                CHECK(d == ref_hilbert(x, y, n));
                CHECK(d < n * n);
                if (d < n * n) {
                    CHECK(!seen[d]);
                    seen[d] = true;
                }
                CHECK(
                    BU::calculate_index(
                        {static_cast<unsigned>(x), static_cast<unsigned>(y)},
                        sizes
                    ) == d
                );
            }
        }
    }

    /* Random probes on curves of every order that has a representable
     * index, and on a few that have not (whose index wraps around). */
    for (std::size_t it = 0; it < iterations; ++it) {
        std::size_t order = static_cast<std::size_t>(rng() % 37);
        std::size_t side = static_cast<std::size_t>(1) << order;
        std::size_t big = side - (order > 1 ? rng() % (side / 2) : 0);
        std::size_t small = 1 + rng() % big;
        bool flip = rng() & 1;

        typename B::configuration_t sizes{
            flip ? big : small, flip ? small : big};

        std::size_t n = ref_round_pow2(big);

        /* Walk a short path so that neighbouring lookups follow each other,
         * then jump. */
        std::size_t x = rng() % sizes[0];
        std::size_t y = rng() % sizes[1];

        for (int step = 0; step < 6; ++step) {
            CHECK(B::calculate_index({x, y}, sizes) == ref_hilbert(x, y, n));
            x = (x + (rng() % 3)) % sizes[0];
            y = (y + (rng() % 3)) % sizes[1];
        }
    }
}

void index_function_checks()
{
    run_threads(MAX_THREADS, [](unsigned tid) {
        /* Everybody starts with a different table / curve so that the first
         * use of each of them is contended. */
        for (unsigned round = 0; round < 6; ++round) {
            switch ((tid + round) % 6) {
                case 0:
                    morton_index_checks<cv::size2, true>(tid * 7 + 1, 20000);
                    morton_index_checks<cv::size2, false>(tid * 7 + 2, 20000);
                    break;
                case 1:
                    morton_index_checks<cv::size3, true>(tid * 7 + 3, 20000);
                    morton_index_checks<cv::size3, false>(tid * 7 + 4, 20000);
                    break;
                case 2:
                    morton_index_checks<cv::size1, false>(tid * 7 + 5, 5000);
                    morton_index_checks<cv::size4, false>(tid * 7 + 6, 20000);
                    break;
                case 3:
                    morton_index_checks<cv::uint2, false>(tid * 7 + 7, 20000);
                    morton_index_checks<cv::uint3, false>(tid * 7 + 8, 20000);
                    break;
                case 4:
                    morton_index_checks<cv::vector_d<std::size_t, 5>, false>(
                        tid * 7 + 9, 10000
                    );
                    morton_index_checks<cv::vector_d<std::size_t, 9>, false>(
                        tid * 7 + 10, 5000
                    );
                    break;
                default:
                    hilbert_index_checks(tid * 7 + 11, 3000);
                    break;
            }
        }
    });
}

/* ------------------------------------------------------------------------ */
/* 2. Fields: build, convert, copy, move, assign, dump, load.               */
/* ------------------------------------------------------------------------ */

template <typename F, std::size_t N, typename S = std::size_t>
using strided_t =
    cb::strided<cv::vector_d<S, N>, cb::array<cv::vector_d<F, 3>>>;

template <typename F, std::size_t N, typename S = std::size_t>
covfie::field<strided_t<F, N, S>>
make_strided(const covfie::array::array<std::size_t, N> & sizes)
{
    using field_t = covfie::field<strided_t<F, N, S>>;

    field_t f(covfie::make_parameter_pack(
        typename field_t::backend_t::configuration_t(sizes)
    ));
    typename field_t::view_t v(f);

    for_each_coord<N>(
        sizes,
        [&](const covfie::array::array<std::size_t, N> & c, std::size_t) {
            auto cc = convert<S>(c);
            for (std::size_t q = 0; q < 3; ++q) {
                v.at(cc)[q] = cell_value<F, N>(c, q);
            }
        }
    );

    return f;
}

template <typename Field, std::size_t N>
void check_contents(
    const Field & f, const covfie::array::array<std::size_t, N> & sizes
)
{
    using F = typename Field::backend_t::covariant_output_t::scalar_t;
    using S = typename Field::backend_t::contravariant_input_t::scalar_t;

    typename Field::view_t v(f);

    for_each_coord<N>(
        sizes,
        [&](const covfie::array::array<std::size_t, N> & c, std::size_t) {
            auto cc = convert<S>(c);
            for (std::size_t q = 0; q < 3; ++q) {
                CHECK(v.at(cc)[q] == (cell_value<F, N>(c, q)));
            }
        }
    );
}

template <typename T>
void put(std::string & s, const T & v)
{
    s.append(reinterpret_cast<const char *>(&v), sizeof(T));
}

/*
 * The bytes a field with a space-filling-curve or strided layer on top of an
 * array must serialise to, built by hand from the reference index function.
 */
template <typename F, std::size_t N>
std::string expected_dump(
    std::uint32_t layer_magic,
    const covfie::array::array<std::size_t, N> & sizes,
    std::size_t storage_size,
    const std::function<std::size_t(const covfie::array::array<std::size_t, N> &)> &
        index
)
{
    std::vector<F> data(storage_size * 3, static_cast<F>(0));

    for_each_coord<N>(
        sizes,
        [&](const covfie::array::array<std::size_t, N> & c, std::size_t) {
            for (std::size_t q = 0; q < 3; ++q) {
                data[index(c) * 3 + q] = cell_value<F, N>(c, q);
            }
        }
    );

    const std::uint32_t H = 0xC04F1EAB, T = 0xC04F1E70;
    std::string s;

    put(s, H);
    put(s, std::uint32_t(0xAB000000));
    put(s, H);
    put(s, layer_magic);
    for (std::size_t k = 0; k < N; ++k) {
        put(s, std::uint64_t(sizes[k]));
    }
    put(s, H);
    put(s, std::uint32_t(0xAB010000));
    put(s, std::uint32_t(sizeof(F)));
    put(s, std::uint64_t(storage_size));
    s.append(
        reinterpret_cast<const char *>(data.data()), data.size() * sizeof(F)
    );
    put(s, T);
    put(s, std::uint32_t(0xAB010000 + 0x20000000));
    put(s, T);
    put(s, std::uint32_t(layer_magic + 0x20000000));
    put(s, T);
    put(s, std::uint32_t(0xAB000000 + 0x20000000));

    return s;
}

template <typename Field>
std::string dump(const Field & f)
{
    std::ostringstream os(std::ios::binary);
    f.dump(os);
    return os.str();
}

/*
 * Exercise the special member functions of a field, check the contents after
 * each step and return the serialised form.
 */
template <typename Field, std::size_t N>
std::string
lifecycle_checks(const Field & orig, const covfie::array::array<std::size_t, N> & sizes)
{
    check_contents(orig, sizes);

    std::string bytes = dump(orig);

    /* Copy construction; the copy is independent of the original. */
    Field copy(orig);
    check_contents(copy, sizes);
    CHECK(dump(copy) == bytes);

    /* Move construction; the moved-from object can be copied, assigned to
     * and destroyed. */
    Field moved(std::move(copy));
    check_contents(moved, sizes);
    {
        Field from_moved_from(copy);
        (void)from_moved_from;
    }
    copy = orig;
    check_contents(copy, sizes);

    /* Copy assignment over a live object, and self-assignment. */
    Field other;
    other = moved;
    check_contents(other, sizes);
    Field & alias = other;
    other = alias;
    check_contents(other, sizes);

    /* Move assignment. */
    Field target(orig);
    target = std::move(other);
    check_contents(target, sizes);
    other = target;
    check_contents(other, sizes);

    /* A view made before its field was copied keeps reading the original;
     * views are cheap copies of each other. */
    typename Field::view_t v1(target);
    typename Field::view_t v2(v1);
    Field later(target);
    {
        using S = typename Field::backend_t::contravariant_input_t::scalar_t;
        for_each_coord<N>(
            sizes,
            [&](const covfie::array::array<std::size_t, N> & c, std::size_t) {
                auto cc = convert<S>(c);
                CHECK(&v1.at(cc) == &v2.at(cc));
            }
        );
    }

    /* Round trip through the binary format. */
    std::istringstream is(bytes, std::ios::binary);
    Field loaded(is);
    check_contents(loaded, sizes);
    CHECK(dump(loaded) == bytes);

    /* Truncated input must throw and not leak. */
    if (bytes.size() > 8) {
        std::istringstream cut(
            bytes.substr(0, bytes.size() - bytes.size() / 3), std::ios::binary
        );
        bool thrown = false;
        try {
            Field broken(cut);
        } catch (const std::exception &) {
            thrown = true;
        }
        CHECK(thrown);
    }

    return bytes;
}

template <typename F>
void field_checks_2d(const covfie::array::array<std::size_t, 2> & sizes)
{
    using sfield_t = covfie::field<strided_t<F, 2>>;
    using mfield_t = covfie::field<
        cb::morton<cv::size2, cb::array<cv::vector_d<F, 3>>, false>>;
    using mbfield_t = covfie::field<
        cb::morton<cv::size2, cb::array<cv::vector_d<F, 3>>, true>>;
    using mufield_t = covfie::field<
        cb::morton<cv::uint2, cb::array<cv::vector_d<F, 3>>, false>>;
    using hfield_t =
        covfie::field<cb::hilbert<cv::size2, cb::array<cv::vector_d<F, 3>>>>;
    using hufield_t =
        covfie::field<cb::hilbert<cv::uint2, cb::array<cv::vector_d<F, 3>>>>;
    using C = covfie::array::array<std::size_t, 2>;

    sfield_t sf = make_strided<F, 2>(sizes);
    covfie::field<strided_t<F, 2, unsigned>> suf =
        make_strided<F, 2, unsigned>(sizes);

    std::size_t side = ref_round_pow2(std::max(sizes[0], sizes[1]));

    std::string sb = lifecycle_checks(sf, sizes);
    CHECK(
        sb == (expected_dump<F, 2>(
                  0xAB020010,
                  sizes,
                  sizes[0] * sizes[1],
                  [&](const C & c) { return ref_strided<2>(c, sizes); }
              ))
    );

    std::string em = expected_dump<F, 2>(
        0xAB020006, sizes, side * side, [&](const C & c) {
            return ref_morton<2, std::size_t>(c);
        }
    );

    mfield_t mf(sf);
    CHECK(lifecycle_checks(mf, sizes) == em);

    mbfield_t mbf(sf);
    CHECK(lifecycle_checks(mbf, sizes) == em);

    CHECK(lifecycle_checks(suf, sizes) == sb);

    mufield_t muf(suf);
    CHECK(lifecycle_checks(muf, sizes) == em);

    std::string eh = expected_dump<F, 2>(
        0xAB020004, sizes, side * side, [&](const C & c) {
            return ref_hilbert(c[0], c[1], side);
        }
    );

    hfield_t hf(sf);
    CHECK(lifecycle_checks(hf, sizes) == eh);

    hufield_t huf(suf);
    CHECK(lifecycle_checks(huf, sizes) == eh);

    /* Conversions between the layouts, in every direction. */
    check_contents(sfield_t(mf), sizes);
    check_contents(sfield_t(hf), sizes);
    check_contents(mfield_t(hf), sizes);
    check_contents(hfield_t(mf), sizes);
    CHECK(dump(sfield_t(hfield_t(mfield_t(sf)))) == sb);
}

template <typename F>
void field_checks_3d(const covfie::array::array<std::size_t, 3> & sizes)
{
    using sfield_t = covfie::field<strided_t<F, 3>>;
    using mfield_t = covfie::field<
        cb::morton<cv::size3, cb::array<cv::vector_d<F, 3>>, false>>;
    using mbfield_t = covfie::field<
        cb::morton<cv::size3, cb::array<cv::vector_d<F, 3>>, true>>;
    using C = covfie::array::array<std::size_t, 3>;

    sfield_t sf = make_strided<F, 3>(sizes);

    std::size_t side =
        ref_round_pow2(std::max(sizes[0], std::max(sizes[1], sizes[2])));

    std::string sb = lifecycle_checks(sf, sizes);
    CHECK(
        sb == (expected_dump<F, 3>(
                  0xAB020010,
                  sizes,
                  sizes[0] * sizes[1] * sizes[2],
                  [&](const C & c) { return ref_strided<3>(c, sizes); }
              ))
    );

    std::string em = expected_dump<F, 3>(
        0xAB020006, sizes, side * side * side, [&](const C & c) {
            return ref_morton<3, std::size_t>(c);
        }
    );

    mfield_t mf(sf);
    CHECK(lifecycle_checks(mf, sizes) == em);

    mbfield_t mbf(sf);
    CHECK(lifecycle_checks(mbf, sizes) == em);

    CHECK(dump(sfield_t(mf)) == sb);
}

template <typename F>
void field_checks_1d_4d()
{
    {
        using C = covfie::array::array<std::size_t, 1>;
        C sizes{std::size_t(11)};
        auto sf = make_strided<F, 1>(sizes);
        std::string sb = lifecycle_checks(sf, sizes);
        CHECK(
            sb == (expected_dump<F, 1>(
                      0xAB020010, sizes, 11, [&](const C & c) { return c[0]; }
                  ))
        );

        covfie::field<
            cb::morton<cv::size1, cb::array<cv::vector_d<F, 3>>, false>>
            mf(sf);
        CHECK(
            lifecycle_checks(mf, sizes) ==
            (expected_dump<F, 1>(0xAB020006, sizes, 16, [&](const C & c) {
                return c[0];
            }))
        );
    }
    {
        using C = covfie::array::array<std::size_t, 4>;
        C sizes{std::size_t(3), std::size_t(1), std::size_t(5), std::size_t(2)};
        auto sf = make_strided<F, 4>(sizes);
        std::string sb = lifecycle_checks(sf, sizes);
        CHECK(
            sb == (expected_dump<F, 4>(
                      0xAB020010,
                      sizes,
                      30,
                      [&](const C & c) { return ref_strided<4>(c, sizes); }
                  ))
        );

        covfie::field<
            cb::morton<cv::size4, cb::array<cv::vector_d<F, 3>>, false>>
            mf(sf);
        CHECK(
            lifecycle_checks(mf, sizes) ==
            (expected_dump<F, 4>(0xAB020006, sizes, 8 * 8 * 8 * 8, [&](const C & c) {
                return ref_morton<4, std::size_t>(c);
            }))
        );
    }
}

template <typename F>
void empty_field_checks()
{
    using sfield_t = covfie::field<strided_t<F, 2>>;
    using mfield_t = covfie::field<
        cb::morton<cv::size2, cb::array<cv::vector_d<F, 3>>, false>>;
    using hfield_t =
        covfie::field<cb::hilbert<cv::size2, cb::array<cv::vector_d<F, 3>>>>;

    /* Default-constructed fields can be copied, moved, assigned and viewed
     * (but not looked into). */
    {
        sfield_t a;
        sfield_t b(a);
        sfield_t c(std::move(a));
        b = c;
        c = std::move(b);
        typename sfield_t::view_t v(c);
        (void)v;
        std::string bytes = dump(c);
        std::istringstream is(bytes, std::ios::binary);
        sfield_t d(is);
        CHECK(dump(d) == bytes);
    }
    {
        mfield_t a;
        mfield_t b(a);
        mfield_t c(std::move(a));
        b = c;
        c = std::move(b);
        typename mfield_t::view_t v(c);
        (void)v;
    }
    {
        hfield_t a;
        hfield_t b(a);
        hfield_t c(std::move(a));
        b = c;
        c = std::move(b);
        typename hfield_t::view_t v(c);
        (void)v;
    }

    /* Fields with a zero extent. */
    for (auto sizes :
         {covfie::array::array<std::size_t, 2>{std::size_t(0), std::size_t(0)},
          covfie::array::array<std::size_t, 2>{std::size_t(0), std::size_t(5)},
          covfie::array::array<std::size_t, 2>{std::size_t(4), std::size_t(0)}})
    {
        sfield_t sf = make_strided<F, 2>(sizes);
        lifecycle_checks(sf, sizes);
        mfield_t mf(sf);
        lifecycle_checks(mf, sizes);
        hfield_t hf(sf);
        lifecycle_checks(hf, sizes);
    }
}

void field_checks()
{
    using C2 = covfie::array::array<std::size_t, 2>;
    using C3 = covfie::array::array<std::size_t, 3>;

    const C2 shapes2[] = {
        C2{std::size_t(1), std::size_t(1)},
        C2{std::size_t(1), std::size_t(9)},
        C2{std::size_t(7), std::size_t(3)},
        C2{std::size_t(16), std::size_t(16)},
        C2{std::size_t(17), std::size_t(5)},
        C2{std::size_t(20), std::size_t(40)},
        C2{std::size_t(65), std::size_t(33)}};

    for (const C2 & s : shapes2) {
        field_checks_2d<float>(s);
        field_checks_2d<double>(s);
    }

    const C3 shapes3[] = {
        C3{std::size_t(1), std::size_t(1), std::size_t(1)},
        C3{std::size_t(2), std::size_t(3), std::size_t(4)},
        C3{std::size_t(8), std::size_t(8), std::size_t(8)},
        C3{std::size_t(9), std::size_t(2), std::size_t(17)},
        C3{std::size_t(5), std::size_t(33), std::size_t(3)}};

    for (const C3 & s : shapes3) {
        field_checks_3d<float>(s);
        field_checks_3d<double>(s);
    }

    field_checks_1d_4d<float>();
    field_checks_1d_4d<double>();

    empty_field_checks<float>();
    empty_field_checks<double>();
}

/* ------------------------------------------------------------------------ */
/* 3. Interpolators on top of every layout agree bit for bit.               */
/* ------------------------------------------------------------------------ */

template <typename F>
void interpolator_checks()
{
    using C2 = covfie::array::array<std::size_t, 2>;
    using C3 = covfie::array::array<std::size_t, 3>;
    using arr_t = cb::array<cv::vector_d<F, 3>>;
    using in2_t = cv::vector_d<F, 2>;
    using in3_t = cv::vector_d<F, 3>;

    {
        C2 sizes{std::size_t(37), std::size_t(21)};
        auto sf = make_strided<F, 2>(sizes);

        using ls_t = covfie::field<cb::linear<strided_t<F, 2>, in2_t>>;
        using lm_t = covfie::field<
            cb::linear<cb::morton<cv::size2, arr_t, false>, in2_t>>;
        using lh_t =
            covfie::field<cb::linear<cb::hilbert<cv::size2, arr_t>, in2_t>>;
        using nh_t = covfie::field<
            cb::nearest_neighbour<cb::hilbert<cv::size2, arr_t>, in2_t>>;

        ls_t ls(covfie::make_parameter_pack(
            typename ls_t::backend_t::configuration_t{}, sf.backend()
        ));
        lm_t lm(ls);
        lh_t lh(ls);
        nh_t nh(lh);

        typename ls_t::view_t vs(ls);
        typename lm_t::view_t vm(lm);
        typename lh_t::view_t vh(lh);
        typename nh_t::view_t vn(nh);

        std::mt19937_64 rng(99);
        std::uniform_real_distribution<F> dx(0, F(35.99)), dy(0, F(19.99));

        for (int it = 0; it < 4000; ++it) {
            F x = dx(rng), y = dy(rng);
            auto a = vs.at(x, y);
            auto b = vm.at(x, y);
            auto c = vh.at(x, y);
            for (std::size_t q = 0; q < 3; ++q) {
                CHECK(a[q] == b[q]);
                CHECK(a[q] == c[q]);
            }
            C2 r{
                static_cast<std::size_t>(std::lrint(x)),
                static_cast<std::size_t>(std::lrint(y))};
            auto n = vn.at(x, y);
            for (std::size_t q = 0; q < 3; ++q) {
                CHECK(n[q] == (cell_value<F, 2>(r, q)));
            }
        }

        /* At integral positions the interpolant reproduces the samples. */
        for_each_coord<2>(C2{std::size_t(36), std::size_t(20)}, [&](const C2 & c, std::size_t) {
            auto a = vh.at(static_cast<F>(c[0]), static_cast<F>(c[1]));
            for (std::size_t q = 0; q < 3; ++q) {
                CHECK(a[q] == (cell_value<F, 2>(c, q)));
            }
        });
    }

    {
        C3 sizes{std::size_t(9), std::size_t(12), std::size_t(7)};
        auto sf = make_strided<F, 3>(sizes);

        using ls_t = covfie::field<cb::linear<strided_t<F, 3>, in3_t>>;
        using lm_t = covfie::field<
            cb::linear<cb::morton<cv::size3, arr_t, false>, in3_t>>;

        ls_t ls(covfie::make_parameter_pack(
            typename ls_t::backend_t::configuration_t{}, sf.backend()
        ));
        lm_t lm(ls);

        typename ls_t::view_t vs(ls);
        typename lm_t::view_t vm(lm);

        std::mt19937_64 rng(7);
        std::uniform_real_distribution<F> dx(0, F(7.99)), dy(0, F(10.99)),
            dz(0, F(5.99));

        for (int it = 0; it < 4000; ++it) {
            F x = dx(rng), y = dy(rng), z = dz(rng);
            auto a = vs.at(x, y, z);
            auto b = vm.at(x, y, z);
            for (std::size_t q = 0; q < 3; ++q) {
                CHECK(a[q] == b[q]);
            }
        }
    }
}

/* ------------------------------------------------------------------------ */
/* 4. Concurrency: shared views, per-thread views, per-thread copies,       */
/*    readers and writers to disjoint coordinates.                          */
/* ------------------------------------------------------------------------ */

template <typename Field, typename SField>
void concurrent_checks_2d(
    const SField & sf,
    const covfie::array::array<std::size_t, 2> & sizes,
    unsigned nthreads
)
{
    using C = covfie::array::array<std::size_t, 2>;
    using S = typename Field::backend_t::contravariant_input_t::scalar_t;

    Field f(sf);
    const std::size_t total = sizes[0] * sizes[1];

    /* What a sequential execution reads. */
    std::vector<float> expected(total * 3);
    {
        typename Field::view_t v(f);
        for_each_coord<2>(sizes, [&](const C & c, std::size_t i) {
            auto cc = convert<S>(c);
            for (std::size_t q = 0; q < 3; ++q) {
                expected[i * 3 + q] = v.at(cc)[q];
            }
        });
    }

    typename Field::view_t shared(f);

    /* Readers: shared view, own view of the shared field, own copy. */
    run_threads(nthreads, [&](unsigned tid) {
        typename Field::view_t own_view(f);
        Field own_copy(f);
        typename Field::view_t copy_view(own_copy);

        std::mt19937_64 rng(tid + 1);

        for (int pass = 0; pass < 2; ++pass) {
            for (std::size_t n = 0; n < total; ++n) {
                /* Each thread walks in a different order; the second pass is
                 * random. */
                std::size_t i = pass == 0 ? (n * (2 * tid + 1) + tid) % total
                                          : rng() % total;
                C c{i / sizes[1], i % sizes[1]};
                auto cc = convert<S>(c);

                for (std::size_t q = 0; q < 3; ++q) {
                    float e = expected[i * 3 + q];
                    CHECK(shared.at(cc)[q] == e);
                    CHECK(own_view.at(cc)[q] == e);
                    CHECK(copy_view.at(cc)[q] == e);
                }
            }
        }
    });

    /* Writers to disjoint coordinates through a shared view, with everybody
     * concurrently reading the coordinates that nobody writes (those owned by
     * the imaginary thread `nthreads`). */
    run_threads(nthreads, [&](unsigned tid) {
        typename Field::view_t own_view(f);

        for (std::size_t i = 0; i < total; ++i) {
            C c{i / sizes[1], i % sizes[1]};
            auto cc = convert<S>(c);
            std::size_t owner = i % (nthreads + 1);

            if (owner == tid) {
                for (std::size_t q = 0; q < 3; ++q) {
                    float nv = -expected[i * 3 + q] - 1.f;
                    if (i & 1) {
                        shared.at(cc)[q] = nv;
                    } else {
                        own_view.at(cc)[q] = nv;
                    }
                }
                for (std::size_t q = 0; q < 3; ++q) {
                    CHECK(own_view.at(cc)[q] == -expected[i * 3 + q] - 1.f);
                }
            } else if (owner == nthreads) {
                for (std::size_t q = 0; q < 3; ++q) {
                    CHECK(shared.at(cc)[q] == expected[i * 3 + q]);
                }
            }
        }
    });

    /* After the join everything is visible, through old and new views. */
    {
        typename Field::view_t v(f);
        for_each_coord<2>(sizes, [&](const C & c, std::size_t i) {
            auto cc = convert<S>(c);
            std::size_t owner = i % (nthreads + 1);
            for (std::size_t q = 0; q < 3; ++q) {
                float e = owner == nthreads ? expected[i * 3 + q]
                                            : -expected[i * 3 + q] - 1.f;
                CHECK(v.at(cc)[q] == e);
                CHECK(shared.at(cc)[q] == e);
            }
        });
    }
}

void concurrent_interpolation_checks(unsigned nthreads)
{
    using C3 = covfie::array::array<std::size_t, 3>;
    using C2 = covfie::array::array<std::size_t, 2>;
    using arr_t = cb::array<cv::float3>;

    C3 sizes3{std::size_t(20), std::size_t(18), std::size_t(35)};
    C2 sizes2{std::size_t(70), std::size_t(45)};

    auto sf3 = make_strided<float, 3>(sizes3);
    auto sf2 = make_strided<float, 2>(sizes2);

    using ls3_t = covfie::field<cb::linear<strided_t<float, 3>>>;
    using lm3_t =
        covfie::field<cb::linear<cb::morton<cv::size3, arr_t, false>>>;
    using ls2_t = covfie::field<cb::linear<strided_t<float, 2>>>;
    using lh2_t = covfie::field<cb::linear<cb::hilbert<cv::size2, arr_t>>>;

    ls3_t ls3(covfie::make_parameter_pack(
        ls3_t::backend_t::configuration_t{}, sf3.backend()
    ));
    lm3_t lm3(ls3);
    ls2_t ls2(covfie::make_parameter_pack(
        ls2_t::backend_t::configuration_t{}, sf2.backend()
    ));
    lh2_t lh2(ls2);

    constexpr std::size_t P = 3000;
    std::vector<covfie::array::array<float, 3>> p3(P), e3(P);
    std::vector<covfie::array::array<float, 2>> p2(P);
    std::vector<covfie::array::array<float, 3>> e2(P);

    {
        std::mt19937_64 rng(4242);
        std::uniform_real_distribution<float> u(0.f, 1.f);
        ls3_t::view_t v3(ls3);
        ls2_t::view_t v2(ls2);

        /* A drifting track, as a particle stepper would produce. */
        float x = 5.f, y = 5.f, z = 5.f;
        for (std::size_t i = 0; i < P; ++i) {
            x = std::min(18.9f, std::max(0.f, x + u(rng) - 0.45f));
            y = std::min(16.9f, std::max(0.f, y + u(rng) - 0.45f));
            z = std::min(33.9f, std::max(0.f, z + u(rng) - 0.45f));
            p3[i] = {x, y, z};
            e3[i] = v3.at(x, y, z);
            p2[i] = {x * 3.6f, y * 2.5f};
            e2[i] = v2.at(p2[i][0], p2[i][1]);
        }
    }

    lm3_t::view_t sm3(lm3);
    lh2_t::view_t sh2(lh2);

    run_threads(nthreads, [&](unsigned tid) {
        lm3_t::view_t om3(lm3);
        lh2_t::view_t oh2(lh2);
        lh2_t copy(lh2);
        lh2_t::view_t ch2(copy);

        for (std::size_t n = 0; n < P; ++n) {
            std::size_t i = (tid & 1) ? P - 1 - n : n;

            auto a = sm3.at(p3[i][0], p3[i][1], p3[i][2]);
            auto b = om3.at(p3[i][0], p3[i][1], p3[i][2]);
            auto c = sh2.at(p2[i][0], p2[i][1]);
            auto d = oh2.at(p2[i][0], p2[i][1]);
            auto e = ch2.at(p2[i][0], p2[i][1]);

            for (std::size_t q = 0; q < 3; ++q) {
                CHECK(a[q] == e3[i][q]);
                CHECK(b[q] == e3[i][q]);
                CHECK(c[q] == e2[i][q]);
                CHECK(d[q] == e2[i][q]);
                CHECK(e[q] == e2[i][q]);
            }
        }
    });
}

void concurrency_checks()
{
    using C2 = covfie::array::array<std::size_t, 2>;
    using arr_t = cb::array<cv::float3>;

    for (unsigned nthreads : {2u, 5u, 16u}) {
        for (C2 sizes :
             {C2{std::size_t(13), std::size_t(9)},
              C2{std::size_t(40), std::size_t(70)}})
        {
            auto sf = make_strided<float, 2>(sizes);
            auto suf = make_strided<float, 2, unsigned>(sizes);

            concurrent_checks_2d<covfie::field<strided_t<float, 2>>>(
                sf, sizes, nthreads
            );
            concurrent_checks_2d<
                covfie::field<strided_t<float, 2, unsigned>>>(
                suf, sizes, nthreads
            );
            concurrent_checks_2d<
                covfie::field<cb::morton<cv::size2, arr_t, false>>>(
                sf, sizes, nthreads
            );
            concurrent_checks_2d<
                covfie::field<cb::morton<cv::size2, arr_t, true>>>(
                sf, sizes, nthreads
            );
            concurrent_checks_2d<
                covfie::field<cb::morton<cv::uint2, arr_t, false>>>(
                suf, sizes, nthreads
            );
            concurrent_checks_2d<covfie::field<cb::hilbert<cv::size2, arr_t>>>(
                sf, sizes, nthreads
            );
            concurrent_checks_2d<covfie::field<cb::hilbert<cv::uint2, arr_t>>>(
                suf, sizes, nthreads
            );
        }

        concurrent_interpolation_checks(nthreads);
    }
}

int main()
{
    /* The contended first use comes first, on purpose. */
    index_function_checks();
    field_checks();
    interpolator_checks<float>();
    interpolator_checks<double>();
    concurrency_checks();

    unsigned long failures = g_failures.load();
    unsigned long checks = g_checks.load();

    if (failures != 0) {
        std::printf("FAIL (%lu of %lu checks failed)\n", failures, checks);
        return 1;
    }

    std::printf("PASS (%lu checks)\n", checks);
    return 0;
}
