// Seeded generators and trace hashing for the covfie simulator.
// One integer (VERIF_SEED) decides everything: run seeds are derived with
// splitmix64, and inside a run independent xoshiro256** streams are derived by
// label so that changing one dimension does not shift the others.
#pragma once
#include <cstdint>
#include <cstring>
#include <string>

namespace sim {

inline uint64_t splitmix64(uint64_t &x)
{
    uint64_t z = (x += 0x9E3779B97F4A7C15ull);
    z = (z ^ (z >> 30)) * 0xBF58476D1CE4E5B9ull;
    z = (z ^ (z >> 27)) * 0x94D049BB133111EBull;
    return z ^ (z >> 31);
}

inline uint64_t mix64(uint64_t a, uint64_t b)
{
    uint64_t x = a ^ (b + 0x9E3779B97F4A7C15ull + (a << 6) + (a >> 2));
    return splitmix64(x);
}

inline uint64_t hash_str(const char *s)
{
    uint64_t h = 0xcbf29ce484222325ull;
    for (; *s; ++s) {
        h ^= (unsigned char)*s;
        h *= 0x100000001b3ull;
    }
    return h;
}

struct Rng {
    uint64_t s[4];
    explicit Rng(uint64_t seed = 1)
    {
        reseed(seed);
    }
    void reseed(uint64_t seed)
    {
        uint64_t x = seed;
        for (auto &v : s)
            v = splitmix64(x);
    }
    static uint64_t rotl(uint64_t x, int k)
    {
        return (x << k) | (x >> (64 - k));
    }
    uint64_t next()
    {
        uint64_t r = rotl(s[1] * 5, 7) * 9, t = s[1] << 17;
        s[2] ^= s[0];
        s[3] ^= s[1];
        s[1] ^= s[2];
        s[0] ^= s[3];
        s[2] ^= t;
        s[3] = rotl(s[3], 45);
        return r;
    }
    // uniform in [0, n), n > 0
    uint64_t below(uint64_t n)
    {
        return n ? next() % n : 0;
    }
    // uniform in [lo, hi]
    int64_t range(int64_t lo, int64_t hi)
    {
        return lo + (int64_t)below((uint64_t)(hi - lo + 1));
    }
    bool chance(double p)
    {
        return (next() >> 11) * (1.0 / 9007199254740992.0) < p;
    }
    double unit()
    {
        return (next() >> 11) * (1.0 / 9007199254740992.0);
    }
    Rng fork(const char *label)
    {
        return Rng(mix64(next(), hash_str(label)));
    }
};

// derive the seed of run i of a property from the master seed
inline uint64_t run_seed(uint64_t master, const char *label, uint64_t i)
{
    return mix64(mix64(master, hash_str(label)), i) & 0x7fffffffffffffffull;
}

// order-sensitive 64-bit trace hash (FNV-1a over the fed bytes)
struct Hash {
    uint64_t h = 0xcbf29ce484222325ull;
    void bytes(const void *p, size_t n)
    {
        const unsigned char *c = (const unsigned char *)p;
        for (size_t i = 0; i < n; ++i) {
            h ^= c[i];
            h *= 0x100000001b3ull;
        }
    }
    void u64(uint64_t v)
    {
        bytes(&v, 8);
    }
    void str(const std::string &s)
    {
        bytes(s.data(), s.size());
        u64(s.size());
    }
};

}
