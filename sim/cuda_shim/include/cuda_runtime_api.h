// CUDA runtime shim (seam S5): the handful of runtime calls covfie's
// cuda_device_array makes, backed by a separately tracked host arena ("device
// memory") with an injectable failure plan. A stub: it exercises covfie's
// host-side ownership logic around the calls, nothing about a GPU.
#pragma once
#include <cstddef>

typedef enum cudaError {
    cudaSuccess = 0,
    cudaErrorInvalidValue = 1,
    cudaErrorMemoryAllocation = 2
} cudaError_t;

enum cudaMemcpyKind {
    cudaMemcpyHostToHost = 0,
    cudaMemcpyHostToDevice = 1,
    cudaMemcpyDeviceToHost = 2,
    cudaMemcpyDeviceToDevice = 3,
    cudaMemcpyDefault = 4
};

extern "C" {
cudaError_t cudaMalloc(void **p, size_t n);
cudaError_t cudaFree(void *p);
cudaError_t cudaMemcpy(void *dst, const void *src, size_t n, enum cudaMemcpyKind kind);
const char *cudaGetErrorString(cudaError_t e);
}

// the real runtime offers a template overload taking T**
template <class T>
static inline cudaError_t cudaMalloc(T **p, size_t n)
{
    return ::cudaMalloc((void **)(void *)p, n);
}
