#include "sim_cuda.hpp"
#include "include/cuda_runtime_api.h"
#include <cstdlib>
#include <cstring>
#include <map>

namespace sim::cuda {
namespace {
struct Block { size_t n; bool live; };
// std::map allocates through operator new outside any SUT scope bookkeeping:
// the shim switches the scope off around its own bookkeeping (see Guard).
std::map<const void *, Block> *g_blocks;
long g_fail = 0;
size_t g_calls = 0;
bool g_fired = false;
const char *g_viol = nullptr;
size_t g_live = 0;
std::map<const void *, Block> &blocks()
{
    if (!g_blocks)
        g_blocks = new std::map<const void *, Block>();
    return *g_blocks;
}
bool inject()
{
    ++g_calls;
    if (g_fail && (long)g_calls == g_fail) {
        g_fired = true;
        return true;
    }
    return false;
}
const Block *find(const void *p, size_t n)
{
    auto &b = blocks();
    auto it = b.upper_bound(p);
    if (it == b.begin())
        return nullptr;
    --it;
    const char *base = (const char *)it->first;
    if ((const char *)p >= base && (const char *)p + n <= base + it->second.n && it->second.live)
        return &it->second;
    return nullptr;
}
}
void begin_run()
{
    auto &b = blocks();
    for (auto &kv : b)
        if (kv.second.live)
            std::free((void *)kv.first);
    b.clear();
    g_fail = 0;
    g_calls = 0;
    g_fired = false;
    g_viol = nullptr;
    g_live = 0;
}
void begin_op(long f)
{
    g_fail = f;
    g_calls = 0;
    g_fired = false;
}
bool fault_fired() { return g_fired; }
size_t op_calls() { return g_calls; }
size_t live_blocks() { return g_live; }
const char *take_violation()
{
    const char *v = g_viol;
    g_viol = nullptr;
    return v;
}
bool is_device(const void *p) { return find(p, 1) != nullptr; }
}

namespace sim::alloc { void enter(); void leave(); int depth(); }
namespace {
// bookkeeping allocations of the shim must not count as library allocations
struct Guard {
    int d;
    Guard() : d(sim::alloc::depth()) { for (int i = 0; i < d; ++i) sim::alloc::leave(); }
    ~Guard() { for (int i = 0; i < d; ++i) sim::alloc::enter(); }
};
}

using namespace sim::cuda;

extern "C" cudaError_t cudaMalloc(void **p, size_t n)
{
    Guard g;
    if (inject())
        return cudaErrorMemoryAllocation;
    if (n > (size_t(256) << 20))
        return cudaErrorMemoryAllocation;
    void *q = std::malloc(n ? n : 1);
    if (!q)
        return cudaErrorMemoryAllocation;
    std::memset(q, 0xC7, n);
    blocks()[q] = Block{n, true};
    ++g_live;
    *p = q;
    return cudaSuccess;
}
extern "C" cudaError_t cudaFree(void *p)
{
    Guard g;
    if (!p)
        return cudaSuccess;
    // no injection here: a failing cudaFree inside a destructor is a sticky
    // device error in practice, not a recoverable fault covfie is expected to survive
    auto &b = blocks();
    auto it = b.find(p);
    if (it == b.end()) {
        if (!g_viol) g_viol = "device-foreign-free";
        return cudaErrorInvalidValue;
    }
    if (!it->second.live) {
        if (!g_viol) g_viol = "device-double-free";
        return cudaErrorInvalidValue;
    }
    it->second.live = false;
    --g_live;
    std::free(p);
    return cudaSuccess;
}
extern "C" cudaError_t cudaMemcpy(void *dst, const void *src, size_t n, enum cudaMemcpyKind kind)
{
    Guard g;
    if (inject())
        return cudaErrorInvalidValue;
    if (n == 0)
        return cudaSuccess;
    if (!dst || !src)
        return cudaErrorInvalidValue; // the real runtime rejects null pointers without touching memory
    bool dd = kind == cudaMemcpyHostToDevice || kind == cudaMemcpyDeviceToDevice;
    bool sd = kind == cudaMemcpyDeviceToHost || kind == cudaMemcpyDeviceToDevice;
    if (kind != cudaMemcpyDefault && kind != cudaMemcpyHostToHost) {
        if (dd && !find(dst, n)) {
            if (!g_viol) g_viol = "device-overrun";
            return cudaErrorInvalidValue;
        }
        if (sd && !find(src, n)) {
            if (!g_viol) g_viol = "device-overrun";
            return cudaErrorInvalidValue;
        }
        if ((!dd && find(dst, 1)) || (!sd && find(src, 1))) {
            if (!g_viol) g_viol = "memcpy-kind";
            return cudaErrorInvalidValue;
        }
    }
    std::memmove(dst, src, n);
    return cudaSuccess;
}
extern "C" const char *cudaGetErrorString(cudaError_t e)
{
    switch (e) {
    case cudaSuccess: return "no error";
    case cudaErrorInvalidValue: return "invalid argument";
    case cudaErrorMemoryAllocation: return "out of memory";
    }
    return "unknown";
}
