#pragma once
#include <cstddef>
namespace sim::cuda {
void begin_run();
void begin_op(long fail_call); // the fail_call-th runtime call of this op returns an error (0 = none)
bool fault_fired();
size_t op_calls();
size_t live_blocks(); // device blocks not yet freed
const char *take_violation(); // "device-double-free" | "device-foreign-free" | "device-overrun" | "memcpy-kind"
bool is_device(const void *p);
}
