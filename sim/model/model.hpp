// Reference models: the N-d array model's helpers, curve functions written
// from the published definitions (not from covfie's code), the on-disk format
// model (independent writer + grammar parser), value pools, configuration
// generation and the coordinate-chain interpreter that decides whether a
// lookup coordinate is inside a stack's documented domain.
#pragma once
#include <cmath>
#include <cstdint>
#include <cstring>
#include <string>
#include <vector>

#include "../core/rng.hpp"
#include "../pool/slot_ops.hpp"

namespace sim {

// ---------------------------------------------------------------- small helpers
// products saturate at SIZE_MAX: "more cells than can be counted"
inline size_t volume(const std::vector<size_t> &ext)
{
    size_t v = 1;
    for (auto e : ext)
        if (__builtin_mul_overflow(v, e, &v))
            return (size_t)-1;
    return v;
}
inline uint64_t pow2_ceil(uint64_t v)
{
    uint64_t j = 1;
    while (j < v)
        j <<= 1;
    return j;
}
inline const LayerDesc &layout_layer(const StackDesc &d)
{
    return d.layers[d.layout_depth];
}
// number of cells the storage of a field with these extents must have
inline size_t storage_len(const StackDesc &d, const std::vector<size_t> &ext)
{
    if (d.shape == SHAPE_NONE)
        return 0;
    if (d.shape == SHAPE_BARE)
        return ext[0];
    LayerKind k = layout_layer(d).kind;
    if (k == LK_STRIDED)
        return volume(ext);
    size_t mx = 0;
    for (auto e : ext)
        mx = std::max(mx, e);
    uint64_t side = pow2_ceil(mx), n = 1;
    for (int i = 0; i < d.N; ++i)
        if (__builtin_mul_overflow(n, side, &n))
            return (size_t)-1;
    return n;
}

// ---------------------------------------------------------------- curves (published definitions)
// Element count of the array layer. The storage may legitimately be larger than the
// storage order needs (a field built from the full parameter pack, strided_cfg + array_cfg):
// the model keeps the count in the array layer's configuration.
inline size_t array_count(const StackDesc &d, const ModelField &m)
{
    size_t need = storage_len(d, m.ext);
    int al = d.depth - 1;
    if (al >= 0 && (d.layers[al].kind == LK_ARRAY || d.layers[al].kind == LK_CUDA) && al < (int)m.cfg.size() && m.cfg[al].size() == 8) {
        uint64_t n = 0;
        for (int i = 0; i < 8; ++i)
            n |= (uint64_t)m.cfg[al][i] << (8 * i);
        if (n > need && n <= need + 65536)
            return (size_t)n;
    }
    return need;
}

inline uint64_t pos_rowmajor(const std::vector<size_t> &ext, const size_t *c)
{
    uint64_t p = 0;
    for (size_t k = 0; k < ext.size(); ++k)
        p = p * ext[k] + c[k];
    return p;
}
// bit interleave, first coordinate in the least significant position
inline uint64_t pos_morton(int n, const size_t *c)
{
    uint64_t p = 0;
    int bits = 64 / n;
    for (int b = 0; b < bits; ++b)
        for (int k = 0; k < n; ++k)
            p |= (uint64_t)((c[k] >> b) & 1) << (b * n + k);
    return p;
}
// Hilbert xy -> d on a side x side square (side a power of two), the classic
// formulation with quadrant rotation/reflection
inline uint64_t pos_hilbert(uint64_t side, uint64_t x, uint64_t y)
{
    uint64_t d = 0;
    for (uint64_t s = side / 2; s > 0; s /= 2) {
        uint64_t rx = (x & s) ? 1 : 0, ry = (y & s) ? 1 : 0;
        d += s * s * ((3 * rx) ^ ry);
        if (ry == 0) {
            if (rx == 1) {
                x = s - 1 - (x & (s - 1));
                y = s - 1 - (y & (s - 1));
            } else {
                x &= (s - 1);
                y &= (s - 1);
            }
            std::swap(x, y);
        } else {
            x &= (s - 1);
            y &= (s - 1);
        }
    }
    return d;
}
inline uint64_t storage_pos(const StackDesc &d, const std::vector<size_t> &ext, const size_t *c)
{
    if (d.shape == SHAPE_BARE)
        return c[0];
    switch (layout_layer(d).kind) {
    case LK_STRIDED:
        return pos_rowmajor(ext, c);
    case LK_MORTON:
        return pos_morton(d.N, c);
    case LK_HILBERT: {
        size_t mx = std::max(ext[0], ext[1]);
        return pos_hilbert(pow2_ceil(mx), c[0], c[1]);
    }
    default:
        return 0;
    }
}
template <class Fn>
inline void for_lattice(const std::vector<size_t> &ext, Fn fn)
{
    size_t n = ext.size(), vol = volume(ext);
    std::vector<size_t> c(n, 0);
    for (size_t lin = 0; lin < vol; ++lin) {
        fn(lin, c.data());
        for (size_t k = n; k-- > 0;) {
            if (++c[k] < ext[k])
                break;
            c[k] = 0;
        }
    }
}

// ---------------------------------------------------------------- format model
constexpr uint32_t FM_MAGIC_HEADER = 0xC04F1EAB, FM_MAGIC_FOOTER = 0xC04F1E70, FM_FOOTER_ADD = 0x20000000;
constexpr uint32_t FM_TAG_FIELD = 0xAB000000;
inline uint32_t fm_tag(LayerKind k)
{
    switch (k) {
    case LK_ARRAY:
        return 0xAB010000;
    case LK_CONST:
        return 0xAB010001;
    case LK_IDENT:
        return 0xAB010002;
    case LK_CUDA:
        return 0xAB110000;
    case LK_AFFINE:
        return 0xAB020000;
    case LK_BACKUP:
        return 0xAB020001;
    case LK_CLAMP:
        return 0xAB020002;
    case LK_HILBERT:
        return 0xAB020004;
    case LK_MORTON:
        return 0xAB020006;
    case LK_STRIDED:
        return 0xAB020010;
    default:
        return 0; // no on-disk footprint
    }
}
inline bool fm_footprint(LayerKind k)
{
    return fm_tag(k) != 0;
}
// size of the configuration block a layer writes between its header and its inner layer
inline size_t fm_cfg_size(const LayerDesc &l)
{
    switch (l.kind) {
    case LK_AFFINE:
        return (size_t)l.in_dims * (l.in_dims + 1) * scal_size(l.in_scal);
    case LK_CLAMP:
        return 2 * (size_t)l.in_dims * scal_size(l.in_scal);
    case LK_BACKUP:
        return 2 * (size_t)l.in_dims * scal_size(l.in_scal) + (size_t)l.out_dims * scal_size(l.out_scal);
    case LK_STRIDED:
    case LK_MORTON:
    case LK_HILBERT:
        return 8 * (size_t)l.in_dims;
    case LK_CONST:
        return (size_t)l.out_dims * scal_size(l.out_scal);
    default:
        return 0;
    }
}
// canonical configuration size held in ModelField::cfg for a layer
inline size_t model_cfg_size(const LayerDesc &l)
{
    if (l.kind == LK_ARRAY || l.kind == LK_CUDA)
        return 8;
    return fm_cfg_size(l);
}

enum WordKind : int { W_MAGIC_H, W_TAG_H, W_MAGIC_F, W_TAG_F, W_WIDTH, W_COUNT };
struct Word {
    size_t off;
    WordKind kind;
    int layer; // -1 = field level
    uint32_t expect; // the value the grammar requires (W_COUNT: low 32 bits)
};
struct ParsedDump {
    std::vector<Word> words;
    std::vector<Bytes> cfg; // per layer (empty for footprint-free layers and the array)
    uint32_t width = 0;
    uint64_t count = 0;
    size_t data_off = 0, data_len = 0;
    size_t end = 0; // one past the last byte of the field
    std::string error;
};

inline void fm_put32(Bytes &b, uint32_t v)
{
    for (int i = 0; i < 4; ++i)
        b.push_back((uint8_t)(v >> (8 * i)));
}
inline void fm_put64(Bytes &b, uint64_t v)
{
    for (int i = 0; i < 8; ++i)
        b.push_back((uint8_t)(v >> (8 * i)));
}
inline uint32_t fm_get32(const Bytes &b, size_t off)
{
    uint32_t v = 0;
    for (int i = 0; i < 4; ++i)
        v |= (uint32_t)b[off + i] << (8 * i);
    return v;
}
inline uint64_t fm_get64(const Bytes &b, size_t off)
{
    uint64_t v = 0;
    for (int i = 0; i < 8; ++i)
        v |= (uint64_t)b[off + i] << (8 * i);
    return v;
}

// Predict the exact bytes of a dump from the model state. `care` (same length)
// is 0 for bytes the format leaves unspecified (padding cells of a curve).
inline void format_write(const StackDesc &d, const ModelField &m, Bytes &out, Bytes *care = nullptr)
{
    out.clear();
    std::vector<uint8_t> c;
    auto mark = [&](size_t n, uint8_t v) {
        if (care)
            care->insert(care->end(), n, v);
    };
    if (care)
        care->clear();
    fm_put32(out, FM_MAGIC_HEADER);
    fm_put32(out, FM_TAG_FIELD);
    mark(8, 1);
    for (int i = 0; i < d.depth; ++i) {
        const LayerDesc &l = d.layers[i];
        if (!fm_footprint(l.kind))
            continue;
        fm_put32(out, FM_MAGIC_HEADER);
        fm_put32(out, fm_tag(l.kind));
        mark(8, 1);
        if (l.kind == LK_ARRAY || l.kind == LK_CUDA) {
            uint32_t w = (uint32_t)scal_size(d.storage);
            size_t len = array_count(d, m);
            size_t used = storage_len(d, m.ext);
            fm_put32(out, w);
            fm_put64(out, len);
            mark(12, 1);
            size_t base = out.size();
            out.insert(out.end(), len * d.M * w, 0);
            if (care) {
                care->insert(care->end(), used * d.M * w, 0);
                care->insert(care->end(), (len - used) * d.M * w, 1); // spare elements are value-initialised and never written
            }
            for_lattice(m.ext, [&](size_t lin, const size_t *cc) {
                uint64_t p = storage_pos(d, m.ext, cc);
                for (int j = 0; j < d.M; ++j) {
                    uint64_t bits = m.vals[lin * d.M + j];
                    std::memcpy(&out[base + (p * d.M + j) * w], &bits, w);
                    if (care)
                        std::memset(&(*care)[base + (p * d.M + j) * w], 1, w);
                }
            });
        } else {
            out.insert(out.end(), m.cfg[i].begin(), m.cfg[i].end());
            mark(m.cfg[i].size(), 1);
        }
    }
    for (int i = d.depth - 1; i >= 0; --i) {
        const LayerDesc &l = d.layers[i];
        if (!fm_footprint(l.kind))
            continue;
        fm_put32(out, FM_MAGIC_FOOTER);
        fm_put32(out, fm_tag(l.kind) + FM_FOOTER_ADD);
        mark(8, 1);
    }
    fm_put32(out, FM_MAGIC_FOOTER);
    fm_put32(out, FM_TAG_FIELD + FM_FOOTER_ADD);
    mark(8, 1);
}

// Recursive-descent check of the nested header / payload / footer grammar for
// stack d, starting at `start`. Returns false with pd.error set on a violation.
inline bool format_parse(const StackDesc &d, const Bytes &b, size_t start, ParsedDump &pd)
{
    pd = ParsedDump();
    pd.cfg.resize(d.depth);
    size_t off = start;
    auto need = [&](size_t n, const char *what) {
        if (off + n > b.size()) {
            pd.error = std::string("truncated at ") + what;
            return false;
        }
        return true;
    };
    auto word = [&](WordKind k, int layer, uint32_t expect, const char *what) {
        if (!need(4, what))
            return false;
        pd.words.push_back(Word{off, k, layer, expect});
        if (fm_get32(b, off) != expect) {
            pd.error = std::string("unexpected ") + what;
            return false;
        }
        off += 4;
        return true;
    };
    if (!word(W_MAGIC_H, -1, FM_MAGIC_HEADER, "global magic") || !word(W_TAG_H, -1, FM_TAG_FIELD, "field tag"))
        return false;
    for (int i = 0; i < d.depth; ++i) {
        const LayerDesc &l = d.layers[i];
        if (!fm_footprint(l.kind))
            continue;
        if (!word(W_MAGIC_H, i, FM_MAGIC_HEADER, "layer magic") || !word(W_TAG_H, i, fm_tag(l.kind), "layer tag"))
            return false;
        if (l.kind == LK_ARRAY || l.kind == LK_CUDA) {
            if (!need(12, "array header"))
                return false;
            pd.width = fm_get32(b, off);
            pd.words.push_back(Word{off, W_WIDTH, i, pd.width});
            if (pd.width != 4 && pd.width != 8) {
                pd.error = "bad float width";
                return false;
            }
            off += 4;
            pd.count = fm_get64(b, off);
            pd.words.push_back(Word{off, W_COUNT, i, (uint32_t)pd.count});
            off += 8;
            if (pd.count > (uint64_t(1) << 32)) {
                pd.error = "absurd element count";
                return false;
            }
            pd.data_off = off;
            pd.data_len = (size_t)pd.count * d.M * pd.width;
            if (!need(pd.data_len, "array payload"))
                return false;
            off += pd.data_len;
        } else {
            size_t n = fm_cfg_size(l);
            if (!need(n, "configuration block"))
                return false;
            pd.cfg[i].assign(b.begin() + off, b.begin() + off + n);
            off += n;
        }
    }
    for (int i = d.depth - 1; i >= 0; --i) {
        const LayerDesc &l = d.layers[i];
        if (!fm_footprint(l.kind))
            continue;
        if (!word(W_MAGIC_F, i, FM_MAGIC_FOOTER, "layer footer magic") ||
            !word(W_TAG_F, i, fm_tag(l.kind) + FM_FOOTER_ADD, "layer footer tag"))
            return false;
    }
    if (!word(W_MAGIC_F, -1, FM_MAGIC_FOOTER, "global footer magic") ||
        !word(W_TAG_F, -1, FM_TAG_FIELD + FM_FOOTER_ADD, "field footer tag"))
        return false;
    pd.end = off;
    return true;
}

// Tag sequence + configuration block sizes + M: two stacks with the same
// signature are format-compatible (C07); with different ones a cross load must
// be rejected (C08).
inline std::string format_signature(const StackDesc &d)
{
    std::string s;
    char buf[64];
    for (int i = 0; i < d.depth; ++i) {
        const LayerDesc &l = d.layers[i];
        if (!fm_footprint(l.kind))
            continue;
        snprintf(buf, sizeof buf, "%08x:%zu/", fm_tag(l.kind), fm_cfg_size(l));
        s += buf;
    }
    snprintf(buf, sizeof buf, "M%d", d.M);
    return s + buf;
}

// ---------------------------------------------------------------- values
enum ValMode : int { VAL_ANY, VAL_FINITE, VAL_SMALLINT };

inline uint64_t f32_bits(float f)
{
    uint32_t u;
    std::memcpy(&u, &f, 4);
    return u;
}
inline uint64_t f64_bits(double f)
{
    uint64_t u;
    std::memcpy(&u, &f, 8);
    return u;
}
inline float bits_f32(uint64_t b)
{
    uint32_t u = (uint32_t)b;
    float f;
    std::memcpy(&f, &u, 4);
    return f;
}
inline double bits_f64(uint64_t b)
{
    double f;
    std::memcpy(&f, &b, 8);
    return f;
}

inline uint64_t gen_float_bits(Rng &r, Scal s, ValMode mode)
{
    if (!scal_is_float(s)) {
        // integer-valued layers (constant<In, intN>, identity<intN>): small values, extremes, raw bits
        uint64_t mask = scal_size(s) == 4 ? 0xFFFFFFFFull : ~0ull;
        switch (mode == VAL_SMALLINT ? 0 : r.below(4)) {
        case 0:
            return (uint64_t)(int64_t)r.range(-9, 9) & mask;
        case 1:
            return (uint64_t)(int64_t)r.range(-1000000, 1000000) & mask;
        case 2: {
            static const uint64_t tab[] = {0, 1, 0x7FFFFFFFull, 0x80000000ull, 0xFFFFFFFFull, 0x3F800000ull, 0x40400000ull, 0x7FC00000ull};
            return tab[r.below(8)] & mask;
        }
        default:
            return r.next() & mask;
        }
    }
    bool f32 = (s == SC_F32);
    if (mode == VAL_SMALLINT) {
        double v = (double)r.range(-9, 9);
        return f32 ? f32_bits((float)v) : f64_bits(v);
    }
    for (;;) {
        uint64_t bits;
        if (r.chance(0.02)) {
            // a value whose bit pattern is one of the format's own words (magic, tag, footer
            // tag): ordinary finite numbers, e.g. 0xC04F1E70 is the float -3.2362328
            static const uint32_t words[] = {FM_MAGIC_HEADER, FM_MAGIC_FOOTER, FM_TAG_FIELD, FM_TAG_FIELD + FM_FOOTER_ADD, 0xAB010000u, 0xAB010000u + FM_FOOTER_ADD,
                                             0xAB020010u, 0xAB020010u + FM_FOOTER_ADD, 0xAB020006u, 0xAB020004u, 0xAB020000u, 0xAB020002u};
            uint32_t w = words[r.below(12)];
            if (f32)
                bits = w;
            else if (r.chance(0.5))
                bits = ((uint64_t)(0x40090000u + (uint32_t)r.below(0x10000)) << 32) | w; // low word collides, about 3.1
            else
                bits = ((uint64_t)w << 32) | (r.next() & 0xFFFFFFFFull); // high word collides
            if (mode == VAL_FINITE) {
                double v = f32 ? (double)bits_f32(bits) : bits_f64(bits);
                if (!std::isfinite(v) || std::fabs(v) > 3.0e38)
                    continue;
            }
            return bits;
        }
        switch (r.below(mode == VAL_ANY ? 10 : 8)) {
        case 0:
        case 1:
        case 2: { // small integers and quarters
            double v = (double)r.range(-64, 64) / 4.0;
            bits = f32 ? f32_bits((float)v) : f64_bits(v);
            break;
        }
        case 3: { // uniform-ish finite
            double v = (r.unit() - 0.5) * std::ldexp(1.0, (int)r.range(-20, 20));
            bits = f32 ? f32_bits((float)v) : f64_bits(v);
            break;
        }
        case 4: { // needs rounding when narrowed, inside float range
            double v = (r.unit() - 0.5) * std::ldexp(1.0, (int)r.range(-100, 100));
            bits = f32 ? f32_bits((float)v) : f64_bits(v);
            break;
        }
        case 5: { // signed zeros, extremes of the normal range
            static const double tab[] = {0.0, -0.0, 1.17549435e-38, -1.17549435e-38, 3.40282347e+38, -3.40282347e+38, 1.0, -1.0};
            double v = tab[r.below(8)];
            bits = f32 ? f32_bits((float)v) : f64_bits(v);
            break;
        }
        case 6: { // subnormals of the type
            if (f32)
                bits = (r.below(2) << 31) | (1 + r.below(0x7FFFFF));
            else
                bits = (r.below(2) << 63) | (1 + r.below(0xFFFFFFFFFFFFFull));
            break;
        }
        case 7: { // float-subnormal magnitudes held in a double / tiny floats
            double v = (r.below(2) ? 1 : -1) * std::ldexp(1.0 + r.unit(), (int)r.range(-149, -127));
            bits = f32 ? f32_bits((float)v) : f64_bits(v);
            break;
        }
        case 8: // raw bits: NaN payloads, infinities, anything
            bits = f32 ? (r.next() & 0xFFFFFFFFull) : r.next();
            break;
        default: { // infinities and NaNs with payloads
            uint64_t sign = r.below(2), pay = r.below(4) == 0 ? 0 : r.next();
            if (f32)
                bits = (sign << 31) | 0x7F800000ull | (pay & 0x7FFFFF);
            else
                bits = (sign << 63) | 0x7FF0000000000000ull | (pay & 0xFFFFFFFFFFFFFull);
            break;
        }
        }
        if (mode == VAL_FINITE) {
            double v = f32 ? (double)bits_f32(bits) : bits_f64(bits);
            if (!std::isfinite(v) || std::fabs(v) > 3.0e38)
                continue;
        }
        return bits;
    }
}

// A stored 32-bit word that equals a magic or tag word could make a mis-sized
// read look well-formed (the format is not self-delimiting): C08 excludes them.
inline bool looks_like_format_word(uint32_t w)
{
    if (w == FM_MAGIC_HEADER || w == FM_MAGIC_FOOTER)
        return true;
    uint32_t hi = w & 0xDFFF0000u; // tag or tag + 0x20000000
    return hi == 0xAB000000u || hi == 0xAB010000u || hi == 0xAB020000u || hi == 0xAB110000u ||
           hi == 0xCB000000u || hi == 0xCB010000u || hi == 0xCB020000u || hi == 0xCB110000u;
}
inline bool bits_look_like_format_word(uint64_t bits, Scal s)
{
    if (looks_like_format_word((uint32_t)bits))
        return true;
    return s == SC_F64 && looks_like_format_word((uint32_t)(bits >> 32));
}

// ---------------------------------------------------------------- scalar boxes
inline void put_scal(Bytes &b, Scal s, double v)
{
    switch (s) {
    case SC_F32: {
        float f = (float)v;
        b.insert(b.end(), (uint8_t *)&f, (uint8_t *)&f + 4);
        break;
    }
    case SC_F64:
        b.insert(b.end(), (uint8_t *)&v, (uint8_t *)&v + 8);
        break;
    case SC_U64: {
        uint64_t u = (uint64_t)v;
        b.insert(b.end(), (uint8_t *)&u, (uint8_t *)&u + 8);
        break;
    }
    case SC_U32: {
        uint32_t u = (uint32_t)v;
        b.insert(b.end(), (uint8_t *)&u, (uint8_t *)&u + 4);
        break;
    }
    case SC_I32: {
        int32_t u = (int32_t)v;
        b.insert(b.end(), (uint8_t *)&u, (uint8_t *)&u + 4);
        break;
    }
    default:
        break;
    }
}
inline double get_scal(const uint8_t *p, Scal s)
{
    switch (s) {
    case SC_F32: {
        float f;
        std::memcpy(&f, p, 4);
        return f;
    }
    case SC_F64: {
        double f;
        std::memcpy(&f, p, 8);
        return f;
    }
    case SC_U64: {
        uint64_t u;
        std::memcpy(&u, p, 8);
        return (double)u;
    }
    case SC_U32: {
        uint32_t u;
        std::memcpy(&u, p, 4);
        return (double)u;
    }
    case SC_I32: {
        int32_t u;
        std::memcpy(&u, p, 4);
        return (double)u;
    }
    default:
        return 0;
    }
}
inline void put_bits(Bytes &b, Scal s, uint64_t bits)
{
    b.insert(b.end(), (uint8_t *)&bits, (uint8_t *)&bits + scal_size(s));
}

// ---------------------------------------------------------------- configuration generation
// nice = true: configurations under which lookups have a large, exactly
// computable domain (boxes inside the inner domain, transforms that are
// permutation x power-of-two scale + dyadic shift). nice = false: arbitrary
// values (the configuration is only stored, copied and serialised).
inline void gen_cfgs(const StackDesc &d, const std::vector<size_t> &ext, Rng &r, bool nice, ValMode vm, ModelField &m, size_t slack = 0)
{
    m.stack = d.index;
    m.ext = ext;
    m.cfg.assign(d.depth, Bytes());
    for (int i = 0; i < d.depth; ++i) {
        const LayerDesc &l = d.layers[i];
        Bytes &b = m.cfg[i];
        // extents as seen by this layer's input axes (shuffles below reorder them)
        std::vector<double> hi(l.in_dims, 0);
        {
            std::vector<size_t> e = ext;
            // apply shuffles between this layer and the layout, inner-most first
            for (int j = d.layout_depth - 1; j > i && j >= 0; --j)
                if (d.layers[j].kind == LK_SHUFFLE) {
                    std::vector<size_t> t(e.size());
                    for (size_t k = 0; k < e.size(); ++k)
                        t[d.layers[j].perm[k]] = e[k];
                    e = t;
                }
            for (int k = 0; k < l.in_dims && k < (int)e.size(); ++k)
                hi[k] = (double)e[k] - 1;
        }
        bool real = scal_is_float(l.in_scal);
        // is there a linear interpolator directly beneath (its domain excludes the upper edge)?
        bool above_linear = false;
        for (int j = i + 1; j < d.depth; ++j) {
            if (d.layers[j].kind == LK_LINEAR) {
                above_linear = true;
                break;
            }
            if (d.layers[j].kind == LK_NN || d.layers[j].kind == LK_STRIDED || d.layers[j].kind == LK_MORTON ||
                d.layers[j].kind == LK_HILBERT)
                break;
        }
        switch (l.kind) {
        case LK_ARRAY:
        case LK_CUDA:
            put_scal(b, SC_U64, (double)(storage_len(d, ext) + (d.shape == SHAPE_LAYOUT ? slack : 0)));
            break;
        case LK_STRIDED:
        case LK_MORTON:
        case LK_HILBERT:
            for (int k = 0; k < l.in_dims; ++k)
                put_scal(b, SC_U64, (double)ext[k]);
            break;
        case LK_CONST:
            for (int k = 0; k < l.out_dims; ++k)
                put_bits(b, l.out_scal, gen_float_bits(r, l.out_scal, vm));
            break;
        case LK_AFFINE: {
            int n = l.in_dims;
            if (!nice && r.chance(0.5)) {
                for (int k = 0; k < n * (n + 1); ++k)
                    put_bits(b, l.in_scal, gen_float_bits(r, l.in_scal, vm));
                break;
            }
            std::vector<int> p(n);
            for (int k = 0; k < n; ++k)
                p[k] = k;
            if (r.chance(0.4))
                for (int k = n - 1; k > 0; --k)
                    std::swap(p[k], p[r.below(k + 1)]);
            static const double sc[] = {1, 1, 1, 2, 0.5, 0.25, 4};
            for (int row = 0; row < n; ++row) {
                double s = sc[r.below(7)];
                for (int col = 0; col < n; ++col)
                    put_scal(b, l.in_scal, col == p[row] ? s : 0.0);
                put_scal(b, l.in_scal, r.chance(0.5) ? 0.0 : (double)r.range(-16, 16) / 4.0);
            }
            break;
        }
        case LK_CLAMP:
        case LK_BACKUP: {
            std::vector<double> lo(l.in_dims), up(l.in_dims);
            for (int k = 0; k < l.in_dims; ++k) {
                double top = hi[k];
                if (real && above_linear)
                    top = hi[k] - 0.125; // strictly inside the last cell
                if (!nice && r.chance(0.3)) {
                    lo[k] = (double)r.range(0, 5);
                    up[k] = lo[k] + (double)r.range(0, 9);
                } else if (top < 0) {
                    lo[k] = up[k] = 0; // degenerate axis: no lookup will be in-domain
                } else if (real) {
                    double a = std::floor(r.unit() * (top + 1) * 4) / 4, c = std::floor(r.unit() * (top + 1) * 4) / 4;
                    if (r.chance(0.5)) {
                        a = 0;
                        c = top;
                    }
                    lo[k] = std::min(std::min(a, c), top);
                    up[k] = std::min(std::max(a, c), top);
                } else {
                    double a = (double)r.below((uint64_t)top + 1), c = (double)r.below((uint64_t)top + 1);
                    if (r.chance(0.5)) {
                        a = 0;
                        c = top;
                    }
                    lo[k] = std::min(a, c);
                    up[k] = std::max(a, c);
                }
            }
            for (int k = 0; k < l.in_dims; ++k)
                put_scal(b, l.in_scal, lo[k]);
            for (int k = 0; k < l.in_dims; ++k)
                put_scal(b, l.in_scal, up[k]);
            if (l.kind == LK_BACKUP)
                for (int k = 0; k < l.out_dims; ++k)
                    put_bits(b, l.out_scal, gen_float_bits(r, l.out_scal, vm));
            break;
        }
        default:
            break;
        }
    }
}

inline void gen_values(const StackDesc &d, Rng &r, ValMode vm, bool avoid_format_words, ModelField &m)
{
    m.vals.clear();
    if (d.shape == SHAPE_NONE)
        return;
    size_t n = volume(m.ext) * d.M;
    m.vals.resize(n);
    for (size_t i = 0; i < n; ++i) {
        uint64_t b;
        do {
            b = gen_float_bits(r, d.storage, vm);
        } while (avoid_format_words && bits_look_like_format_word(b, d.storage));
        m.vals[i] = b;
    }
}

// ---------------------------------------------------------------- lookup domain (coordinate-chain interpreter)
// Evaluates, in each layer's own precision, the coordinate every layer hands to
// the layer beneath, and checks each layer's documented domain. Returns true
// iff x is inside the documented domain of the whole stack. Only coordinates,
// never values: what a lookup returns is not judged here.
struct ChainResult {
    bool in_domain = false;
    bool exact = true; // every floating step was exact (so rounding order cannot matter)
    bool defaulted = false; // an out-of-range default layer answered
    std::vector<double> cell; // lattice coordinate the chain finally asks the storage for (no interpolator in the way)
    // a linear interpolator in the chain: the lattice cells of the 2^n corners it blends
    // (corners[0] is the lower one) and whether the coordinate it receives is a node (all
    // fractional parts zero: weight 1 on corners[0], weight 0 on the others)
    bool node = false;
    Scal linear_scal = SC_NONE;
    std::vector<std::vector<double>> corners;
};
inline double round_to(Scal s, double v)
{
    return s == SC_F32 ? (double)(float)v : v;
}
inline ChainResult chain_domain(const StackDesc &d, const ModelField &m, const double *x_in)
{
    ChainResult res;
    std::vector<double> x(x_in, x_in + d.layers[0].in_dims);
    for (int k = 0; k < (int)x.size(); ++k) {
        if (std::isnan(x[k]) || std::isinf(x[k]))
            return res;
        // the coordinate must be representable in the top layer's scalar type
        Scal s = d.layers[0].in_scal;
        if (round_to(s, x[k]) != x[k] && scal_is_float(s))
            return res;
        if (!scal_is_float(s) && (x[k] != std::floor(x[k]) || x[k] < (s == SC_I32 ? -2147483648.0 : 0.0) || x[k] > 2147483647.0))
            return res;
    }
    std::vector<size_t> ext = m.ext;
    for (int i = 0; i < d.depth; ++i) {
        const LayerDesc &l = d.layers[i];
        const uint8_t *cfg = m.cfg[i].data();
        size_t ss = scal_size(l.in_scal);
        switch (l.kind) {
        case LK_AFFINE: {
            int n = l.in_dims;
            std::vector<double> y(n);
            for (int row = 0; row < n; ++row) {
                long double acc = 0;
                double accp = 0; // in the layer's precision, in the library's order
                for (int col = 0; col <= n; ++col) {
                    double a = get_scal(cfg + (row * (n + 1) + col) * ss, l.in_scal);
                    double v = col == n ? 1.0 : x[col];
                    acc += (long double)a * v;
                    accp = round_to(l.in_scal, accp + round_to(l.in_scal, a * v));
                }
                if ((long double)accp != acc)
                    res.exact = false;
                y[row] = accp;
                if (std::isnan(accp) || std::isinf(accp))
                    return res;
            }
            x = y;
            break;
        }
        case LK_CLAMP: {
            for (int k = 0; k < l.in_dims; ++k) {
                double lo = get_scal(cfg + k * ss, l.in_scal), hi = get_scal(cfg + (l.in_dims + k) * ss, l.in_scal);
                if (!(lo <= hi))
                    return res; // std::clamp requires lo <= hi
                x[k] = x[k] < lo ? lo : (x[k] > hi ? hi : x[k]);
            }
            break;
        }
        case LK_BACKUP: {
            for (int k = 0; k < l.in_dims; ++k) {
                double lo = get_scal(cfg + k * ss, l.in_scal), hi = get_scal(cfg + (l.in_dims + k) * ss, l.in_scal);
                if (std::isnan(lo) || std::isnan(hi))
                    return res;
                if (x[k] < lo || x[k] > hi) {
                    res.defaulted = true;
                    res.in_domain = true;
                    return res;
                }
            }
            break;
        }
        case LK_SHUFFLE: {
            std::vector<double> y(l.in_dims);
            for (int k = 0; k < l.in_dims; ++k)
                y[k] = x[l.perm[k]];
            x = y;
            break;
        }
        case LK_NN: {
            // documented domain: (-0.5, extent - 0.5) per axis of what lies beneath;
            // beneath an integer-level clamp/default layer any value whose nearest
            // integer is representable would do, but we stay inside +-2^20.
            for (int k = 0; k < l.in_dims; ++k) {
                if (std::fabs(x[k]) > 1048576.0)
                    return res;
                double f = std::floor(x[k]);
                double frac = x[k] - f;
                if (frac == 0.5)
                    return res; // tie: either neighbour is legal, the model cannot predict which
                double c = frac < 0.5 ? f : f + 1;
                if (c < 0 && d.layers[i + 1].in_scal != SC_I32)
                    return res; // negative index into an unsigned coordinate
                x[k] = c;
            }
            break;
        }
        case LK_LINEAR: {
            // 0 <= x_k < extent_k - 1 (any x_k >= 0 over a clamp): both neighbours
            // floor(x_k) and floor(x_k)+1 must be valid for what lies beneath
            for (int k = 0; k < l.in_dims; ++k) {
                if (x[k] < 0 || x[k] > 1048576.0)
                    return res;
            }
            // check both extreme corners through the rest of the chain
            ModelField sub = m;
            ChainResult a, b2;
            {
                std::vector<double> lo(l.in_dims), hi(l.in_dims);
                for (int k = 0; k < l.in_dims; ++k) {
                    lo[k] = std::floor(x[k]);
                    hi[k] = lo[k] + 1;
                }
                // evaluate the remaining layers for the two corners
                StackDesc rest = d;
                rest.depth = d.depth - (i + 1);
                for (int j = 0; j < rest.depth; ++j)
                    rest.layers[j] = d.layers[i + 1 + j];
                rest.layout_depth = d.layout_depth - (i + 1);
                ModelField mr;
                mr.ext = m.ext;
                mr.cfg.assign(m.cfg.begin() + i + 1, m.cfg.end());
                a = chain_domain(rest, mr, lo.data());
                b2 = chain_domain(rest, mr, hi.data());
                // intermediate corners are inside the box spanned by these two for the
                // monotone layers that may lie beneath (clamp, default, shuffle, layout)
            }
            res.in_domain = a.in_domain && b2.in_domain && !a.defaulted && !b2.defaulted;
            if ((a.defaulted || b2.defaulted) && a.in_domain && b2.in_domain)
                res.in_domain = true; // a default layer beneath answers for out-of-box corners
            if (res.in_domain && !a.defaulted && !b2.defaulted && l.in_dims <= 4) {
                // every corner's lattice cell, for the value oracle at interpolation nodes
                StackDesc rest = d;
                rest.depth = d.depth - (i + 1);
                for (int j = 0; j < rest.depth; ++j)
                    rest.layers[j] = d.layers[i + 1 + j];
                rest.layout_depth = d.layout_depth - (i + 1);
                ModelField mr;
                mr.ext = m.ext;
                mr.cfg.assign(m.cfg.begin() + i + 1, m.cfg.end());
                bool all = true, node = true;
                for (int k = 0; k < l.in_dims; ++k)
                    if (x[k] != std::floor(x[k]))
                        node = false;
                std::vector<std::vector<double>> cs;
                for (int n = 0; n < (1 << l.in_dims) && all; ++n) {
                    std::vector<double> c(l.in_dims);
                    for (int k = 0; k < l.in_dims; ++k)
                        c[k] = std::floor(x[k]) + ((n >> k) & 1);
                    ChainResult cr = chain_domain(rest, mr, c.data());
                    if (!cr.in_domain || cr.defaulted || (int)cr.cell.size() != d.N)
                        all = false;
                    else
                        cs.push_back(cr.cell);
                }
                if (all) {
                    res.corners = cs;
                    res.node = node;
                    res.linear_scal = l.in_scal;
                }
            }
            return res;
        }
        case LK_STRIDED:
        case LK_MORTON:
        case LK_HILBERT: {
            for (int k = 0; k < l.in_dims; ++k)
                if (!(x[k] >= 0 && x[k] < (double)ext[k]))
                    return res;
            res.in_domain = true;
            res.cell = x;
            return res;
        }
        case LK_ARRAY:
        case LK_CUDA: {
            res.in_domain = x[0] >= 0 && x[0] < (double)(m.ext.empty() ? 0 : m.ext[0]);
            return res;
        }
        case LK_CONST:
        case LK_IDENT:
            res.in_domain = true;
            return res;
        case LK_CAST:
        case LK_DEREF:
            break;
        }
    }
    return res;
}

// --- lookup coordinate sampling (bottom-up construction, validated by chain_domain)
inline bool sample_lookup(const StackDesc &d, const ModelField &m, Rng &r, std::vector<double> &x, const size_t *fixed_cell = nullptr)
{
    int top_n = d.layers[0].in_dims;
    x.assign(top_n, 0);
    int start;
    std::vector<double> cur;
    if (d.shape == SHAPE_NONE) {
        // constant / identity at the bottom: any moderate coordinate
        int bottom = d.depth - 1;
        cur.assign(d.layers[bottom].in_dims, 0);
        for (auto &v : cur)
            v = (double)r.range(-32, 32) / 4.0;
        start = bottom - 1;
    } else {
        if (volume(m.ext) == 0)
            return false;
        cur.resize(d.N);
        for (int k = 0; k < d.N; ++k) {
            size_t e = m.ext[k];
            cur[k] = r.chance(0.3) ? (r.chance(0.5) ? 0 : (double)(e - 1)) : (double)r.below(e);
            if (fixed_cell)
                cur[k] = (double)fixed_cell[k];
        }
        start = d.layout_depth - 1;
    }
    for (int i = start; i >= 0; --i) {
        const LayerDesc &l = d.layers[i];
        const uint8_t *cfg = m.cfg[i].data();
        size_t ss = scal_size(l.in_scal);
        switch (l.kind) {
        case LK_SHUFFLE: {
            std::vector<double> y(l.in_dims);
            for (int k = 0; k < l.in_dims; ++k)
                y[l.perm[k]] = cur[k];
            cur = y;
            break;
        }
        case LK_CLAMP:
        case LK_BACKUP:
            for (int k = 0; k < l.in_dims; ++k)
                if (!fixed_cell && r.chance(0.25)) {
                    double delta = (double)r.range(1, 3) * (r.chance(0.5) ? 1 : -1);
                    if (scal_is_float(l.in_scal))
                        delta *= 0.75;
                    cur[k] += delta;
                    if (cur[k] < 0 && (l.in_scal == SC_U64 || l.in_scal == SC_U32))
                        cur[k] = 0;
                }
            break;
        case LK_NN:
            for (int k = 0; k < l.in_dims; ++k) {
                double c = cur[k], v;
                switch (fixed_cell ? 0 : r.below(6)) {
                case 0:
                    v = c;
                    break;
                case 1:
                    v = c + 0.25;
                    break;
                case 2:
                    v = c - 0.25;
                    break;
                case 3: // one ulp inside the upper half-integer, in the coordinate precision
                    v = l.in_scal == SC_F32 ? (double)std::nextafterf((float)(c + 0.5), (float)c) : std::nextafter(c + 0.5, c);
                    break;
                case 4:
                    v = l.in_scal == SC_F32 ? (double)std::nextafterf((float)(c - 0.5), (float)c) : std::nextafter(c - 0.5, c);
                    break;
                default:
                    v = c + (r.unit() - 0.5) * 0.98;
                    v = round_to(l.in_scal, v);
                    break;
                }
                cur[k] = v;
            }
            break;
        case LK_LINEAR: {
            bool at_node = r.chance(0.12); // all fractional parts zero: the value oracle applies
            for (int k = 0; k < l.in_dims; ++k) {
                static const double fr[] = {0, 0, 0.25, 0.5, 0.75, 0.9990234375, 0.125};
                double f = fr[r.below(7)];
                if (r.chance(0.15))
                    f = l.in_scal == SC_F32 ? (double)std::nextafterf(1.0f, 0.0f) : std::nextafter(1.0, 0.0);
                if (at_node)
                    f = 0;
                double c = cur[k];
                // stay in a cell that has an upper neighbour when possible
                if (r.chance(0.85) && c >= 1 && r.chance(0.5) && !fixed_cell)
                    c -= 1;
                if (fixed_cell)
                    f = 0; // aimed at a given cell: the node itself
                cur[k] = round_to(l.in_scal, c + f);
            }
            break;
        }
        case LK_AFFINE: {
            int n = l.in_dims;
            // solve A x + t = cur by Gaussian elimination in double
            std::vector<std::vector<double>> a(n, std::vector<double>(n + 1));
            for (int row = 0; row < n; ++row) {
                for (int col = 0; col < n; ++col)
                    a[row][col] = get_scal(cfg + (row * (n + 1) + col) * ss, l.in_scal);
                a[row][n] = cur[row] - get_scal(cfg + (row * (n + 1) + n) * ss, l.in_scal);
            }
            for (int col = 0; col < n; ++col) {
                int piv = -1;
                for (int row = col; row < n; ++row)
                    if (a[row][col] != 0 && std::isfinite(a[row][col])) {
                        piv = row;
                        break;
                    }
                if (piv < 0)
                    return false;
                std::swap(a[piv], a[col]);
                for (int row = 0; row < n; ++row)
                    if (row != col) {
                        double f = a[row][col] / a[col][col];
                        for (int k2 = col; k2 <= n; ++k2)
                            a[row][k2] -= f * a[col][k2];
                    }
            }
            std::vector<double> y(n);
            for (int k = 0; k < n; ++k)
                y[k] = round_to(l.in_scal, a[k][n] / a[k][k]);
            cur = y;
            break;
        }
        default:
            break;
        }
    }
    if ((int)cur.size() != top_n)
        return false;
    x = cur;
    return true;
}


// ---------------------------------------------------------------- value oracle at interpolation nodes
// Linear interpolation reproduces the lattice value at a node: the weights are exactly 1 and
// 0, 0 * finite = 0 and v + 0 = v in IEEE arithmetic, subnormal v included. Judged only if all
// blended corners hold finite values and the interpolator does not compute in a narrower type
// than the stored one. want[j] = stored bits of component j at the node. (The sign of a zero
// result is not judged: -0 + +0 = +0.)
inline bool linear_node_expectation(const StackDesc &d, const ModelField &m, const ChainResult &cr, uint64_t *want)
{
    if (!cr.node || cr.corners.empty() || d.shape == SHAPE_NONE)
        return false;
    if (cr.linear_scal == SC_F32 && d.storage == SC_F64)
        return false;
    size_t lin0 = 0;
    for (size_t n = 0; n < cr.corners.size(); ++n) {
        size_t lin = 0;
        for (int k = 0; k < d.N; ++k) {
            if (cr.corners[n][k] < 0 || cr.corners[n][k] >= (double)m.ext[k])
                return false;
            lin = lin * m.ext[k] + (size_t)cr.corners[n][k];
        }
        if ((lin + 1) * (size_t)d.M > m.vals.size())
            return false;
        for (int j = 0; j < d.M; ++j) {
            uint64_t b = m.vals[lin * d.M + j];
            double v = d.storage == SC_F32 ? (double)bits_f32(b) : bits_f64(b);
            if (!std::isfinite(v))
                return false;
        }
        if (n == 0)
            lin0 = lin;
    }
    for (int j = 0; j < d.M; ++j)
        want[j] = m.vals[lin0 * d.M + j];
    return true;
}
// does a looked-up component (bits in the view's output scalar type) equal the stored one?
inline bool same_value_modulo_zero_sign(uint64_t got, Scal got_scal, uint64_t want, Scal want_scal, bool &judged)
{
    judged = true;
    double g = got_scal == SC_F32 ? (double)bits_f32(got) : bits_f64(got);
    double w = want_scal == SC_F32 ? (double)bits_f32(want) : bits_f64(want);
    if (got_scal == SC_F32 && want_scal == SC_F64) {
        judged = false; // a narrowing cast on the way out
        return true;
    }
    if (g == 0 && w == 0)
        return true;
    return g == w && !std::isnan(g);
}

// ---------------------------------------------------------------- narrowing oracle (C07)
// The float nearest to d, ties to even, by comparing distances to the
// neighbouring floats in extended precision (not by trusting one cast).
inline float nearest_float(double d)
{
    float f0 = (float)d;
    float cand[3] = {std::nextafterf(f0, -INFINITY), f0, std::nextafterf(f0, INFINITY)};
    int best = -1;
    long double bd = 0;
    for (int i = 0; i < 3; ++i) {
        if (std::isinf(cand[i]))
            continue;
        long double dist = fabsl((long double)cand[i] - (long double)d);
        uint32_t u;
        std::memcpy(&u, &cand[i], 4);
        if (best < 0 || dist < bd) {
            best = i;
            bd = dist;
        } else if (dist == bd) {
            uint32_t ub;
            std::memcpy(&ub, &cand[best], 4);
            if ((u & 1) == 0 && (ub & 1) != 0)
                best = i;
        }
    }
    return cand[best];
}

}
