// Adapter templates: instantiate the public covfie API for one stack and
// register type-erased entry points. Included by the generated per-stack TUs.
// Library calls that can allocate run inside a SimAlloc SUT scope; the
// adapter's own bookkeeping does not.
#pragma once
#include <cmath>
#include <cstring>
#include <istream>
#include <ostream>
#include <tuple>
#include <type_traits>
#include <utility>
#include <variant>

#include <covfie/core/algebra/affine.hpp>
#include <covfie/core/backend/primitive/array.hpp>
#include <covfie/core/backend/primitive/constant.hpp>
#include <covfie/core/backend/primitive/identity.hpp>
#include <covfie/core/backend/transformer/affine.hpp>
#include <covfie/core/backend/transformer/backup.hpp>
#include <covfie/core/backend/transformer/clamp.hpp>
#include <covfie/core/backend/transformer/covariant_cast.hpp>
#include <covfie/core/backend/transformer/dereference.hpp>
#include <covfie/core/backend/transformer/hilbert.hpp>
#include <covfie/core/backend/transformer/linear.hpp>
#include <covfie/core/backend/transformer/morton.hpp>
#include <covfie/core/backend/transformer/nearest_neighbour.hpp>
#include <covfie/core/backend/transformer/shuffle.hpp>
#include <covfie/core/backend/transformer/strided.hpp>
#include <covfie/core/field.hpp>
#include <covfie/core/field_view.hpp>
#include <covfie/core/parameter_pack.hpp>
#ifdef SIM_WITH_CUDA
#include <covfie/cuda/backend/primitive/cuda_device_array.hpp>
#endif

#include "../seams/sim_alloc.hpp"
#include "slot_ops.hpp"

namespace ad {

using sim::Bytes;
using sim::ModelField;
using Sut = sim::alloc::Sut;

// ---------------------------------------------------------------- scalars
template <class T>
inline uint64_t to_bits(T v)
{
    uint64_t b = 0;
    static_assert(sizeof(T) <= 8);
    std::memcpy(&b, &v, sizeof(T));
    return b;
}
template <class T>
inline T from_bits(uint64_t b)
{
    T v;
    std::memcpy(&v, &b, sizeof(T));
    return v;
}
template <class T>
inline void put_scalar(Bytes &b, T v)
{
    const uint8_t *p = reinterpret_cast<const uint8_t *>(&v);
    b.insert(b.end(), p, p + sizeof(T));
}
template <class T>
inline T get_scalar(const uint8_t *&p)
{
    T v;
    std::memcpy(&v, p, sizeof(T));
    p += sizeof(T);
    return v;
}

// ---------------------------------------------------------------- configuration <-> canonical bytes
inline void put_cfg(Bytes &, const std::monostate &)
{
}
template <class T, std::size_t N>
inline void put_cfg(Bytes &b, const covfie::array::array<T, N> &a)
{
    for (std::size_t i = 0; i < N; ++i)
        put_scalar<T>(b, a[i]);
}
template <std::size_t N, class T, class I>
inline void put_cfg(Bytes &b, const covfie::algebra::affine<N, T, I> &m)
{
    for (I i = 0; i < N; ++i)
        for (I j = 0; j < N + 1; ++j)
            put_scalar<T>(b, m(i, j));
}
template <class C>
requires requires(C c)
{
    c.min;
    c.max;
    c.default_value;
}
inline void put_cfg(Bytes &b, const C &c)
{
    put_cfg(b, c.min);
    put_cfg(b, c.max);
    put_cfg(b, c.default_value);
}
template <class C>
requires(requires(C c) {
    c.min;
    c.max;
} && !requires(C c) { c.default_value; }) inline void put_cfg(Bytes &b, const C &c)
{
    put_cfg(b, c.min);
    put_cfg(b, c.max);
}

template <class C>
struct cfg_reader;
template <>
struct cfg_reader<std::monostate> {
    static std::monostate get(const uint8_t *&)
    {
        return {};
    }
};
template <class T, std::size_t N>
struct cfg_reader<covfie::array::array<T, N>> {
    // every way the class can be initialised is used: default construction and assignment,
    // the N-value list, a C array, and - when all components are equal - the broadcast
    // form with braces, array<T, N>{v}
    using A = covfie::array::array<T, N>;
    template <std::size_t... I>
    static A from_list(const T *v, std::index_sequence<I...>)
    {
        return A{v[I]...};
    }
    static A get(const uint8_t *&p)
    {
        T v[N];
        unsigned h = 0;
        bool same = true;
        for (std::size_t i = 0; i < N; ++i) {
            h = h * 31u + p[0];
            v[i] = get_scalar<T>(p);
            if (std::memcmp(&v[i], &v[0], sizeof(T)) != 0)
                same = false;
        }
        if constexpr (N > 1) {
            if (same) {
                A a{v[0]};
                return a;
            }
            if (h % 3 == 1)
                return from_list(v, std::make_index_sequence<N>{});
            if (h % 3 == 2) {
                A a(v);
                return a;
            }
        }
        A a;
        for (std::size_t i = 0; i < N; ++i)
            a[i] = v[i];
        return a;
    }
};
template <std::size_t N, class T, class I>
struct cfg_reader<covfie::algebra::affine<N, T, I>> {
    static covfie::algebra::affine<N, T, I> get(const uint8_t *&p)
    {
        covfie::algebra::matrix<N, N + 1, T, I> m;
        bool plain = true; // finite, no negative zero: then translation * linear part reproduces m bit for bit
        unsigned h = 0;
        for (I i = 0; i < N; ++i)
            for (I j = 0; j < N + 1; ++j) {
                h = h * 31u + p[0] + p[sizeof(T) - 1];
                m(i, j) = get_scalar<T>(p);
                if (!(m(i, j) - m(i, j) == 0) || (m(i, j) == 0 && std::signbit(m(i, j))))
                    plain = false;
            }
        if (plain && (h & 1)) {
            // the way transforms are usually written down: composed from a translation and a
            // linear part with affine * affine
            covfie::algebra::matrix<N, N + 1, T, I> tm = covfie::algebra::matrix<N, N + 1, T, I>::identity(), lm;
            for (I i = 0; i < N; ++i) {
                tm(i, N) = m(i, N);
                for (I j = 0; j < N; ++j)
                    lm(i, j) = m(i, j);
                lm(i, N) = static_cast<T>(0);
            }
            covfie::algebra::affine<N, T, I> t(tm), l(lm);
            return t * l;
        }
        return covfie::algebra::affine<N, T, I>(m);
    }
};
template <class C>
requires requires(C c)
{
    c.min;
    c.max;
}
struct cfg_reader<C> {
    static C get(const uint8_t *&p)
    {
        C c;
        c.min = cfg_reader<std::decay_t<decltype(c.min)>>::get(p);
        c.max = cfg_reader<std::decay_t<decltype(c.max)>>::get(p);
        if constexpr (requires { c.default_value; })
            c.default_value = cfg_reader<std::decay_t<decltype(c.default_value)>>::get(p);
        return c;
    }
};

template <class B>
void read_cfgs(const typename B::owning_data_t &o, std::vector<Bytes> &out)
{
    Bytes b;
    put_cfg(b, o.get_configuration());
    out.push_back(std::move(b));
    if constexpr (!B::is_initial)
        read_cfgs<typename B::backend_t>(o.get_backend(), out);
}

template <class B>
auto cfg_tuple(const ModelField &m, std::size_t i)
{
    const uint8_t *p = m.cfg[i].data();
    auto c = cfg_reader<typename B::configuration_t>::get(p);
    if constexpr (B::is_initial)
        return std::make_tuple(std::move(c));
    else
        return std::tuple_cat(std::make_tuple(std::move(c)), cfg_tuple<typename B::backend_t>(m, i + 1));
}

// ---------------------------------------------------------------- descent to the storage-order layer
template <class B, int K>
struct nth_layer {
    using type = typename nth_layer<typename B::backend_t, K - 1>::type;
};
template <class B>
struct nth_layer<B, 0> {
    using type = B;
};
template <int K, class O>
const auto &descend(const O &o)
{
    if constexpr (K == 0)
        return o;
    else
        return descend<K - 1>(o.get_backend());
}

template <class V>
inline V make_coord(const std::size_t *c)
{
    if constexpr (std::is_arithmetic_v<V>) {
        return static_cast<V>(c[0]);
    } else {
        V v;
        for (std::size_t i = 0; i < V::dimensions; ++i)
            v[i] = static_cast<typename V::value_type>(c[i]);
        return v;
    }
}
template <class V>
inline V make_real_coord(const double *x)
{
    if constexpr (std::is_arithmetic_v<V>) {
        return static_cast<V>(x[0]);
    } else {
        V v;
        for (std::size_t i = 0; i < V::dimensions; ++i)
            v[i] = static_cast<typename V::value_type>(x[i]);
        return v;
    }
}

// field_view offers two lookup forms: at(coordinate_t) and at(scalar, scalar, ...) - the
// second is the one every test, example and benchmark uses. Both are exercised.
template <class V, class C, std::size_t... I>
inline decltype(auto) at_scalars_impl(const V &v, const C &c, std::index_sequence<I...>)
{
    return v.at(c[I]...);
}
template <class C>
constexpr std::size_t coord_dims()
{
    if constexpr (std::is_arithmetic_v<C>)
        return 0;
    else
        return C::dimensions;
}
template <class V, class C>
concept has_scalar_at = (!std::is_arithmetic_v<C>) && requires(const V &v, const C &c) {
    at_scalars_impl(v, c, std::make_index_sequence<coord_dims<C>()>{});
};
template <class V, class C>
inline decltype(auto) at_scalars(const V &v, const C &c)
{
    return at_scalars_impl(v, c, std::make_index_sequence<coord_dims<C>()>{});
}
// at(...) in one of the two forms; `scalars` is ignored where the view has only one
template <class V, class C>
inline decltype(auto) at_either(const V &v, const C &c, bool scalars)
{
    if constexpr (has_scalar_at<V, C>) {
        if (scalars)
            return at_scalars(v, c);
    }
    return v.at(c);
}

// Only the row-major layer can be built from its extents alone (it then sizes the array
// itself); the Morton and Hilbert layers offer no such constructor.
template <class T>
struct is_strided : std::false_type {
};
template <class V, class S>
struct is_strided<covfie::backend::strided<V, S>> : std::true_type {
};

// Tr: { using B; static constexpr int index, layout_depth, shape, N, M; static constexpr bool view_writable; }
template <class Tr>
struct Core {
    using B = typename Tr::B;
    using F = covfie::field<B>;

    template <class Fn>
    static void for_lattice(const std::vector<std::size_t> &ext, Fn fn)
    {
        std::size_t n = ext.size();
        std::size_t vol = 1;
        for (auto e : ext)
            vol *= e;
        std::vector<std::size_t> c(n, 0);
        for (std::size_t lin = 0; lin < vol; ++lin) {
            fn(lin, c.data());
            for (std::size_t k = n; k-- > 0;) {
                if (++c[k] < ext[k])
                    break;
                c[k] = 0;
            }
        }
    }

    static auto storage_view(const F &f)
    {
        using L = typename nth_layer<B, Tr::layout_depth>::type;
        const auto &o = descend<Tr::layout_depth>(f.backend());
        return typename L::non_owning_data_t(o);
    }
    static constexpr int LD = (Tr::layout_depth < 0) ? 0 : Tr::layout_depth;
    using LayoutB = typename nth_layer<B, LD>::type;
    using lattice_coord_t = typename LayoutB::contravariant_input_t::vector_t;

    static void fill(F *f, const ModelField &m)
    {
        if constexpr (Tr::shape != sim::SHAPE_NONE && !Tr::device) {
            // a model without values (a lattice too large to enumerate): configuration only
            if (m.vals.empty())
                return;
            auto v = storage_view(*f);
            for_lattice(m.ext, [&](std::size_t lin, const std::size_t *c) {
                auto &cell = v.at(make_coord<lattice_coord_t>(c));
                for (int j = 0; j < Tr::M; ++j)
                    cell[j] = from_bits<std::decay_t<decltype(cell[0])>>(m.vals[lin * Tr::M + j]);
            });
        }
    }
    static void construct(void *mem, const ModelField &m)
    {
        auto tup = cfg_tuple<B>(m, 0);
        F *f;
        {
            Sut s;
            f = std::apply(
                [mem](auto &&...c) { return new (mem) F(covfie::make_parameter_pack(std::move(c)...)); },
                std::move(tup)
            );
        }
        fill(f, m);
    }
    // The way fields are usually built: every configuration EXCEPT the array's element count,
    // which the storage-order layer then derives from its extents by itself.
    template <class Tup, std::size_t... I>
    static auto first_of(Tup &&t, std::index_sequence<I...>)
    {
        return std::make_tuple(std::move(std::get<I>(t))...);
    }
    static void construct_short(void *mem, const ModelField &m)
    {
        if constexpr (Tr::shape == sim::SHAPE_LAYOUT && !Tr::device && is_strided<LayoutB>::value) {
            auto tup = cfg_tuple<B>(m, 0);
            constexpr std::size_t n = std::tuple_size_v<decltype(tup)>;
            auto head = first_of(std::move(tup), std::make_index_sequence<n - 1>{});
            F *f;
            {
                Sut s;
                f = std::apply(
                    [mem](auto &&...c) { return new (mem) F(covfie::make_parameter_pack(std::move(c)...)); },
                    std::move(head)
                );
            }
            fill(f, m);
        }
    }
    static void default_construct(void *mem)
    {
        Sut s;
        new (mem) F();
    }
    static void destroy(void *obj)
    {
        Sut s;
        static_cast<F *>(obj)->~F();
    }
    static void copy_construct(void *mem, const void *src)
    {
        Sut s;
        new (mem) F(*static_cast<const F *>(src));
    }
    // the same from a NON-CONST lvalue, as `F g(f);` is usually written: a perfect-forwarding
    // constructor template can hijack exactly this form
    static void copy_construct_nc(void *mem, void *src)
    {
        Sut s;
        F &from = *static_cast<F *>(src);
        new (mem) F(from);
    }
    static void copy_assign_nc(void *dst, void *src)
    {
        Sut s;
        F &d = *static_cast<F *>(dst);
        F &from = *static_cast<F *>(src);
        d = from;
    }
    static void move_construct(void *mem, void *src)
    {
        Sut s;
        new (mem) F(std::move(*static_cast<F *>(src)));
    }
    static void copy_assign(void *dst, const void *src)
    {
        Sut s;
        F &d = *static_cast<F *>(dst);
        d = *static_cast<const F *>(src);
    }
    static void move_assign(void *dst, void *src)
    {
        Sut s;
        F &d = *static_cast<F *>(dst);
        d = std::move(*static_cast<F *>(src));
    }
    static void read_all(const void *obj, ModelField &out)
    {
        const F &f = *static_cast<const F *>(obj);
        out.cfg.clear();
        read_cfgs<B>(f.backend(), out.cfg);
        out.vals.clear();
        out.ext.clear();
        if constexpr (Tr::shape != sim::SHAPE_NONE) {
            // extents come from the storage-order layer's own configuration
            const auto &o = descend<Tr::layout_depth>(f.backend());
            auto conf = o.get_configuration();
            for (int k = 0; k < Tr::N; ++k)
                out.ext.push_back(conf[k]);
            std::size_t vol = 1;
            for (auto e : out.ext)
                vol *= e;
            // a configuration this large can only be garbage; do not walk it
            if (vol > (std::size_t(1) << 24))
                return;
            out.vals.resize(vol * Tr::M);
            auto v = storage_view(f);
            for_lattice(out.ext, [&](std::size_t lin, const std::size_t *c) {
                auto &cell = v.at(make_coord<lattice_coord_t>(c));
                for (int j = 0; j < Tr::M; ++j)
                    out.vals[lin * Tr::M + j] = to_bits(cell[j]);
            });
        }
    }
    static void write_cell(void *obj, const std::size_t *c, const uint64_t *bits)
    {
        F &f = *static_cast<F *>(obj);
        if constexpr (Tr::view_writable) {
            typename F::view_t v(f);
            auto &cell = at_either(v, make_coord<typename F::coordinate_t>(c), (c[0] & 1) != 0);
            for (int j = 0; j < Tr::M; ++j)
                cell[j] = from_bits<std::decay_t<decltype(cell[0])>>(bits[j]);
        } else if constexpr (Tr::shape != sim::SHAPE_NONE) {
            auto v = storage_view(f);
            auto &cell = v.at(make_coord<lattice_coord_t>(c));
            for (int j = 0; j < Tr::M; ++j)
                cell[j] = from_bits<std::decay_t<decltype(cell[0])>>(bits[j]);
        }
    }
    static void read_cell(const void *obj, const std::size_t *c, uint64_t *bits)
    {
        const F &f = *static_cast<const F *>(obj);
        if constexpr (Tr::view_writable) {
            typename F::view_t v(f);
            auto &cell = at_either(v, make_coord<typename F::coordinate_t>(c), (c[0] & 2) != 0);
            for (int j = 0; j < Tr::M; ++j)
                bits[j] = to_bits(cell[j]);
        } else if constexpr (Tr::shape != sim::SHAPE_NONE) {
            auto v = storage_view(f);
            auto &cell = v.at(make_coord<lattice_coord_t>(c));
            for (int j = 0; j < Tr::M; ++j)
                bits[j] = to_bits(cell[j]);
        }
    }
    static void lookup(const void *obj, const double *x, uint64_t *bits)
    {
        const F &f = *static_cast<const F *>(obj);
        typename F::view_t v(f);
        typename F::coordinate_t c = make_real_coord<typename F::coordinate_t>(x);
        auto r = v.at(c);
        constexpr std::size_t OD = B::covariant_output_t::dimensions;
        for (std::size_t j = 0; j < OD; ++j)
            bits[j] = to_bits(r[j]);
    }
    static void swap_adl(void *a, void *b)
    {
        Sut s;
        using std::swap;
        swap(*static_cast<F *>(a), *static_cast<F *>(b));
    }
    static void *hold_view(const void *obj)
    {
        return new typename F::view_t(*static_cast<const F *>(obj));
    }
    static void release_view(void *view)
    {
        delete static_cast<typename F::view_t *>(view);
    }
    static void held_lookup(const void *view, const double *x, uint64_t *bits, bool scalar_form)
    {
        const auto &v = *static_cast<const typename F::view_t *>(view);
        typename F::coordinate_t c = make_real_coord<typename F::coordinate_t>(x);
        auto r = at_either(v, c, scalar_form);
        constexpr std::size_t OD = B::covariant_output_t::dimensions;
        for (std::size_t j = 0; j < OD; ++j)
            bits[j] = to_bits(r[j]);
    }
    static void lookup_va(const void *obj, const double *x, uint64_t *bits)
    {
        const F &f = *static_cast<const F *>(obj);
        typename F::view_t v(f);
        typename F::coordinate_t c = make_real_coord<typename F::coordinate_t>(x);
        auto r = at_either(v, c, true);
        constexpr std::size_t OD = B::covariant_output_t::dimensions;
        for (std::size_t j = 0; j < OD; ++j)
            bits[j] = to_bits(r[j]);
    }
    static void reg()
    {
        sim::SlotOps &o = sim::ops_of(Tr::index);
        o.has_core = true;
        if constexpr (has_scalar_at<typename F::view_t, typename F::coordinate_t>)
            o.lookup_va = &lookup_va;
        if constexpr (!Tr::device) {
            o.swap_adl = &swap_adl;
            o.hold_view = &hold_view;
            o.release_view = &release_view;
            o.held_lookup = &held_lookup;
        }
        o.obj_size = sizeof(F);
        o.obj_align = alignof(F);
        o.construct = &construct;
        if constexpr (Tr::shape == sim::SHAPE_LAYOUT && !Tr::device && is_strided<LayoutB>::value)
            o.construct_short = &construct_short;
        if constexpr (std::is_default_constructible_v<F> && !Tr::device)
            o.default_construct = &default_construct;
        o.destroy = &destroy;
        o.copy_construct = &copy_construct;
        o.copy_construct_nc = &copy_construct_nc;
        o.copy_assign_nc = &copy_assign_nc;
        o.move_construct = &move_construct;
        o.copy_assign = &copy_assign;
        o.move_assign = &move_assign;
        o.read_all = &read_all;
        o.write_cell = &write_cell;
        o.read_cell = &read_cell;
        o.lookup = &lookup;
    }
};

template <class Tr>
struct Io {
    using B = typename Tr::B;
    using F = covfie::field<B>;
    static void dump(const void *obj, std::ostream &os)
    {
        Sut s;
        static_cast<const F *>(obj)->dump(os);
    }
    static void load(void *mem, std::istream &is)
    {
        Sut s;
        new (mem) F(is);
    }
    static void load_assign(void *obj, std::istream &is)
    {
        Sut s;
        F &d = *static_cast<F *>(obj);
        d = F(is);
    }
    static void reg()
    {
        sim::SlotOps &o = sim::ops_of(Tr::index);
        o.has_io = true;
        o.dump = &dump;
        o.load = &load;
        o.load_assign = &load_assign;
    }
};

// dump only (golden-file generation at the pinned revision, where some readers do not compile)
template <class Tr>
struct Dmp {
    using F = covfie::field<typename Tr::B>;
    static void dump(const void *obj, std::ostream &os)
    {
        Sut s;
        static_cast<const F *>(obj)->dump(os);
    }
    static void reg()
    {
        sim::SlotOps &o = sim::ops_of(Tr::index);
        o.has_dmp = true;
        o.dump = &dump;
    }
};

template <class TrD, class TrS>
struct Conv {
    using FD = covfie::field<typename TrD::B>;
    using FS = covfie::field<typename TrS::B>;
    static void copy(void *mem, const void *src)
    {
        Sut s;
        new (mem) FD(*static_cast<const FS *>(src));
    }
    static void move(void *mem, void *src)
    {
        Sut s;
        new (mem) FD(std::move(*static_cast<FS *>(src)));
    }
    // copying conversion from a non-const lvalue (`field<B2> g(f);`): still a COPY
    static void copy_nc(void *mem, void *src)
    {
        Sut s;
        FS &from = *static_cast<FS *>(src);
        new (mem) FD(from);
    }
    static void reg()
    {
        sim::SlotOps &o = sim::ops_of(TrD::index);
        o.conv[TrS::index].copy = &copy;
        o.conv[TrS::index].move = &move;
        o.conv[TrS::index].copy_nc = &copy_nc;
    }
};

template <class B, int K>
auto cfg_tuple_prefix(const ModelField &m, std::size_t i)
{
    if constexpr (K == 0)
        return std::make_tuple();
    else {
        const uint8_t *p = m.cfg[i].data();
        auto c = cfg_reader<typename B::configuration_t>::get(p);
        return std::tuple_cat(std::make_tuple(std::move(c)), cfg_tuple_prefix<typename B::backend_t, K - 1>(m, i + 1));
    }
}

// Build a field of the outer type from its first K configurations and
// std::move(inner.backend()): backend() is a const reference, so this must copy.
template <class TrO, class TrI, int K>
struct Wrap {
    using FO = covfie::field<typename TrO::B>;
    using FI = covfie::field<typename TrI::B>;
    static void wrap(void *mem, const ModelField &m, const void *inner)
    {
        auto tup = cfg_tuple_prefix<typename TrO::B, K>(m, 0);
        const FI &in = *static_cast<const FI *>(inner);
        Sut s;
        std::apply(
            [mem, &in](auto &&...c) { return new (mem) FO(covfie::make_parameter_pack(std::move(c)..., std::move(in.backend()))); },
            std::move(tup)
        );
    }
    static void reg()
    {
        sim::ops_of(TrO::index).wrap[TrI::index] = &wrap;
    }
};

// Thread-world entry points: everything goes through field_view, as user code does.
template <class Tr>
struct Thr {
    using B = typename Tr::B;
    using F = covfie::field<B>;
    using V = typename F::view_t;
    static void *make_view(const void *obj)
    {
        return new V(*static_cast<const F *>(obj));
    }
    static void *copy_view(const void *view)
    {
        return new V(*static_cast<const V *>(view));
    }
    static void free_view(void *view)
    {
        delete static_cast<V *>(view);
    }
    static void view_lookup(const void *view, const double *x, uint64_t *bits)
    {
        const V &v = *static_cast<const V *>(view);
        typename F::coordinate_t c = make_real_coord<typename F::coordinate_t>(x);
        auto r = v.at(c);
        constexpr std::size_t OD = B::covariant_output_t::dimensions;
        for (std::size_t j = 0; j < OD; ++j)
            bits[j] = to_bits(r[j]);
    }
    static void view_lookup_va(const void *view, const double *x, uint64_t *bits)
    {
        const V &v = *static_cast<const V *>(view);
        typename F::coordinate_t c = make_real_coord<typename F::coordinate_t>(x);
        auto r = at_either(v, c, true);
        constexpr std::size_t OD = B::covariant_output_t::dimensions;
        for (std::size_t j = 0; j < OD; ++j)
            bits[j] = to_bits(r[j]);
    }
    static void view_write(const void *view, const std::size_t *c, const uint64_t *bits)
    {
        if constexpr (Tr::view_writable) {
            const V &v = *static_cast<const V *>(view);
            auto &cell = at_either(v, make_coord<typename F::coordinate_t>(c), (c[0] & 1) != 0);
            for (int j = 0; j < Tr::M; ++j)
                cell[j] = from_bits<std::decay_t<decltype(cell[0])>>(bits[j]);
        }
    }
    static constexpr bool ref_out = std::is_lvalue_reference_v<typename B::covariant_output_t::vector_t>;
    // write through the view at a coordinate of the view's own coordinate type
    static void view_write_at(const void *view, const double *x, const uint64_t *bits)
    {
        if constexpr (ref_out) {
            const V &v = *static_cast<const V *>(view);
            typename F::coordinate_t c = make_real_coord<typename F::coordinate_t>(x);
            auto &cell = at_either(v, c, (bits[0] & 1) != 0);
            for (int j = 0; j < Tr::M; ++j)
                cell[j] = from_bits<std::decay_t<decltype(cell[0])>>(bits[j]);
        }
    }
    // write one lattice cell of the field through a freshly built view of its storage-order
    // layer (stacks whose own view returns values, not references: interpolators, casts)
    static void storage_write(const void *obj, const std::size_t *c, const uint64_t *bits)
    {
        if constexpr (Tr::shape == sim::SHAPE_LAYOUT && !Tr::device) {
            const F &f = *static_cast<const F *>(obj);
            using L = typename nth_layer<B, Tr::layout_depth>::type;
            const auto &o = descend<Tr::layout_depth>(f.backend());
            typename L::non_owning_data_t v(o);
            auto &cell = v.at(make_coord<typename L::contravariant_input_t::vector_t>(c));
            for (int j = 0; j < Tr::M; ++j)
                cell[j] = from_bits<std::decay_t<decltype(cell[0])>>(bits[j]);
        }
    }
    static void view_read(const void *view, const std::size_t *c, uint64_t *bits)
    {
        if constexpr (Tr::view_writable) {
            const V &v = *static_cast<const V *>(view);
            auto &cell = at_either(v, make_coord<typename F::coordinate_t>(c), (c[0] & 2) != 0);
            for (int j = 0; j < Tr::M; ++j)
                bits[j] = to_bits(cell[j]);
        }
    }
    static void reg()
    {
        sim::SlotOps &o = sim::ops_of(Tr::index);
        o.has_thr = true;
        o.make_view = &make_view;
        o.copy_view = &copy_view;
        o.free_view = &free_view;
        o.view_lookup = &view_lookup;
        if constexpr (has_scalar_at<V, typename F::coordinate_t>)
            o.view_lookup_va = &view_lookup_va;
        o.view_write = &view_write;
        o.view_read = &view_read;
        o.ref_output = ref_out;
        o.view_write_at = &view_write_at;
        if constexpr (Tr::shape == sim::SHAPE_LAYOUT && !Tr::device)
            o.storage_write = &storage_write;
    }
};

struct Registrar {
    explicit Registrar(void (*fn)())
    {
        fn();
    }
};

}
