"""The type pool: every covfie configuration the simulator instantiates.

A stack is a list of layer tokens, outermost first. From it we derive the C++
type, the layer descriptors the worlds use to generate configurations and to
predict the on-disk format, and the translation units (one per stack and
operation group)."""

import itertools

SCAL = {'f': ('float', 'SC_F32'), 'd': ('double', 'SC_F64'), 's': ('std::size_t', 'SC_U64'),
        'u': ('unsigned int', 'SC_U32'), 'i': ('int', 'SC_I32')}
VEC = {'f': 'float', 'd': 'double', 's': 'size', 'u': 'uint', 'i': 'int'}


def vec_d(tok):
    """'f3' -> covfie::vector::float3"""
    return 'covfie::vector::%s%s' % (VEC[tok[0]], tok[1])


class Stack:
    def __init__(self, sid, layers, tier='Q', family=None, thr=False):
        self.id = sid
        self.layers = layers
        self.tier = 0 if tier == 'Q' else 1
        self.family = family
        self.thr = thr
        self.index = None
        self._derive()

    def _derive(self):
        # walk from the innermost layer outwards
        descs = []
        ctype = None
        in_s = in_n = out_s = out_n = None
        self.shape = 'SHAPE_NONE'
        self.layout_depth = -1
        self.N = 0
        self.M = 0
        self.storage = None
        self.device = False
        self.cuda = False
        depth = len(self.layers)
        norm = []
        plain = True  # only layout + array: the view maps straight onto the lattice
        for k in range(depth - 1, -1, -1):
            tok = self.layers[k].split(':')
            kind = tok[0]
            perm = [0, 0, 0, 0]
            if kind == 'array' or kind == 'cuda':
                v = tok[1]
                tmpl = 'array' if kind == 'array' else 'cuda_device_array'
                ctype = 'covfie::backend::%s<%s>' % (tmpl, vec_d(v))
                in_s, in_n, out_s, out_n = 's', 1, v[0], int(v[1])
                lk = 'LK_ARRAY' if kind == 'array' else 'LK_CUDA'
                self.M = out_n
                self.storage = v[0]
                if kind == 'cuda':
                    self.device = True
                    self.cuda = True
                if depth == 1:
                    self.shape = 'SHAPE_BARE'
                    self.layout_depth = 0
                    self.N = 1
                norm.append('%s:X%d' % (kind, out_n))
            elif kind == 'const':
                ctype = 'covfie::backend::constant<%s, %s>' % (vec_d(tok[1]), vec_d(tok[2]))
                in_s, in_n, out_s, out_n = tok[1][0], int(tok[1][1]), tok[2][0], int(tok[2][1])
                lk = 'LK_CONST'
                plain = False
                norm.append(self.layers[k])
            elif kind == 'ident':
                ctype = 'covfie::backend::identity<%s>' % vec_d(tok[1])
                in_s, in_n, out_s, out_n = tok[1][0], int(tok[1][1]), tok[1][0], int(tok[1][1])
                lk = 'LK_IDENT'
                plain = False
                norm.append(self.layers[k])
            elif kind in ('strided', 'mortonb', 'mortonp', 'hilbert'):
                v = tok[1]
                if kind == 'strided':
                    ctype = 'covfie::backend::strided<%s, %s>' % (vec_d(v), ctype)
                    lk = 'LK_STRIDED'
                elif kind == 'hilbert':
                    ctype = 'covfie::backend::hilbert<%s, %s>' % (vec_d(v), ctype)
                    lk = 'LK_HILBERT'
                else:
                    ctype = 'covfie::backend::morton<%s, %s, %s>' % (
                        vec_d(v), ctype, 'true' if kind == 'mortonb' else 'false')
                    lk = 'LK_MORTON'
                in_s, in_n = v[0], int(v[1])
                self.shape = 'SHAPE_LAYOUT'
                self.layout_depth = k
                self.N = in_n
                norm.append(self.layers[k])
            elif kind in ('clamp', 'backup'):
                ctype = 'covfie::backend::%s<%s>' % (kind, ctype)
                lk = 'LK_CLAMP' if kind == 'clamp' else 'LK_BACKUP'
                plain = False
                norm.append(kind + '@' + in_s)
            elif kind == 'shuffle':
                p = [int(c) for c in tok[1]]
                ctype = 'covfie::backend::shuffle<%s, std::index_sequence<%s>>' % (ctype, ', '.join(map(str, p)))
                lk = 'LK_SHUFFLE'
                for i, c in enumerate(p):
                    perm[i] = c
                plain = False
                norm.append(self.layers[k])
            elif kind in ('nn', 'nnd', 'lin', 'lind'):
                cs = 'd' if kind.endswith('d') else 'f'
                name = 'nearest_neighbour' if kind.startswith('nn') else 'linear'
                vd = 'covfie::vector::vector_d<%s, %d>' % (SCAL[cs][0], in_n)
                ctype = 'covfie::backend::%s<%s, %s>' % (name, ctype, vd)
                lk = 'LK_NN' if kind.startswith('nn') else 'LK_LINEAR'
                in_s = cs
                plain = False
                norm.append('I')
            elif kind == 'affine':
                ctype = 'covfie::backend::affine<%s>' % ctype
                lk = 'LK_AFFINE'
                plain = False
                norm.append('affine@' + in_s)
            elif kind in ('castd', 'castf'):
                t = 'd' if kind == 'castd' else 'f'
                ctype = 'covfie::backend::covariant_cast<%s, %s>' % (SCAL[t][0], ctype)
                lk = 'LK_CAST'
                out_s = t
                plain = False
                norm.append(kind)
            elif kind == 'deref':
                ctype = 'covfie::backend::dereference<%s>' % ctype
                lk = 'LK_DEREF'
                plain = False
                norm.append('deref')
            else:
                raise ValueError(self.layers[k])
            descs.append(dict(kind=lk, in_s=in_s, in_n=in_n, out_s=out_s, out_n=out_n, perm=perm))
        descs.reverse()
        norm.reverse()
        self.descs = descs
        self.ctype = ctype
        self.depth = depth
        self.norm = '/'.join(norm)
        self.top_in = (descs[0]['in_s'], descs[0]['in_n'])
        self.top_out = (descs[0]['out_s'], descs[0]['out_n'])
        self.int_level = self.top_in[0] in 'sui'
        self.view_writable = plain and self.shape in ('SHAPE_LAYOUT', 'SHAPE_BARE') and not self.device
        self.kinds = [d['kind'] for d in descs]

    def has(self, lk):
        return lk in self.kinds


def S(*a, **k):
    return Stack(*a, **k)


STACKS = [
    # primitives
    S('arr_f1', ['array:f1'], thr=True),
    S('arr_f3', ['array:f3']),
    S('arr_d2', ['array:d2']),
    S('const_f3_f3', ['const:f3:f3']),
    S('const_f2_f3', ['const:f2:f3']),
    S('ident_f2', ['ident:f2']),
    # family N1 M1 f
    S('strided_s1_f1', ['strided:s1', 'array:f1'], family='N1M1f', thr=True),
    S('mortonp_s1_f1', ['mortonp:s1', 'array:f1'], family='N1M1f'),
    # family N2 M2 f
    S('strided_s2_f2', ['strided:s2', 'array:f2'], family='N2M2f', thr=True),
    S('mortonb_s2_f2', ['mortonb:s2', 'array:f2'], family='N2M2f', thr=True),
    S('mortonp_s2_f2', ['mortonp:s2', 'array:f2'], family='N2M2f', thr=True),
    S('hilbert_s2_f2', ['hilbert:s2', 'array:f2'], family='N2M2f', thr=True),
    S('strided_u2_f2', ['strided:u2', 'array:f2'], thr=True),
    S('strided_i2_f2', ['strided:i2', 'array:f2'], thr=True),
    # family N2 M3 f (N != M)
    S('strided_s2_f3', ['strided:s2', 'array:f3'], family='N2M3f'),
    S('mortonb_s2_f3', ['mortonb:s2', 'array:f3'], 'T', family='N2M3f'),
    S('hilbert_s2_f3', ['hilbert:s2', 'array:f3'], 'T', family='N2M3f'),
    # family N3 M3 f
    S('strided_s3_f3', ['strided:s3', 'array:f3'], family='N3M3f', thr=True),
    S('mortonb_s3_f3', ['mortonb:s3', 'array:f3'], family='N3M3f', thr=True),
    S('mortonp_s3_f3', ['mortonp:s3', 'array:f3'], family='N3M3f', thr=True),
    # family N3 M1 f (N != M)
    S('strided_s3_f1', ['strided:s3', 'array:f1'], family='N3M1f'),
    S('mortonp_s3_f1', ['mortonp:s3', 'array:f1'], 'T', family='N3M1f'),
    # family N4 M1 f
    S('strided_s4_f1', ['strided:s4', 'array:f1'], family='N4M1f'),
    S('mortonb_s4_f1', ['mortonb:s4', 'array:f1'], family='N4M1f'),
    # double storage
    S('strided_s2_d2', ['strided:s2', 'array:d2'], family='N2M2d'),
    S('mortonb_s2_d2', ['mortonb:s2', 'array:d2'], 'T', family='N2M2d'),
    S('strided_s3_d3', ['strided:s3', 'array:d3'], family='N3M3d'),
    # integer-level wrappers
    S('clamp_strided_s2_f2', ['clamp', 'strided:s2', 'array:f2'], thr=True),
    S('backup_strided_s3_f1', ['backup', 'strided:s3', 'array:f1'], thr=True),
    S('shuffle201_strided_s3_f3', ['shuffle:201', 'strided:s3', 'array:f3'], thr=True),
    S('clamp_mortonb_s2_f2', ['clamp', 'mortonb:s2', 'array:f2'], 'T'),
    # interpolators
    S('nn_strided_s3_f3', ['nn', 'strided:s3', 'array:f3'], thr=True),
    S('lin_strided_s3_f3', ['lin', 'strided:s3', 'array:f3'], thr=True),
    S('lin_strided_s2_f2', ['lin', 'strided:s2', 'array:f2'], thr=True),
    S('lin_strided_s2_f3', ['lin', 'strided:s2', 'array:f3']),
    S('lin_strided_s3_f1', ['lin', 'strided:s3', 'array:f1']),
    S('lind_strided_s2_d2', ['lind', 'strided:s2', 'array:d2'], thr=True),
    S('nnd_strided_s3_d3', ['nnd', 'strided:s3', 'array:d3']),
    S('nnd_strided_s2_f2', ['nnd', 'strided:s2', 'array:f2'], 'T'),
    S('lin_mortonp_s3_f3', ['lin', 'mortonp:s3', 'array:f3'], 'T', thr=True),
    S('lin_mortonb_s2_f2', ['lin', 'mortonb:s2', 'array:f2'], thr=True),
    S('lin_hilbert_s2_f2', ['lin', 'hilbert:s2', 'array:f2'], 'T', thr=True),
    S('nn_strided_s1_f1', ['nn', 'strided:s1', 'array:f1']),
    S('lin_strided_s4_f1', ['lin', 'strided:s4', 'array:f1'], thr=True),
    # real-level wrappers / whole stacks
    S('aff_nn_strided_s3_f3', ['affine', 'nn', 'strided:s3', 'array:f3'], family='WN3M3f', thr=True),
    S('aff_lin_strided_s3_f3', ['affine', 'lin', 'strided:s3', 'array:f3'], family='WN3M3f', thr=True),
    S('aff_nn_mortonb_s3_f3', ['affine', 'nn', 'mortonb:s3', 'array:f3'], family='WN3M3f'),
    S('aff_lin_mortonp_s3_f3', ['affine', 'lin', 'mortonp:s3', 'array:f3'], family='WN3M3f', thr=True),
    S('aff_lin_mortonb_s3_f3', ['affine', 'lin', 'mortonb:s3', 'array:f3'], 'T', family='WN3M3f', thr=True),
    S('aff_nn_mortonp_s3_f3', ['affine', 'nn', 'mortonp:s3', 'array:f3'], 'T', family='WN3M3f'),
    S('aff_nn_strided_s3_d3', ['affine', 'nn', 'strided:s3', 'array:d3'], family='WN3M3d'),
    S('aff_lin_strided_s3_d3', ['affine', 'lin', 'strided:s3', 'array:d3'], 'T', family='WN3M3d'),
    S('lin_clamp_strided_s2_f2', ['lin', 'clamp', 'strided:s2', 'array:f2'], thr=True),
    S('clamp_lin_strided_s2_f2', ['clamp', 'lin', 'strided:s2', 'array:f2'], thr=True),
    S('backup_nn_strided_s2_f2', ['backup', 'nn', 'strided:s2', 'array:f2'], thr=True),
    S('castd_strided_s2_f2', ['castd', 'strided:s2', 'array:f2'], thr=True),
    S('castd_strided_s3_f2', ['castd', 'strided:s3', 'array:f2'], thr=True),
    S('deref_strided_s2_f2', ['deref', 'strided:s2', 'array:f2'], thr=True),
    S('aff_ident_f3', ['affine', 'ident:f3'], thr=True),
    # added while extending coverage (mostly thorough tier)
    S('lin_strided_s1_f1', ['lin', 'strided:s1', 'array:f1'], thr=True),
    S('strided_s2_f4', ['strided:s2', 'array:f4'], family='N2M4f'),
    S('mortonb_s2_f4', ['mortonb:s2', 'array:f4'], 'T', family='N2M4f'),
    S('mortonb_u2_f2', ['mortonb:u2', 'array:f2'], 'T'),
    S('nn_mortonb_s3_f3', ['nn', 'mortonb:s3', 'array:f3'], 'T', thr=True),
    S('aff_nn_strided_s2_f2', ['affine', 'nn', 'strided:s2', 'array:f2'], family='WN2M2f'),  # quick tier: the only 2-D float affine there (sizeof(affine<2, float>) is not a multiple of 16)
    S('aff_lin_hilbert_s2_f2', ['affine', 'lin', 'hilbert:s2', 'array:f2'], 'T', family='WN2M2f', thr=True),
    S('aff_lin_mortonb_s2_f2', ['affine', 'lin', 'mortonb:s2', 'array:f2'], 'T', family='WN2M2f'),
    S('shuffle10_mortonb_s2_f2', ['shuffle:10', 'mortonb:s2', 'array:f2'], 'T', thr=True),
    S('backup_lin_strided_s2_f2', ['backup', 'lin', 'strided:s2', 'array:f2'], 'T'),
    S('lind_strided_s3_f3', ['lind', 'strided:s3', 'array:f3'], 'T', thr=True),
    S('hilbert_s2_d2', ['hilbert:s2', 'array:d2'], 'T', family='N2M2d'),
    # whole stacks with N != M under the affine layer, and affine over double coordinates
    S('aff_nn_strided_s3_f1', ['affine', 'nn', 'strided:s3', 'array:f1'], family='WN3M1f'),
    S('aff_lin_mortonp_s3_f1', ['affine', 'lin', 'mortonp:s3', 'array:f1'], family='WN3M1f'),
    S('aff_lin_strided_s2_f3', ['affine', 'lin', 'strided:s2', 'array:f3'], 'T', family='WN2M3f'),
    S('aff_nn_mortonb_s2_f3', ['affine', 'nn', 'mortonb:s2', 'array:f3'], 'T', family='WN2M3f'),
    S('aff_lind_strided_s2_f2', ['affine', 'lind', 'strided:s2', 'array:f2'], thr=True),
    S('aff_nnd_strided_s3_d3', ['affine', 'nnd', 'strided:s3', 'array:d3'], 'T'),
    S('const_f2_i3', ['const:f2:i3']),
    S('ident_i2', ['ident:i2']),
    S('const_s3_u2', ['const:s3:u2'], 'T'),
    S('castd_strided_s2_f3', ['castd', 'strided:s2', 'array:f3'], thr=True),
    S('clamp_lind_strided_s2_d2', ['clamp', 'lind', 'strided:s2', 'array:d2'], thr=True),
    S('deref_strided_s3_f1', ['deref', 'strided:s3', 'array:f1'], thr=True),
    S('shuffle10_strided_s2_f3', ['shuffle:10', 'strided:s2', 'array:f3']),
    # device storage behind the CUDA shim
    S('strided_s3_cuda_f3', ['strided:s3', 'cuda:f3'], family='N3M3f'),
]
for i, s in enumerate(STACKS):
    s.index = i
BY_ID = {s.id: s for s in STACKS}
FAMILIES = sorted({s.family for s in STACKS if s.family})


def conv_pairs():
    """Ordered (dst, src) pairs whose converting construction the C05 check exercises."""
    out = []
    for d, s in itertools.permutations(STACKS, 2):
        if not d.family or d.family != s.family:
            continue
        if s.device:
            continue  # host <- device is not a conversion the library offers
        out.append((d, s))
    # storage-precision widening through the converting constructor
    out.append((BY_ID['strided_s3_d3'], BY_ID['strided_s3_f3']))
    return out


def wrap_pairs():
    """(outer, inner, k): outer's layers from index k on are exactly inner's layers, so a field of
    type outer can be built from outer's first k configurations plus std::move(inner.backend())
    (the idiom of tests/core/test_atlas_like_io.cpp)."""
    out = []
    for o in STACKS:
        for i in STACKS:
            if o is i or i.device or o.device or i.shape != 'SHAPE_LAYOUT':
                continue
            # only the row-major and Morton layers accept parameter_pack<const owning_data_t>
            # (what std::move(f.backend()) yields); for the other layers the idiom does not
            # compile, which is a limitation of the library, not a defect any claimed property names
            if i.layers[0].split(':')[0] not in ('strided', 'mortonb', 'mortonp'):
                continue
            k = len(o.layers) - len(i.layers)
            if k >= 1 and o.layers[k:] == i.layers:
                out.append((o, i, k))
    return out


def c07_pairs():
    """Ordered (reader, writer) pairs that differ only in interpolator and/or float width."""
    out = []
    for a, b in itertools.permutations(STACKS, 2):
        if a.norm == b.norm and a.shape != 'SHAPE_NONE' and not a.device and not b.device:
            out.append((a, b))
    return out


def stacks_cpp():
    """Descriptor table compiled into every world."""
    fam = {f: i for i, f in enumerate(FAMILIES)}
    L = ['// generated by sim/pool/pool.py -- do not edit', '#include "slot_ops.hpp"', '#include <cstring>',
         'namespace sim {', 'const StackDesc g_stacks[] = {']
    for s in STACKS:
        layers = []
        for d in s.descs:
            layers.append('{%s, %s, %d, %s, %d, {%s}}' % (
                d['kind'], SCAL[d['in_s']][1], d['in_n'], SCAL[d['out_s']][1], d['out_n'],
                ','.join(map(str, d['perm']))))
        L.append('  {"%s", %d, %d, {%s}, %s, %d, %d, %d, %s, %d, %d, %d, %d, "%s"},' % (
            s.id, s.index, s.depth, ', '.join(layers), s.shape, s.layout_depth, s.N, s.M,
            SCAL[s.storage][1] if s.storage else 'SC_NONE', s.tier,
            fam[s.family] if s.family else -1, int(s.view_writable), int(s.device), s.norm))
    L += ['};', 'const int g_nstacks = %d;' % len(STACKS),
          'const int g_conv_pairs[][2] = {%s};' % ', '.join('{%d,%d}' % (d.index, s.index) for d, s in conv_pairs()),
          'const int g_nconv = %d;' % len(conv_pairs()),
          'const int g_wrap_pairs[][3] = {%s};' % ', '.join('{%d,%d,%d}' % (o.index, i.index, k) for o, i, k in wrap_pairs()),
          'const int g_nwrap = %d;' % len(wrap_pairs()),
          'static SlotOps g_ops[%d];' % len(STACKS),
          'SlotOps &ops_of(int i) { return g_ops[i]; }',
          'int stack_by_id(const char *id) { for (int i = 0; i < g_nstacks; ++i) if (!std::strcmp(g_stacks[i].id, id)) return i; return -1; }',
          '}', '']
    return '\n'.join(L)


def traits(s, name='Tr'):
    return ('struct %s { using B = %s; static constexpr int index = %d; static constexpr int layout_depth = %d; '
            'static constexpr int shape = sim::%s; static constexpr int N = %d; static constexpr int M = %d; '
            'static constexpr bool view_writable = %s; static constexpr bool device = %s; };' % (
                name, s.ctype, s.index, s.layout_depth, s.shape, s.N, s.M,
                'true' if s.view_writable else 'false', 'true' if s.device else 'false'))


def tu_source(group, s, src=None):
    """C++ source of one translation unit. group: core | io | thr | conv"""
    L = ['// generated by sim/pool/pool.py']
    if s.cuda or (src is not None and src.cuda):
        L.append('#define SIM_WITH_CUDA 1')
    L.append('#include "adapter.hpp"')
    L.append('namespace {')
    if group == 'wrap':
        k = len(s.layers) - len(src.layers)
        L.append(traits(s, 'TrO'))
        L.append(traits(src, 'TrI'))
        L.append('static ad::Registrar reg_ __attribute__((init_priority(1000))) (&ad::Wrap<TrO, TrI, %d>::reg);' % k)
    elif group == 'conv':
        L.append(traits(s, 'TrD'))
        L.append(traits(src, 'TrS'))
        L.append('static ad::Registrar reg_ __attribute__((init_priority(1000))) (&ad::Conv<TrD, TrS>::reg);')
    else:
        L.append(traits(s))
        cls = {'core': 'Core', 'io': 'Io', 'thr': 'Thr', 'dmp': 'Dmp'}[group]
        L.append('static ad::Registrar reg_ __attribute__((init_priority(1000))) (&ad::%s<Tr>::reg);' % cls)
    L.append('}')
    return '\n'.join(L) + '\n'
