// Type-erased interface between the worlds (compiled once) and the per-stack
// adapter translation units (one per stack and operation group, so that a
// stack whose dump does not compile costs that group only).
#pragma once
#include <cstddef>
#include <cstdint>
#include <iosfwd>
#include <vector>

namespace sim {

using Bytes = std::vector<uint8_t>;

enum LayerKind : int {
    LK_ARRAY,
    LK_CUDA,
    LK_CONST,
    LK_IDENT,
    LK_STRIDED,
    LK_MORTON,
    LK_HILBERT,
    LK_CLAMP,
    LK_BACKUP,
    LK_SHUFFLE,
    LK_NN,
    LK_LINEAR,
    LK_AFFINE,
    LK_CAST,
    LK_DEREF
};
enum Scal : int { SC_NONE, SC_F32, SC_F64, SC_U64, SC_U32, SC_I32 };

inline size_t scal_size(Scal s)
{
    switch (s) {
    case SC_F32:
    case SC_U32:
    case SC_I32:
        return 4;
    case SC_F64:
    case SC_U64:
        return 8;
    default:
        return 0;
    }
}
inline bool scal_is_float(Scal s)
{
    return s == SC_F32 || s == SC_F64;
}

struct LayerDesc {
    LayerKind kind;
    Scal in_scal; // scalar type of this layer's input coordinate
    int in_dims;
    Scal out_scal; // scalar type of this layer's output
    int out_dims;
    int perm[4]; // shuffle only
};

constexpr int MAX_LAYERS = 8;
constexpr int MAX_STACKS = 96;

enum StackShape : int { SHAPE_LAYOUT, SHAPE_BARE, SHAPE_NONE };

struct StackDesc {
    const char *id;
    int index;
    int depth;
    LayerDesc layers[MAX_LAYERS]; // outermost first
    int shape; // SHAPE_LAYOUT: has a storage-order layer; SHAPE_BARE: array only; SHAPE_NONE: constant/identity
    int layout_depth; // index of the storage-order (or bare array) layer, -1 if none
    int N; // lattice dimensions (0 if none)
    int M; // stored components per cell (0 if none)
    Scal storage; // stored scalar type
    int tier; // 0 = quick and thorough, 1 = thorough only
    int family; // conversion family id, -1 if none
    int view_writable; // integer-level lvalue view straight onto the lattice
    int device; // storage lives behind the CUDA shim
    const char *norm; // normal form for C07 pairing (interpolator and float width erased)
};

// A field's abstract state: per-layer configuration as canonical bytes and
// the stored scalars as bit patterns in row-major lattice order.
struct ModelField {
    int stack = -1;
    std::vector<size_t> ext;
    std::vector<Bytes> cfg;
    std::vector<uint64_t> vals;
};

struct SlotOps {
    // group core
    bool has_core = false;
    size_t obj_size = 0, obj_align = 0;
    void (*construct)(void *mem, const ModelField &) = nullptr;
    void (*construct_short)(void *mem, const ModelField &) = nullptr; // without the array layer's configuration
    void (*default_construct)(void *mem) = nullptr;
    void (*destroy)(void *obj) = nullptr;
    void (*copy_construct)(void *mem, const void *src) = nullptr;
    void (*copy_construct_nc)(void *mem, void *src) = nullptr; // from a non-const lvalue
    void (*copy_assign_nc)(void *dst, void *src) = nullptr;
    void (*move_construct)(void *mem, void *src) = nullptr;
    void (*copy_assign)(void *dst, const void *src) = nullptr;
    void (*move_assign)(void *dst, void *src) = nullptr;
    void (*read_all)(const void *obj, ModelField &out) = nullptr;
    void (*write_cell)(void *obj, const size_t *c, const uint64_t *bits) = nullptr;
    void (*read_cell)(const void *obj, const size_t *c, uint64_t *bits) = nullptr;
    void (*lookup)(const void *obj, const double *x, uint64_t *bits) = nullptr;
    void (*lookup_va)(const void *obj, const double *x, uint64_t *bits) = nullptr; // at(scalar, scalar, ...) instead of at(coordinate_t)
    void (*swap_adl)(void *a, void *b) = nullptr; // using std::swap; swap(a, b);
    void *(*hold_view)(const void *obj) = nullptr; // a field_view that outlives the operation (heap-allocated)
    void (*release_view)(void *view) = nullptr;
    void (*held_lookup)(const void *view, const double *x, uint64_t *bits, bool scalar_form) = nullptr;
    // group io
    bool has_io = false;
    bool has_dmp = false;
    void (*dump)(const void *obj, std::ostream &) = nullptr;
    void (*load)(void *mem, std::istream &) = nullptr;
    void (*load_assign)(void *obj, std::istream &) = nullptr;
    // group conv: indexed by source stack
    struct Conv {
        void (*copy)(void *mem, const void *src) = nullptr;
        void (*move)(void *mem, void *src) = nullptr;
        void (*copy_nc)(void *mem, void *src) = nullptr; // copying conversion from a non-const lvalue
    } conv[MAX_STACKS];
    // group wrap: build this stack from its outer configurations + std::move(inner.backend()); indexed by inner stack
    void (*wrap[MAX_STACKS])(void *mem, const ModelField &outer_cfgs, const void *inner) = {};
    // group thr
    bool has_thr = false;
    void *(*make_view)(const void *obj) = nullptr; // heap-allocated field_view
    void *(*copy_view)(const void *view) = nullptr;
    void (*free_view)(void *view) = nullptr;
    void (*view_lookup)(const void *view, const double *x, uint64_t *bits) = nullptr;
    void (*view_lookup_va)(const void *view, const double *x, uint64_t *bits) = nullptr;
    void (*view_write)(const void *view, const size_t *c, const uint64_t *bits) = nullptr;
    void (*view_read)(const void *view, const size_t *c, uint64_t *bits) = nullptr;
    bool ref_output = false; // the view's lookup returns a reference into the storage (writable at its own coordinate type)
    void (*view_write_at)(const void *view, const double *x, const uint64_t *bits) = nullptr;
    void (*storage_write)(const void *obj, const size_t *c, const uint64_t *bits) = nullptr; // through a fresh view of the storage-order layer
};

extern const StackDesc g_stacks[];
extern const int g_nstacks;
extern const int g_conv_pairs[][2]; // {dst, src}
extern const int g_nconv;
extern const int g_wrap_pairs[][3]; // {outer, inner, number of outer-only layers}
extern const int g_nwrap;
SlotOps &ops_of(int stack);
int stack_by_id(const char *id);

}
