#include "sim_alloc.hpp"

#include <atomic>
#include <cstdio>
#include <cstdlib>
#include <cstring>
#include <new>

#include <valgrind/memcheck.h>

#if defined(__SANITIZE_ADDRESS__)
#define SIM_ASAN 1
#else
#define SIM_ASAN 0
#endif

namespace sim::alloc {

void (*on_free)(void *p, size_t n) = nullptr;

namespace {

std::atomic_flag g_lock = ATOMIC_FLAG_INIT;
struct Lock {
    Lock()
    {
        while (g_lock.test_and_set(std::memory_order_acquire)) {
        }
    }
    ~Lock()
    {
        g_lock.clear(std::memory_order_release);
    }
};

int g_depth = 0;
long g_fail_at = 0;
size_t g_op_allocs = 0;
bool g_fired = false;
bool g_big = false;
const char *g_violation = nullptr;
size_t g_live_blocks = 0, g_live_bytes = 0;
uint64_t g_total = 0;

#if !SIM_ASAN
constexpr uint64_t MAGIC_LIVE = 0x51A110C8B10C4A11ull;
constexpr uint64_t MAGIC_DEAD = 0xDEADB10CDEADB10Cull;
constexpr size_t TAIL = 16;
struct Hdr {
    uint64_t magic;
    uint64_t size;
    Hdr *prev, *next; // live SUT blocks list (null for harness blocks)
    uint64_t sut; // 1 = allocated inside SUT scope of the current run
    uint64_t front_guard; // 0xFAFAFAFAFAFAFAFA
};
static_assert(sizeof(Hdr) % 16 == 0);
Hdr g_head = {0, 0, &g_head, &g_head, 0, 0};
// quarantine of freed blocks
struct QNode {
    Hdr *h;
};
constexpr size_t QCAP = 4096;
Hdr *g_q[QCAP];
size_t g_qhead = 0, g_qlen = 0, g_qbytes = 0;
constexpr size_t QBYTES = size_t(16) << 20;

void q_evict_one()
{
    Hdr *h = g_q[g_qhead];
    g_qhead = (g_qhead + 1) % QCAP;
    --g_qlen;
    g_qbytes -= h->size;
    h->magic = 0;
    std::free(h);
}
void q_flush()
{
    while (g_qlen)
        q_evict_one();
}
bool tail_ok(Hdr *h)
{
    unsigned char *t = (unsigned char *)(h + 1) + h->size;
    for (size_t i = 0; i < TAIL; ++i)
        if (t[i] != 0xFB)
            return false;
    return h->front_guard == 0xFAFAFAFAFAFAFAFAull;
}
#else
// ASan build: pointer set of live in-scope blocks (malloc-backed, no operator new)
struct PSet {
    void **tab = nullptr;
    size_t *sz = nullptr;
    size_t cap = 0, n = 0, tomb = 0;
    static void *TOMB()
    {
        return (void *)1;
    }
    size_t slot(void *p) const
    {
        uint64_t x = (uint64_t)p;
        x ^= x >> 33;
        x *= 0xff51afd7ed558ccdull;
        x ^= x >> 33;
        return (size_t)x & (cap - 1);
    }
    void grow()
    {
        size_t ncap = cap ? cap * 2 : 1024;
        void **ot = tab;
        size_t *os = sz;
        size_t oc = cap;
        tab = (void **)std::calloc(ncap, sizeof(void *));
        sz = (size_t *)std::calloc(ncap, sizeof(size_t));
        cap = ncap;
        n = 0;
        tomb = 0;
        for (size_t i = 0; i < oc; ++i)
            if (ot[i] && ot[i] != TOMB())
                put(ot[i], os[i]);
        std::free(ot);
        std::free(os);
    }
    void put(void *p, size_t s)
    {
        if ((n + tomb + 1) * 2 > cap)
            grow();
        size_t i = slot(p);
        while (tab[i] && tab[i] != TOMB())
            i = (i + 1) & (cap - 1);
        if (tab[i] == TOMB())
            --tomb;
        tab[i] = p;
        sz[i] = s;
        ++n;
    }
    bool take(void *p, size_t &s)
    {
        if (!cap)
            return false;
        size_t i = slot(p);
        while (tab[i]) {
            if (tab[i] == p) {
                tab[i] = TOMB();
                ++tomb;
                --n;
                s = sz[i];
                return true;
            }
            i = (i + 1) & (cap - 1);
        }
        return false;
    }
    void clear()
    {
        if (cap) {
            std::memset(tab, 0, cap * sizeof(void *));
        }
        n = tomb = 0;
    }
} g_set;
#endif

void *do_alloc(size_t size, bool nothrow)
{
    Lock l;
    bool sut = g_depth > 0;
    if (sut) {
        ++g_op_allocs;
        ++g_total;
        if (g_fail_at && (long)g_op_allocs == g_fail_at) {
            g_fired = true;
            return nullptr;
        }
        if (size > MACHINE_LIMIT) {
            g_big = true;
            return nullptr;
        }
    }
#if !SIM_ASAN
    Hdr *h = (Hdr *)std::malloc(sizeof(Hdr) + size + TAIL);
    if (!h)
        return nullptr;
    h->magic = MAGIC_LIVE;
    h->size = size;
    h->sut = sut;
    h->front_guard = 0xFAFAFAFAFAFAFAFAull;
    h->prev = h->next = nullptr;
    if (sut) {
        h->next = &g_head;
        h->prev = g_head.prev;
        g_head.prev->next = h;
        g_head.prev = h;
        ++g_live_blocks;
        g_live_bytes += size;
    }
    unsigned char *p = (unsigned char *)(h + 1);
    std::memset(p + size, 0xFB, TAIL);
    // new memory is deliberately NOT zeroed: fill with a recognisable pattern
    std::memset(p, 0xCD, size);
    VALGRIND_MAKE_MEM_UNDEFINED(p, size); // under memcheck fresh memory stays "uninitialised"
    (void)nothrow;
    return p;
#else
    void *p = std::malloc(size ? size : 1);
    if (p && sut) {
        g_set.put(p, size);
        ++g_live_blocks;
        g_live_bytes += size;
    }
    (void)nothrow;
    return p;
#endif
}

void do_free(void *p)
{
    if (!p)
        return;
    // the hook may itself allocate and free: call it before taking the lock
    if (on_free) {
#if !SIM_ASAN
        Hdr *hh = (Hdr *)p - 1;
        if (hh->magic == MAGIC_LIVE)
            on_free(p, hh->size);
#else
        on_free(p, 0);
#endif
    }
    Lock l;
#if !SIM_ASAN
    Hdr *h = (Hdr *)p - 1;
    if (h->magic == MAGIC_DEAD) {
        if (!g_violation)
            g_violation = "double-free";
        return;
    }
    if (h->magic != MAGIC_LIVE) {
        if (!g_violation)
            g_violation = "foreign-free";
        return;
    }
    if (!tail_ok(h) && !g_violation)
        g_violation = "guard-damage";
    if (h->prev) {
        h->prev->next = h->next;
        h->next->prev = h->prev;
        h->prev = h->next = nullptr;
        --g_live_blocks;
        g_live_bytes -= h->size;
    }
    h->magic = MAGIC_DEAD;
    std::memset(p, 0xDD, h->size);
    if (h->size > QBYTES / 4) {
        h->magic = 0;
        std::free(h);
        return;
    }
    while (g_qlen == QCAP || g_qbytes + h->size > QBYTES)
        q_evict_one();
    g_q[(g_qhead + g_qlen) % QCAP] = h;
    ++g_qlen;
    g_qbytes += h->size;
#else
    size_t s = 0;
    if (g_set.take(p, s)) {
        --g_live_blocks;
        g_live_bytes -= s;
    }
    std::free(p);
#endif
}

}

void begin_run()
{
    Lock l;
    g_depth = 0;
    g_fail_at = 0;
    g_op_allocs = 0;
    g_fired = g_big = false;
    g_violation = nullptr;
    g_total = 0;
#if !SIM_ASAN
    // forget (do not free: their owners may still free them) blocks of earlier runs
    for (Hdr *h = g_head.next; h != &g_head;) {
        Hdr *n = h->next;
        h->prev = h->next = nullptr;
        h = n;
    }
    g_head.next = g_head.prev = &g_head;
    q_flush();
#else
    g_set.clear();
#endif
    g_live_blocks = g_live_bytes = 0;
}

void begin_op(long fail_at)
{
    g_fail_at = fail_at;
    g_op_allocs = 0;
    g_fired = false;
    g_big = false;
}
void end_op()
{
    g_fail_at = 0;
}
bool fault_fired()
{
    return g_fired;
}
bool refuse_if_beyond_machine(size_t size)
{
    Lock l;
    if (g_depth > 0 && size > MACHINE_LIMIT) {
        g_big = true;
        return true;
    }
    return false;
}
bool big_refused()
{
    return g_big;
}
size_t op_allocs()
{
    return g_op_allocs;
}
void enter()
{
    ++g_depth;
}
void leave()
{
    --g_depth;
}
int depth()
{
    return g_depth;
}
const char *take_violation()
{
    const char *v = g_violation;
    g_violation = nullptr;
    return v;
}
size_t live_blocks()
{
    return g_live_blocks;
}
size_t live_bytes()
{
    return g_live_bytes;
}
uint64_t total_sut_allocs()
{
    return g_total;
}
const char *check_guards()
{
#if !SIM_ASAN
    Lock l;
    for (Hdr *h = g_head.next; h != &g_head; h = h->next)
        if (h->magic != MAGIC_LIVE || !tail_ok(h))
            return "guard-damage";
#endif
    return nullptr;
}

}

using sim::alloc::do_alloc;
using sim::alloc::do_free;

void *operator new(std::size_t n)
{
    void *p = do_alloc(n, false);
    if (!p)
        throw std::bad_alloc();
    return p;
}
void *operator new[](std::size_t n)
{
    void *p = do_alloc(n, false);
    if (!p)
        throw std::bad_alloc();
    return p;
}
void *operator new(std::size_t n, const std::nothrow_t &) noexcept
{
    return do_alloc(n, true);
}
void *operator new[](std::size_t n, const std::nothrow_t &) noexcept
{
    return do_alloc(n, true);
}
void operator delete(void *p) noexcept
{
    do_free(p);
}
void operator delete[](void *p) noexcept
{
    do_free(p);
}
void operator delete(void *p, std::size_t) noexcept
{
    do_free(p);
}
void operator delete[](void *p, std::size_t) noexcept
{
    do_free(p);
}
void operator delete(void *p, const std::nothrow_t &) noexcept
{
    do_free(p);
}
void operator delete[](void *p, const std::nothrow_t &) noexcept
{
    do_free(p);
}
// over-aligned forms: not used by the pinned covfie; plain aligned_alloc, untracked - but the
// simulated machine's size applies to them too (a rewrite that allocates its storage
// over-aligned must meet the same 256 MiB machine, not the real one with its overcommit)
static bool refuse_big_aligned(std::size_t n)
{
    return sim::alloc::refuse_if_beyond_machine(n);
}
void *operator new(std::size_t n, std::align_val_t a)
{
    if (refuse_big_aligned(n))
        throw std::bad_alloc();
    void *p = std::aligned_alloc((size_t)a, (n + (size_t)a - 1) / (size_t)a * (size_t)a);
    if (!p)
        throw std::bad_alloc();
    return p;
}
void *operator new[](std::size_t n, std::align_val_t a)
{
    return operator new(n, a);
}
void operator delete(void *p, std::align_val_t) noexcept
{
    std::free(p);
}
void operator delete[](void *p, std::align_val_t) noexcept
{
    std::free(p);
}
void operator delete(void *p, std::size_t, std::align_val_t) noexcept
{
    std::free(p);
}
void operator delete[](void *p, std::size_t, std::align_val_t) noexcept
{
    std::free(p);
}
