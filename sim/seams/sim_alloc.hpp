// SimAlloc: the allocator seam (S3). Replaces global operator new/delete in
// every harness binary. Outside a "system under test" scope it is a plain
// malloc; inside it allocations are counted per operation, the k-th one can be
// made to fail, oversized requests are refused (simulated machine size), and
// blocks are tracked so that leaks, double frees, foreign frees and guard-zone
// damage are detected deterministically. Under ASan the guard/quarantine part
// is left to ASan's shadow memory.
#pragma once
#include <cstddef>
#include <cstdint>

namespace sim::alloc {

void begin_run(); // reset ids, counters, violations; flush quarantine
void begin_op(long fail_at); // per-operation allocation counter := 0; fail the fail_at-th (0 = none)
void end_op();
bool fault_fired(); // did the planned allocation failure actually happen in this op
bool big_refused(); // was a request above the simulated machine size refused in this op
bool refuse_if_beyond_machine(size_t size); // for the over-aligned forms of operator new, which are not tracked otherwise
size_t op_allocs(); // in-scope allocations performed by this op so far
void enter(); // SUT scope (nestable)
void leave();
int depth();
const char *take_violation(); // "double-free" | "foreign-free" | "guard-damage" | nullptr ; clears it
size_t live_blocks(); // blocks allocated in SUT scope during this run and not yet freed
size_t live_bytes();
const char *check_guards(); // plain builds: walk live SUT blocks, verify guard zones
uint64_t total_sut_allocs(); // since begin_run

struct Sut {
    Sut()
    {
        enter();
    }
    ~Sut()
    {
        leave();
    }
    Sut(const Sut &) = delete;
};

// thread-world callback: invoked (if set) when a block is released
extern void (*on_free)(void *p, size_t n);

constexpr size_t MACHINE_LIMIT = size_t(256) << 20;

}
