// SimDisk and the stream-buffer seams (S1, S2). covfie only ever sees
// std::istream& / std::ostream&; these buffers sit underneath and decide how
// bytes are chunked, where a writer is interrupted, where a reader meets the
// end of file or an I/O error.
#pragma once
#include <cstdint>
#include <cstring>
#include <istream>
#include <map>
#include <ostream>
#include <streambuf>
#include <vector>

namespace sim {

using Bytes = std::vector<uint8_t>;

struct SimDisk {
    std::map<int, Bytes> files; // only bytes that reached the disk survive
};

struct SimIoError {
}; // thrown by a failing refill (not a std::exception on purpose)

// Output: forwards bytes to `out` through a put area of `chunk` bytes
// (0 = unbuffered). After `tear_at` bytes in total the device accepts nothing
// more: xsputn returns a short count / overflow returns eof, so the ostream
// goes bad and the file is torn at that byte.
class SimOStreamBuf : public std::streambuf
{
public:
    SimOStreamBuf(Bytes &out, size_t chunk, long tear_at = -1)
        : m_out(out)
        , m_buf(chunk)
        , m_tear(tear_at)
    {
        if (chunk)
            setp((char *)m_buf.data(), (char *)m_buf.data() + chunk);
    }
    size_t accepted = 0; // bytes that reached the disk
    size_t calls = 0; // device writes
    bool torn = false;

protected:
    bool device_write(const char *s, size_t n)
    {
        ++calls;
        size_t room = n;
        if (m_tear >= 0) {
            size_t left = (size_t)m_tear > accepted ? (size_t)m_tear - accepted : 0;
            if (room > left)
                room = left;
        }
        m_out.insert(m_out.end(), (const uint8_t *)s, (const uint8_t *)s + room);
        accepted += room;
        if (room < n) {
            torn = true;
            return false;
        }
        return true;
    }
    bool flush_area()
    {
        size_t n = (size_t)(pptr() - pbase());
        bool ok = n ? device_write(pbase(), n) : true;
        if (!m_buf.empty())
            setp((char *)m_buf.data(), (char *)m_buf.data() + m_buf.size());
        return ok;
    }
    int_type overflow(int_type c) override
    {
        if (torn)
            return traits_type::eof();
        if (!m_buf.empty()) {
            if (!flush_area())
                return traits_type::eof();
            if (!traits_type::eq_int_type(c, traits_type::eof())) {
                *pptr() = traits_type::to_char_type(c);
                pbump(1);
            }
            return traits_type::not_eof(c);
        }
        if (traits_type::eq_int_type(c, traits_type::eof()))
            return traits_type::not_eof(c);
        char ch = traits_type::to_char_type(c);
        return device_write(&ch, 1) ? c : traits_type::eof();
    }
    std::streamsize xsputn(const char *s, std::streamsize n) override
    {
        if (torn)
            return 0;
        if (m_buf.empty()) {
            size_t before = accepted;
            device_write(s, (size_t)n);
            return (std::streamsize)(accepted - before);
        }
        std::streamsize done = 0;
        while (done < n) {
            size_t room = (size_t)(epptr() - pptr());
            if (room == 0) {
                if (!flush_area())
                    return done;
                room = (size_t)(epptr() - pptr());
            }
            size_t k = std::min<size_t>(room, (size_t)(n - done));
            std::memcpy(pptr(), s + done, k);
            pbump((int)k);
            done += (std::streamsize)k;
        }
        return done;
    }
    int sync() override
    {
        if (torn)
            return -1;
        return flush_area() ? 0 : -1;
    }

private:
    Bytes &m_out;
    Bytes m_buf;
    long m_tear;
};

// Input: serves data[start, limit) through a get area of `chunk` bytes (legal
// short reads). Fault plan: the file ends at `limit`; the refill with index
// `throw_refill` (1-based) and every later one throws SimIoError.
class SimIStreamBuf : public std::streambuf
{
public:
    SimIStreamBuf(const Bytes &data, size_t start, size_t limit, size_t chunk, long throw_refill = 0, bool seekable = false, bool live = false)
        : m_data(data)
        , m_pos(start)
        , m_limit(std::min(limit, data.size()))
        , m_buf(chunk ? chunk : 1)
        , m_throw(throw_refill)
        , m_seekable(seekable)
        , m_live(live)
    {
        setg((char *)m_buf.data(), (char *)m_buf.data(), (char *)m_buf.data());
    }
    size_t seeks = 0; // positioning calls the reader made (tellg / seekg)
    size_t refills = 0;
    size_t refill_budget = 0; // 0 = unlimited
    bool fault_fired = false; // eof reached or refill threw
    bool budget_exhausted = false;
    // bytes handed to the reader = fetched from the device minus what is still in the get area
    size_t consumed(size_t start) const
    {
        return m_pos - start - (size_t)(egptr() - gptr());
    }

protected:
    int_type underflow() override
    {
        if (gptr() < egptr())
            return traits_type::to_int_type(*gptr());
        ++refills;
        if (refill_budget && refills > refill_budget) {
            budget_exhausted = true;
            throw SimIoError{};
        }
        if (m_throw && (long)refills >= m_throw) {
            fault_fired = true;
            throw SimIoError{};
        }
        if (m_live)
            m_limit = m_data.size(); // the reading end of a pipe: whatever the writer has delivered so far
        if (m_pos >= m_limit) {
            fault_fired = true;
            return traits_type::eof();
        }
        size_t k = std::min(m_buf.size(), m_limit - m_pos);
        std::memcpy(m_buf.data(), m_data.data() + m_pos, k);
        m_pos += k;
        setg((char *)m_buf.data(), (char *)m_buf.data(), (char *)m_buf.data() + k);
        return traits_type::to_int_type(*gptr());
    }

    // A file can be positioned, a pipe cannot: per-run knob. Positions are absolute
    // offsets in the file (which may hold unrelated bytes before and after the field).
    pos_type seekoff(off_type off, std::ios_base::seekdir dir, std::ios_base::openmode which) override
    {
        ++seeks;
        if (!m_seekable || !(which & std::ios_base::in))
            return pos_type(off_type(-1));
        off_type cur = (off_type)m_pos - (off_type)(egptr() - gptr());
        off_type target = dir == std::ios_base::beg ? off : (dir == std::ios_base::cur ? cur + off : (off_type)m_limit + off);
        if (target < 0 || target > (off_type)m_limit)
            return pos_type(off_type(-1));
        if (target != cur) {
            m_pos = (size_t)target;
            setg((char *)m_buf.data(), (char *)m_buf.data(), (char *)m_buf.data());
        }
        return pos_type(target);
    }
    pos_type seekpos(pos_type pos, std::ios_base::openmode which) override
    {
        return seekoff(off_type(pos), std::ios_base::beg, which);
    }

private:
    const Bytes &m_data;
    size_t m_pos, m_limit;
    Bytes m_buf;
    long m_throw;
    bool m_seekable;
    bool m_live = false;
};

}
