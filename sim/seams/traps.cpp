// Process-death seam (S6): turn assert failures, std::terminate and sanitizer
// reports into classified exits the driver can attribute to a run.
//   78 = assertion failure in the library   77 = ASan report
//   76 = UBSan report (via abort handler)    75 = std::terminate
#include <cstdio>
#include <cstdlib>
#include <exception>
#include <unistd.h>

extern "C" void __assert_fail(const char *expr, const char *file, unsigned line, const char *func)
{
    // strip the directory part so the log does not depend on where /repo lives
    const char *base = file;
    for (const char *p = file; *p; ++p)
        if (*p == '/')
            base = p + 1;
    std::fflush(stdout);
    std::fprintf(stdout, "DEATH assert %s:%u: %s [%s]\n", base, line, expr, func ? func : "");
    std::fflush(stdout);
    _exit(78);
}

extern "C" __attribute__((used, visibility("default"))) const char *__asan_default_options()
{
    return "exitcode=77:detect_leaks=0:abort_on_error=0:allocator_may_return_null=1:"
           "detect_stack_use_after_return=0:malloc_context_size=8:max_allocation_size_mb=1024";
}
extern "C" __attribute__((used, visibility("default"))) const char *__ubsan_default_options()
{
    return "print_stacktrace=1:halt_on_error=1:exitcode=76";
}

namespace sim::alloc {
bool fault_fired();
}
namespace {
void on_terminate()
{
    std::fflush(stdout);
    // a terminate whose cause is the injected allocation failure (e.g. inside a
    // noexcept function) is an observation, not a violation: say so
    std::fprintf(stdout, "DEATH terminate fault=%d\n", sim::alloc::fault_fired() ? 1 : 0);
    std::fflush(stdout);
    _exit(75);
}
struct Install {
    Install()
    {
        std::set_terminate(on_terminate);
    }
} g_install;
}
