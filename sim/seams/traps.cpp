// Process-death seam (S6): turn assert failures, std::terminate and sanitizer
// reports into classified exits the driver can attribute to a run.
//   78 = assertion failure in the library   77 = ASan report
//   76 = UBSan report (via abort handler)    75 = std::terminate
#include <cstdio>
#include <cstdlib>
#include <exception>
#include <csignal>
#include <sys/time.h>
#include <unistd.h>

extern "C" void __assert_fail(const char *expr, const char *file, unsigned line, const char *func)
{
    // strip the directory part so the log does not depend on where /repo lives
    const char *base = file;
    for (const char *p = file; *p; ++p)
        if (*p == '/')
            base = p + 1;
    std::fflush(stdout);
    std::fprintf(stdout, "DEATH assert %s:%u: %s [%s]\n", base, line, expr, func ? func : "");
    std::fflush(stdout);
    _exit(78);
}

extern "C" __attribute__((used, visibility("default"))) const char *__asan_default_options()
{
    return "exitcode=77:detect_leaks=0:abort_on_error=0:allocator_may_return_null=1:"
           "detect_stack_use_after_return=0:malloc_context_size=8:max_allocation_size_mb=1024";
}
extern "C" __attribute__((used, visibility("default"))) const char *__ubsan_default_options()
{
    return "print_stacktrace=1:halt_on_error=1:exitcode=76";
}

namespace sim::alloc {
bool fault_fired();
}
namespace {
void on_terminate()
{
    std::fflush(stdout);
    // a terminate whose cause is the injected allocation failure (e.g. inside a
    // noexcept function) is an observation, not a violation: say so
    std::fprintf(stdout, "DEATH terminate fault=%d\n", sim::alloc::fault_fired() ? 1 : 0);
    std::fflush(stdout);
    _exit(75);
}
struct Install {
    Install()
    {
        std::set_terminate(on_terminate);
    }
} g_install;
}

// CPU-time watchdog: a loader spinning on a dead stream consumes CPU without
// ever calling the stream buffer again, so the refill budget cannot see it.
// The timer counts this process's own CPU time (ITIMER_VIRTUAL), which makes
// the verdict independent of machine load: no correct operation on a file of
// a few kilobytes needs seconds of CPU.
namespace sim {
namespace {
void on_vtalrm(int)
{
    static const char msg[] = "DEATH no-progress (CPU watchdog)\n";
    ssize_t r = write(1, msg, sizeof msg - 1);
    (void)r;
    _exit(74);
}
}
void watchdog_arm(int cpu_seconds)
{
    static bool installed = false;
    if (!installed) {
        struct sigaction sa;
        sa.sa_handler = on_vtalrm;
        sigemptyset(&sa.sa_mask);
        sa.sa_flags = 0;
        sigaction(SIGVTALRM, &sa, nullptr);
        installed = true;
    }
    struct itimerval it;
    it.it_interval.tv_sec = 0;
    it.it_interval.tv_usec = 0;
    it.it_value.tv_sec = cpu_seconds;
    it.it_value.tv_usec = 0;
    setitimer(ITIMER_VIRTUAL, &it, nullptr);
}
void watchdog_disarm()
{
    struct itimerval it = {{0, 0}, {0, 0}};
    setitimer(ITIMER_VIRTUAL, &it, nullptr);
}
}
