// Scheduler + SimTSan runtime (seam S4). The pool adapters of the threads
// world are compiled with g++ -fsanitize=thread, but linked against THIS
// implementation of the __tsan_* callbacks instead of libtsan: every load,
// store and atomic in covfie code becomes a call into the simulator, which
// records it for the happens-before analysis and may hand the baton to another
// task. Tasks are real OS threads, parked on semaphores; exactly one runs at a
// time and the seeded scheduler alone chooses which.
#pragma once
#include <cstdint>
#include <functional>
#include <string>
#include <vector>

namespace sim::thr {

constexpr int MAX_TASKS = 16;

struct Switch {
    uint64_t at; // global access counter value at which the switch happens
    int to;
};

struct RaceReport {
    bool found = false;
    int tid_a = -1, tid_b = -1; // b is the later access
    bool write_a = false, write_b = false;
    int size_b = 0;
    std::string where_a, where_b; // symbolic (function names), never addresses
    std::string object; // "heap block #id +offset" or "global"
    uint64_t count = 0; // racy accesses seen in this run
};

struct SchedConfig {
    int mode = 0; // 0 random walk, 1 explicit switches, 2 no preemption (run to completion in task order), 3 round-robin at every yield point, 4 PCT
    int pct_depth = 2; // PCT: number of priority change points + 1
    uint64_t pct_horizon = 4000; // PCT: change points are drawn from [0, horizon) yield points
    double yield_prob = 0.01;
    uint64_t seed = 1;
    std::vector<Switch> explicit_switches;
};

struct RunStats {
    uint64_t accesses = 0; // instrumented accesses by tasks
    uint64_t tracked = 0; // of which outside the task's own stack
    uint64_t yields = 0; // yield points offered
    uint64_t switches = 0; // context switches taken
    uint64_t preempt_in_lookup = 0; // switches taken inside a library call (not at an operation boundary)
    uint64_t atomics = 0, mutex_ops = 0, guard_ops = 0;
    uint64_t sched_hash = 0; // hash of the (at, from, to) sequence
    bool deadlock = false;
    std::vector<Switch> taken;
};

// Run `ntasks` task bodies to completion under the scheduler. body(t) is
// executed by task t's own thread.
void run_tasks(int ntasks, const std::function<void(int)> &body, const SchedConfig &cfg, RunStats &stats, RaceReport &race);

// Called by task bodies at operation boundaries.
void op_boundary(bool entering_library);

int current_task(); // -1 outside tasks

}
