// See simtsan.hpp. Compiled WITHOUT -fsanitize=thread.
#include "simtsan.hpp"

#include <algorithm>
#include <atomic>
#include <cstdio>
#include <cstdlib>
#include <cstring>
#include <cxxabi.h>
#include <dlfcn.h>
#include <map>
#include <pthread.h>
#include <semaphore.h>
#include <unistd.h>
#include <unordered_map>

#include "../core/rng.hpp"
#include "../seams/sim_alloc.hpp"

namespace sim::thr {

namespace {

enum TaskState { T_RUNNABLE, T_BLOCKED, T_DONE };

struct VC {
    uint32_t c[MAX_TASKS];
    void clear()
    {
        std::memset(c, 0, sizeof c);
    }
    void join(const VC &o)
    {
        for (int i = 0; i < MAX_TASKS; ++i)
            c[i] = std::max(c[i], o.c[i]);
    }
};

struct Task {
    int id = 0;
    sem_t sem;
    int state = T_DONE;
    VC vc;
    uintptr_t stack_lo = 0, stack_hi = 0;
    void *frames[64];
    int depth = 0;
    const void *blocked_on = nullptr;
    bool in_library = false;
    pthread_t th;
};

struct Access {
    uint32_t clk = 0;
    uint32_t site = 0;
    void *pc = nullptr; // address of the instrumented access itself (resolves to the inlined covfie line)
};
struct Cell {
    int w_tid = -1;
    Access w;
    Access r[MAX_TASKS];
};
struct SyncVar {
    VC vc;
    int owner = -1; // mutex owner / guard initialiser
    int state = 0; // guard: 0 uninit 1 in progress 2 done; once likewise
    bool has = false;
};

Task g_tasks[MAX_TASKS];
int g_ntasks = 0;
int g_cur = -1;
bool g_parallel = false;
sem_t g_main_sem;
const std::function<void(int)> *g_body = nullptr;
SchedConfig g_cfg;
RunStats *g_stats = nullptr;
RaceReport *g_race = nullptr;
Rng g_rng(1);
uint64_t g_counter = 0;
size_t g_next_switch = 0;
Hash g_sched_hash;
int g_rr = 0;
int g_prio[MAX_TASKS];
std::vector<uint64_t> g_pct_points;
int g_pct_low = 0;

std::unordered_map<uintptr_t, Cell> *g_shadow = nullptr;
std::unordered_map<const void *, SyncVar> *g_sync = nullptr;
std::vector<std::vector<void *>> *g_sites = nullptr;
std::map<std::vector<void *>, uint32_t> *g_site_index = nullptr;

thread_local int tl_task = -1;
thread_local bool tl_in_rt = false; // re-entrancy guard (runtime's own allocations etc.)

struct InRt {
    bool prev;
    InRt()
        : prev(tl_in_rt)
    {
        tl_in_rt = true;
    }
    ~InRt()
    {
        tl_in_rt = prev;
    }
};

std::string symbol_of(void *pc)
{
    Dl_info info;
    if (dladdr(pc, &info) && info.dli_sname) {
        int st = 0;
        char *dem = abi::__cxa_demangle(info.dli_sname, nullptr, nullptr, &st);
        std::string s = (st == 0 && dem) ? dem : info.dli_sname;
        std::free(dem);
        // keep it short and free of template noise
        auto lt = s.find('<');
        std::string head = s.substr(0, lt == std::string::npos ? s.size() : lt);
        auto at = s.rfind("::at(");
        if (at != std::string::npos)
            head += " ... ::at";
        if (s.size() > 160)
            s = s.substr(0, 160) + "...";
        return s;
    }
    if (info.dli_fbase) {
        // no dynamic symbol (inlined into an adapter with internal linkage): give the
        // offset inside the executable, which the driver resolves with addr2line
        char buf[40];
        std::snprintf(buf, sizeof buf, "@0x%lx", (unsigned long)((uintptr_t)pc - (uintptr_t)info.dli_fbase - 1));
        return buf;
    }
    return "?";
}

uint32_t site_of(Task &t)
{
    std::vector<void *> key;
    for (int i = t.depth - 1; i >= 0 && key.size() < 4; --i)
        key.push_back(t.frames[i]);
    auto it = g_site_index->find(key);
    if (it != g_site_index->end())
        return it->second;
    uint32_t id = (uint32_t)g_sites->size();
    g_sites->push_back(key);
    (*g_site_index)[key] = id;
    return id;
}

std::string site_text(uint32_t site)
{
    std::string s;
    if (site >= g_sites->size())
        return "?";
    for (void *pc : (*g_sites)[site]) {
        if (!s.empty())
            s += " <- ";
        s += symbol_of(pc);
    }
    return s.empty() ? "(no frame)" : s;
}

std::vector<int> runnable()
{
    std::vector<int> v;
    for (int i = 0; i < g_ntasks; ++i)
        if (g_tasks[i].state == T_RUNNABLE)
            v.push_back(i);
    return v;
}

void hand_over(int me, int to)
{
    // me may be -1 (task finished / blocked handled by caller)
    g_cur = to;
    ++g_stats->switches;
    g_sched_hash.u64(g_counter);
    g_sched_hash.u64((uint64_t)(me + 1));
    g_sched_hash.u64((uint64_t)(to + 1));
    if (g_stats->taken.size() < 100000)
        g_stats->taken.push_back(Switch{g_counter, to});
    sem_post(&g_tasks[to].sem);
}

void switch_from(Task &t, int to)
{
    if (to == t.id)
        return;
    if (t.in_library)
        ++g_stats->preempt_in_lookup;
    hand_over(t.id, to);
    sem_wait(&t.sem);
}

// a yield point: the scheduler may move the baton
void yield_point(Task &t)
{
    ++g_stats->yields;
    int to = t.id;
    switch (g_cfg.mode) {
    case 0:
        if (g_cfg.yield_prob > 0 && g_rng.chance(g_cfg.yield_prob)) {
            auto r = runnable();
            to = r[g_rng.below(r.size())];
        }
        break;
    case 1:
        while (g_next_switch < g_cfg.explicit_switches.size() && g_cfg.explicit_switches[g_next_switch].at < g_counter)
            ++g_next_switch;
        if (g_next_switch < g_cfg.explicit_switches.size() && g_cfg.explicit_switches[g_next_switch].at == g_counter) {
            int cand = g_cfg.explicit_switches[g_next_switch].to;
            ++g_next_switch;
            if (cand >= 0 && cand < g_ntasks && g_tasks[cand].state == T_RUNNABLE)
                to = cand;
        }
        break;
    case 2:
        break;
    case 4: {
        // PCT (Burckhardt et al.): run the highest-priority runnable task; at each of the
        // d-1 pre-drawn change points the running task drops below everybody else
        for (uint64_t cp : g_pct_points)
            if (cp == g_stats->yields)
                g_prio[t.id] = --g_pct_low;
        auto r = runnable();
        int best = t.id;
        for (int k : r)
            if (g_prio[k] > g_prio[best] || g_tasks[best].state != T_RUNNABLE)
                best = k;
        to = best;
        break;
    }
    case 3: {
        auto r = runnable();
        g_rr = (g_rr + 1) % (int)r.size();
        to = r[g_rr];
        break;
    }
    }
    switch_from(t, to);
}

// current task cannot continue (blocked or done): somebody else must run
void relinquish(Task &t, bool wait_after)
{
    auto r = runnable();
    if (r.empty()) {
        bool all_done = true;
        for (int i = 0; i < g_ntasks; ++i)
            if (g_tasks[i].state != T_DONE)
                all_done = false;
        if (!all_done)
            g_stats->deadlock = true;
        g_cur = -1;
        sem_post(&g_main_sem);
    } else {
        int to = g_cfg.mode == 0 ? r[g_rng.below(r.size())] : r[0];
        if (g_cfg.mode == 4)
            for (int k : r)
                if (g_prio[k] > g_prio[to])
                    to = k;
        hand_over(t.id, to);
    }
    if (wait_after)
        sem_wait(&t.sem);
}

void report_race(Task &t, uintptr_t addr, int tid_a, const Access &a, bool write_a, bool write_b, int size, void *pc_b)
{
    ++g_race->count;
    if (g_race->found)
        return;
    g_race->found = true;
    g_race->tid_a = tid_a;
    g_race->tid_b = t.id;
    g_race->write_a = write_a;
    g_race->write_b = write_b;
    g_race->size_b = size;
    g_race->where_a = symbol_of(a.pc) + " <- " + site_text(a.site);
    g_race->where_b = symbol_of(pc_b) + " <- " + site_text(site_of(t));
    (void)addr;
    g_race->object = "shared memory outside the tasks' own stacks";
}

void on_access(void *p, size_t n, bool write, void *pc)
{
    if (tl_task < 0 || !g_parallel || tl_in_rt)
        return;
    InRt guard;
    Task &t = g_tasks[tl_task];
    ++g_counter;
    ++g_stats->accesses;
    uintptr_t a = (uintptr_t)p;
    if (!(a >= t.stack_lo && a < t.stack_hi)) {
        ++g_stats->tracked;
        uint32_t site = site_of(t);
        uint32_t myclk = t.vc.c[t.id];
        for (size_t i = 0; i < n; ++i) {
            Cell &c = (*g_shadow)[a + i];
            if (c.w_tid >= 0 && c.w_tid != t.id && c.w.clk > t.vc.c[c.w_tid])
                report_race(t, a + i, c.w_tid, c.w, true, write, (int)n, pc);
            if (write) {
                for (int k = 0; k < g_ntasks; ++k)
                    if (k != t.id && c.r[k].clk > t.vc.c[k])
                        report_race(t, a + i, k, c.r[k], false, true, (int)n, pc);
                c.w_tid = t.id;
                c.w.clk = myclk;
                c.w.site = site;
                c.w.pc = pc;
                for (int k = 0; k < g_ntasks; ++k)
                    c.r[k].clk = 0;
            } else {
                c.r[t.id].clk = myclk;
                c.r[t.id].site = site;
                c.r[t.id].pc = pc;
            }
        }
    }
    yield_point(t);
}

void acquire(Task &t, const void *addr)
{
    auto it = g_sync->find(addr);
    if (it != g_sync->end() && it->second.has)
        t.vc.join(it->second.vc);
}
void release(Task &t, const void *addr)
{
    SyncVar &s = (*g_sync)[addr];
    s.vc.join(t.vc);
    s.has = true;
    ++t.vc.c[t.id];
}

void wake_blocked_on(const void *addr)
{
    for (int i = 0; i < g_ntasks; ++i)
        if (g_tasks[i].state == T_BLOCKED && g_tasks[i].blocked_on == addr) {
            g_tasks[i].state = T_RUNNABLE;
            g_tasks[i].blocked_on = nullptr;
        }
}

void free_hook(void *p, size_t n)
{
    if (!g_parallel || !g_shadow || tl_in_rt)
        return;
    InRt guard;
    for (size_t i = 0; i < n; ++i)
        g_shadow->erase((uintptr_t)p + i);
}

void *task_main(void *arg)
{
    Task &t = *(Task *)arg;
    tl_task = t.id;
    pthread_attr_t attr;
    if (pthread_getattr_np(pthread_self(), &attr) == 0) {
        void *addr = nullptr;
        size_t size = 0;
        pthread_attr_getstack(&attr, &addr, &size);
        t.stack_lo = (uintptr_t)addr;
        t.stack_hi = (uintptr_t)addr + size;
        pthread_attr_destroy(&attr);
    }
    sem_wait(&t.sem); // parked until the scheduler picks this task
    (*g_body)(t.id);
    {
        InRt guard;
        t.state = T_DONE;
        relinquish(t, false);
    }
    tl_task = -1;
    return nullptr;
}

}

int current_task()
{
    return tl_task;
}

void op_boundary(bool entering_library)
{
    if (tl_task < 0 || !g_parallel)
        return;
    InRt guard;
    Task &t = g_tasks[tl_task];
    t.in_library = false;
    ++g_counter;
    yield_point(t);
    t.in_library = entering_library;
}

void run_tasks(int ntasks, const std::function<void(int)> &body, const SchedConfig &cfg, RunStats &stats, RaceReport &race)
{
    static std::unordered_map<uintptr_t, Cell> shadow;
    static std::unordered_map<const void *, SyncVar> sync;
    static std::vector<std::vector<void *>> sites;
    static std::map<std::vector<void *>, uint32_t> site_index;
    shadow.clear();
    sync.clear();
    sites.clear();
    site_index.clear();
    g_shadow = &shadow;
    g_sync = &sync;
    g_sites = &sites;
    g_site_index = &site_index;
    g_ntasks = ntasks;
    g_body = &body;
    g_cfg = cfg;
    g_stats = &stats;
    g_race = &race;
    g_rng.reseed(cfg.seed);
    g_counter = 0;
    g_next_switch = 0;
    g_sched_hash = Hash();
    g_rr = 0;
    stats = RunStats();
    race = RaceReport();
    sem_init(&g_main_sem, 0, 0);
    for (int i = 0; i < ntasks; ++i) {
        Task &t = g_tasks[i];
        t.id = i;
        t.state = T_RUNNABLE;
        t.vc.clear();
        t.vc.c[i] = 1;
        t.depth = 0;
        t.blocked_on = nullptr;
        t.in_library = false;
        sem_init(&t.sem, 0, 0);
    }
    // PCT state: a random permutation of priorities and d-1 change points
    for (int i = 0; i < ntasks; ++i)
        g_prio[i] = i + 1;
    for (int i = ntasks - 1; i > 0; --i)
        std::swap(g_prio[i], g_prio[g_rng.below((uint64_t)i + 1)]);
    g_pct_points.clear();
    g_pct_low = 0;
    if (cfg.mode == 4)
        for (int i = 1; i < cfg.pct_depth; ++i)
            g_pct_points.push_back(g_rng.below(cfg.pct_horizon ? cfg.pct_horizon : 1));
    sim::alloc::on_free = &free_hook;
    for (int i = 0; i < ntasks; ++i)
        pthread_create(&g_tasks[i].th, nullptr, &task_main, &g_tasks[i]);
    g_parallel = true;
    int first = cfg.mode == 0 ? (int)g_rng.below((uint64_t)ntasks) : 0;
    if (cfg.mode == 4)
        for (int i = 0; i < ntasks; ++i)
            if (g_prio[i] > g_prio[first])
                first = i;
    g_cur = first;
    sem_post(&g_tasks[first].sem);
    sem_wait(&g_main_sem);
    g_parallel = false;
    for (int i = 0; i < ntasks; ++i) {
        if (g_tasks[i].state != T_DONE) {
            // deadlock: the stuck threads cannot be joined; detach them
            pthread_detach(g_tasks[i].th);
        } else
            pthread_join(g_tasks[i].th, nullptr);
        sem_destroy(&g_tasks[i].sem);
    }
    sem_destroy(&g_main_sem);
    sim::alloc::on_free = nullptr;
    stats.sched_hash = g_sched_hash.h;
}

}

using namespace sim::thr;

// ------------------------------------------------------------------ compiler callbacks
extern "C" {

void __tsan_init()
{
}
void __tsan_func_entry(void *pc)
{
    if (tl_task < 0 || tl_in_rt)
        return;
    Task &t = g_tasks[tl_task];
    if (t.depth < 64)
        t.frames[t.depth] = pc;
    ++t.depth;
}
void __tsan_func_exit()
{
    if (tl_task < 0 || tl_in_rt)
        return;
    Task &t = g_tasks[tl_task];
    if (t.depth > 0)
        --t.depth;
}
#define RW(n)                                                                                                          \
    void __tsan_read##n(void *a)                                                                                       \
    {                                                                                                                  \
        on_access(a, n, false, __builtin_return_address(0));                                                                                        \
    }                                                                                                                  \
    void __tsan_write##n(void *a)                                                                                      \
    {                                                                                                                  \
        on_access(a, n, true, __builtin_return_address(0));                                                                                         \
    }                                                                                                                  \
    void __tsan_unaligned_read##n(void *a)                                                                             \
    {                                                                                                                  \
        on_access(a, n, false, __builtin_return_address(0));                                                                                        \
    }                                                                                                                  \
    void __tsan_unaligned_write##n(void *a)                                                                            \
    {                                                                                                                  \
        on_access(a, n, true, __builtin_return_address(0));                                                                                         \
    }
RW(1)
RW(2)
RW(4)
RW(8)
RW(16)
void __tsan_read_range(void *a, long n)
{
    on_access(a, (size_t)n, false, __builtin_return_address(0));
}
void __tsan_write_range(void *a, long n)
{
    on_access(a, (size_t)n, true, __builtin_return_address(0));
}
void __tsan_vptr_update(void **vptr, void *)
{
    on_access(vptr, sizeof(void *), true, __builtin_return_address(0));
}
void __tsan_vptr_read(void **vptr)
{
    on_access(vptr, sizeof(void *), false, __builtin_return_address(0));
}
void __tsan_read_write1(void *a)
{
    on_access(a, 1, true, __builtin_return_address(0));
}
void __tsan_read_write2(void *a)
{
    on_access(a, 2, true, __builtin_return_address(0));
}
void __tsan_read_write4(void *a)
{
    on_access(a, 4, true, __builtin_return_address(0));
}
void __tsan_read_write8(void *a)
{
    on_access(a, 8, true, __builtin_return_address(0));
}
void __tsan_read_write16(void *a)
{
    on_access(a, 16, true, __builtin_return_address(0));
}

// ---- atomics: executed for real, and modelled as synchronisation
static inline bool is_acq(int mo)
{
    return mo == __ATOMIC_ACQUIRE || mo == __ATOMIC_CONSUME || mo == __ATOMIC_ACQ_REL || mo == __ATOMIC_SEQ_CST;
}
static inline bool is_rel(int mo)
{
    return mo == __ATOMIC_RELEASE || mo == __ATOMIC_ACQ_REL || mo == __ATOMIC_SEQ_CST;
}
static void atomic_event(const volatile void *a, int mo, bool load, bool store)
{
    if (tl_task < 0 || !g_parallel || tl_in_rt)
        return;
    InRt guard;
    Task &t = g_tasks[tl_task];
    ++g_stats->atomics;
    ++g_counter;
    if (load && is_acq(mo))
        acquire(t, (const void *)a);
    if (store && is_rel(mo))
        release(t, (const void *)a);
    yield_point(t);
}

#define ATOMICS(bits, T)                                                                                               \
    T __tsan_atomic##bits##_load(const volatile T *a, int mo)                                                          \
    {                                                                                                                  \
        T v = __atomic_load_n(a, __ATOMIC_SEQ_CST);                                                                    \
        atomic_event(a, mo, true, false);                                                                              \
        return v;                                                                                                      \
    }                                                                                                                  \
    void __tsan_atomic##bits##_store(volatile T *a, T v, int mo)                                                       \
    {                                                                                                                  \
        atomic_event(a, mo, false, true);                                                                              \
        __atomic_store_n(a, v, __ATOMIC_SEQ_CST);                                                                      \
    }                                                                                                                  \
    T __tsan_atomic##bits##_exchange(volatile T *a, T v, int mo)                                                       \
    {                                                                                                                  \
        atomic_event(a, mo, true, true);                                                                               \
        return __atomic_exchange_n(a, v, __ATOMIC_SEQ_CST);                                                            \
    }                                                                                                                  \
    T __tsan_atomic##bits##_fetch_add(volatile T *a, T v, int mo)                                                      \
    {                                                                                                                  \
        atomic_event(a, mo, true, true);                                                                               \
        return __atomic_fetch_add(a, v, __ATOMIC_SEQ_CST);                                                             \
    }                                                                                                                  \
    T __tsan_atomic##bits##_fetch_sub(volatile T *a, T v, int mo)                                                      \
    {                                                                                                                  \
        atomic_event(a, mo, true, true);                                                                               \
        return __atomic_fetch_sub(a, v, __ATOMIC_SEQ_CST);                                                             \
    }                                                                                                                  \
    T __tsan_atomic##bits##_fetch_and(volatile T *a, T v, int mo)                                                      \
    {                                                                                                                  \
        atomic_event(a, mo, true, true);                                                                               \
        return __atomic_fetch_and(a, v, __ATOMIC_SEQ_CST);                                                             \
    }                                                                                                                  \
    T __tsan_atomic##bits##_fetch_or(volatile T *a, T v, int mo)                                                       \
    {                                                                                                                  \
        atomic_event(a, mo, true, true);                                                                               \
        return __atomic_fetch_or(a, v, __ATOMIC_SEQ_CST);                                                              \
    }                                                                                                                  \
    T __tsan_atomic##bits##_fetch_xor(volatile T *a, T v, int mo)                                                      \
    {                                                                                                                  \
        atomic_event(a, mo, true, true);                                                                               \
        return __atomic_fetch_xor(a, v, __ATOMIC_SEQ_CST);                                                             \
    }                                                                                                                  \
    T __tsan_atomic##bits##_fetch_nand(volatile T *a, T v, int mo)                                                     \
    {                                                                                                                  \
        atomic_event(a, mo, true, true);                                                                               \
        return __atomic_fetch_nand(a, v, __ATOMIC_SEQ_CST);                                                            \
    }                                                                                                                  \
    int __tsan_atomic##bits##_compare_exchange_strong(volatile T *a, T *c, T v, int mo, int)                           \
    {                                                                                                                  \
        atomic_event(a, mo, true, true);                                                                               \
        return __atomic_compare_exchange_n(a, c, v, 0, __ATOMIC_SEQ_CST, __ATOMIC_SEQ_CST);                            \
    }                                                                                                                  \
    int __tsan_atomic##bits##_compare_exchange_weak(volatile T *a, T *c, T v, int mo, int)                             \
    {                                                                                                                  \
        atomic_event(a, mo, true, true);                                                                               \
        return __atomic_compare_exchange_n(a, c, v, 0, __ATOMIC_SEQ_CST, __ATOMIC_SEQ_CST);                            \
    }                                                                                                                  \
    T __tsan_atomic##bits##_compare_exchange_val(volatile T *a, T c, T v, int mo, int)                                 \
    {                                                                                                                  \
        atomic_event(a, mo, true, true);                                                                               \
        __atomic_compare_exchange_n(a, &c, v, 0, __ATOMIC_SEQ_CST, __ATOMIC_SEQ_CST);                                  \
        return c;                                                                                                      \
    }
ATOMICS(8, unsigned char)
ATOMICS(16, unsigned short)
ATOMICS(32, unsigned int)
ATOMICS(64, unsigned long)
void __tsan_atomic_thread_fence(int)
{
    __atomic_thread_fence(__ATOMIC_SEQ_CST);
}
void __tsan_atomic_signal_fence(int)
{
}

// ---- wrapped synchronisation primitives (references from the instrumented TUs only)
int __real_pthread_mutex_lock(pthread_mutex_t *);
int __real_pthread_mutex_unlock(pthread_mutex_t *);
int __real_pthread_mutex_trylock(pthread_mutex_t *);
int __real___cxa_guard_acquire(long long *);
void __real___cxa_guard_release(long long *);
void __real___cxa_guard_abort(long long *);
int __real_pthread_once(pthread_once_t *, void (*)(void));

int __wrap_pthread_mutex_lock(pthread_mutex_t *m)
{
    if (tl_task < 0 || !g_parallel || tl_in_rt)
        return __real_pthread_mutex_lock(m);
    InRt guard;
    Task &t = g_tasks[tl_task];
    ++g_stats->mutex_ops;
    ++g_counter;
    yield_point(t);
    for (;;) {
        SyncVar &s = (*g_sync)[m];
        if (s.owner < 0) {
            s.owner = t.id;
            if (s.has)
                t.vc.join(s.vc);
            return 0;
        }
        t.state = T_BLOCKED;
        t.blocked_on = m;
        relinquish(t, true);
    }
}
int __wrap_pthread_mutex_trylock(pthread_mutex_t *m)
{
    if (tl_task < 0 || !g_parallel || tl_in_rt)
        return __real_pthread_mutex_trylock(m);
    InRt guard;
    Task &t = g_tasks[tl_task];
    ++g_stats->mutex_ops;
    SyncVar &s = (*g_sync)[m];
    if (s.owner < 0) {
        s.owner = t.id;
        if (s.has)
            t.vc.join(s.vc);
        return 0;
    }
    return 16; // EBUSY
}
int __wrap_pthread_mutex_unlock(pthread_mutex_t *m)
{
    if (tl_task < 0 || !g_parallel || tl_in_rt)
        return __real_pthread_mutex_unlock(m);
    InRt guard;
    Task &t = g_tasks[tl_task];
    ++g_stats->mutex_ops;
    SyncVar &s = (*g_sync)[m];
    s.owner = -1;
    s.vc.join(t.vc);
    s.has = true;
    ++t.vc.c[t.id];
    wake_blocked_on(m);
    ++g_counter;
    yield_point(t);
    return 0;
}
int __wrap___cxa_guard_acquire(long long *g)
{
    if (tl_task < 0 || !g_parallel || tl_in_rt)
        return __real___cxa_guard_acquire(g);
    InRt guard;
    Task &t = g_tasks[tl_task];
    ++g_stats->guard_ops;
    for (;;) {
        if (*(volatile char *)g != 0) {
            acquire(t, g);
            return 0;
        }
        SyncVar &s = (*g_sync)[g];
        if (s.state == 0) {
            s.state = 1;
            s.owner = t.id;
            return 1;
        }
        if (s.state == 2) {
            acquire(t, g);
            return 0;
        }
        t.state = T_BLOCKED;
        t.blocked_on = g;
        relinquish(t, true);
    }
}
void __wrap___cxa_guard_release(long long *g)
{
    if (tl_task < 0 || !g_parallel || tl_in_rt) {
        __real___cxa_guard_release(g);
        return;
    }
    InRt guard;
    Task &t = g_tasks[tl_task];
    SyncVar &s = (*g_sync)[g];
    s.state = 2;
    s.owner = -1;
    release(t, g);
    *(volatile char *)g = 1;
    wake_blocked_on(g);
}
void __wrap___cxa_guard_abort(long long *g)
{
    if (tl_task < 0 || !g_parallel || tl_in_rt) {
        __real___cxa_guard_abort(g);
        return;
    }
    InRt guard;
    SyncVar &s = (*g_sync)[g];
    s.state = 0;
    s.owner = -1;
    wake_blocked_on(g);
}
// ---- reader/writer locks: modelled as a lock with a reader count
int __real_pthread_rwlock_rdlock(pthread_rwlock_t *);
int __real_pthread_rwlock_wrlock(pthread_rwlock_t *);
int __real_pthread_rwlock_unlock(pthread_rwlock_t *);
int __real_pthread_rwlock_tryrdlock(pthread_rwlock_t *);
int __real_pthread_rwlock_trywrlock(pthread_rwlock_t *);
static int rw_acquire(pthread_rwlock_t *l, bool write, bool try_only)
{
    InRt guard;
    Task &t = g_tasks[tl_task];
    ++g_stats->mutex_ops;
    ++g_counter;
    if (!try_only)
        yield_point(t);
    for (;;) {
        SyncVar &s = (*g_sync)[l];
        // state = number of readers; owner = writer task or -1
        bool free_for_me = write ? (s.owner < 0 && s.state == 0) : (s.owner < 0);
        if (free_for_me) {
            if (write)
                s.owner = t.id;
            else
                ++s.state;
            if (s.has)
                t.vc.join(s.vc);
            return 0;
        }
        if (try_only)
            return 16; // EBUSY
        t.state = T_BLOCKED;
        t.blocked_on = l;
        relinquish(t, true);
    }
}
int __wrap_pthread_rwlock_rdlock(pthread_rwlock_t *l)
{
    if (tl_task < 0 || !g_parallel || tl_in_rt)
        return __real_pthread_rwlock_rdlock(l);
    return rw_acquire(l, false, false);
}
int __wrap_pthread_rwlock_wrlock(pthread_rwlock_t *l)
{
    if (tl_task < 0 || !g_parallel || tl_in_rt)
        return __real_pthread_rwlock_wrlock(l);
    return rw_acquire(l, true, false);
}
int __wrap_pthread_rwlock_tryrdlock(pthread_rwlock_t *l)
{
    if (tl_task < 0 || !g_parallel || tl_in_rt)
        return __real_pthread_rwlock_tryrdlock(l);
    return rw_acquire(l, false, true);
}
int __wrap_pthread_rwlock_trywrlock(pthread_rwlock_t *l)
{
    if (tl_task < 0 || !g_parallel || tl_in_rt)
        return __real_pthread_rwlock_trywrlock(l);
    return rw_acquire(l, true, true);
}
int __wrap_pthread_rwlock_unlock(pthread_rwlock_t *l)
{
    if (tl_task < 0 || !g_parallel || tl_in_rt)
        return __real_pthread_rwlock_unlock(l);
    InRt guard;
    Task &t = g_tasks[tl_task];
    ++g_stats->mutex_ops;
    SyncVar &s = (*g_sync)[l];
    if (s.owner == t.id)
        s.owner = -1;
    else if (s.state > 0)
        --s.state;
    s.vc.join(t.vc);
    s.has = true;
    ++t.vc.c[t.id];
    wake_blocked_on(l);
    ++g_counter;
    yield_point(t);
    return 0;
}
// ---- primitives the runtime does not model: say so instead of hanging or guessing
int __real_pthread_cond_wait(pthread_cond_t *, pthread_mutex_t *);
int __wrap_pthread_cond_wait(pthread_cond_t *c, pthread_mutex_t *m)
{
    if (tl_task < 0 || !g_parallel || tl_in_rt)
        return __real_pthread_cond_wait(c, m);
    static const char msg[] = "UNMODELLED pthread_cond_wait inside a task: the thread simulator does not model condition variables\n";
    ssize_t r = write(1, msg, sizeof msg - 1);
    (void)r;
    _exit(73);
}

int __wrap_pthread_once(pthread_once_t *o, void (*fn)(void))
{
    if (tl_task < 0 || !g_parallel || tl_in_rt)
        return __real_pthread_once(o, fn);
    Task &t = g_tasks[tl_task];
    for (;;) {
        bool run_it = false;
        {
            InRt guard;
            SyncVar &s = (*g_sync)[o];
            if (s.state == 2) {
                acquire(t, o);
                return 0;
            }
            if (s.state == 0) {
                s.state = 1;
                s.owner = t.id;
                run_it = true;
            } else {
                t.state = T_BLOCKED;
                t.blocked_on = o;
                relinquish(t, true);
            }
        }
        if (run_it) {
            fn();
            InRt guard;
            SyncVar &s = (*g_sync)[o];
            s.state = 2;
            release(t, o);
            wake_blocked_on(o);
            return 0;
        }
    }
}
}
