// Shared plumbing of the world binaries: argument parsing, the progress page
// the supervisor reads after a worker death, counters for the evidence.
#pragma once
#include <cstdio>
#include <cstdlib>
#include <cstring>
#include <fcntl.h>
#include <map>
#include <set>
#include <sstream>
#include <string>
#include <sys/mman.h>
#include <unistd.h>
#include <vector>

#include "../core/rng.hpp"
#include "../pool/slot_ops.hpp"

namespace sim {

void watchdog_arm(int cpu_seconds); // traps.cpp
void watchdog_disarm();

struct Args {
    std::map<std::string, std::string> kv;
    std::vector<std::string> pos;
    Args(int argc, char **argv)
    {
        for (int i = 1; i < argc; ++i) {
            std::string a = argv[i];
            if (a.rfind("--", 0) == 0) {
                std::string k = a.substr(2), v = "1";
                auto eq = k.find('=');
                if (eq != std::string::npos) {
                    v = k.substr(eq + 1);
                    k = k.substr(0, eq);
                } else if (i + 1 < argc && std::strncmp(argv[i + 1], "--", 2) != 0) {
                    v = argv[++i];
                }
                kv[k] = v;
            } else
                pos.push_back(a);
        }
    }
    bool has(const std::string &k) const
    {
        return kv.count(k) > 0;
    }
    std::string str(const std::string &k, const std::string &def = "") const
    {
        auto it = kv.find(k);
        return it == kv.end() ? def : it->second;
    }
    uint64_t u64(const std::string &k, uint64_t def = 0) const
    {
        auto it = kv.find(k);
        return it == kv.end() ? def : std::strtoull(it->second.c_str(), nullptr, 10);
    }
};

// One page shared with the supervisor: where the worker is right now.
struct Progress {
    volatile uint64_t run, seed, op, op_kind, fault_kind, stack, unit;
};
inline Progress *map_progress(const std::string &path)
{
    static Progress dummy;
    if (path.empty())
        return &dummy;
    int fd = open(path.c_str(), O_RDWR | O_CREAT, 0644);
    if (fd < 0)
        return &dummy;
    if (ftruncate(fd, 4096) != 0) {
        close(fd);
        return &dummy;
    }
    void *p = mmap(nullptr, 4096, PROT_READ | PROT_WRITE, MAP_SHARED, fd, 0);
    close(fd);
    return p == MAP_FAILED ? &dummy : (Progress *)p;
}

struct Counters {
    std::map<std::string, uint64_t> c;
    void inc(const std::string &k, uint64_t n = 1)
    {
        c[k] += n;
    }
    std::string json() const
    {
        std::ostringstream o;
        o << "{";
        bool first = true;
        for (auto &kv : c) {
            if (!first)
                o << ",";
            first = false;
            o << "\"" << kv.first << "\":" << kv.second;
        }
        o << "}";
        return o.str();
    }
};

// stack:group pairs that did not compile (passed by the driver so that every
// build configuration generates the same plans)
struct Disabled {
    std::set<std::string> s;
    void parse(const std::string &csv)
    {
        std::stringstream ss(csv);
        std::string t;
        while (std::getline(ss, t, ','))
            if (!t.empty())
                s.insert(t);
    }
    bool core(const StackDesc &d) const
    {
        return s.count(std::string(d.id) + ":core") > 0;
    }
    bool io(const StackDesc &d) const
    {
        return s.count(std::string(d.id) + ":io") > 0;
    }
    bool thr(const StackDesc &d) const
    {
        return s.count(std::string(d.id) + ":thr") > 0;
    }
    bool conv(const StackDesc &dst, const StackDesc &src) const
    {
        return s.count(std::string(dst.id) + ":conv:" + src.id) > 0;
    }
};

inline std::vector<std::string> split_ws(const std::string &line)
{
    std::vector<std::string> out;
    std::istringstream is(line);
    std::string t;
    while (is >> t)
        out.push_back(t);
    return out;
}

}
