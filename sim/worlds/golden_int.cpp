// see golden_int.hpp
#include <covfie/core/backend/primitive/array.hpp>
#include <covfie/core/backend/transformer/morton.hpp>
#include <covfie/core/backend/transformer/strided.hpp>
#include <covfie/core/field.hpp>
#include <covfie/core/vector.hpp>

#include "golden_int.hpp"

namespace {
namespace cb = covfie::backend;
namespace cv = covfie::vector;

template <class V, std::size_t... I>
auto at_(const V &v, const std::size_t *c, std::index_sequence<I...>)
{
    return v.at(c[I]...);
}

template <class B, int N>
bool run(std::istream &is, const std::vector<std::size_t> &ext, int M, std::vector<long double> &out, std::string &what)
{
    try {
        covfie::field<B> f(is);
        typename covfie::field<B>::view_t v(f);
        std::size_t vol = 1;
        for (auto e : ext)
            vol *= e;
        std::vector<std::size_t> c(ext.size(), 0);
        for (std::size_t lin = 0; lin < vol; ++lin) {
            auto cell = at_(v, c.data(), std::make_index_sequence<N>{});
            for (int j = 0; j < M; ++j)
                out.push_back((long double)cell[(std::size_t)j]);
            for (std::size_t k = ext.size(); k-- > 0;) {
                if (++c[k] < ext[k])
                    break;
                c[k] = 0;
            }
        }
        return true;
    } catch (const std::exception &e) {
        what = e.what();
    } catch (...) {
        what = "unknown exception";
    }
    return false;
}

template <class T, std::size_t M>
using arr = cb::array<cv::vector_d<T, M>>;

const sim::IntTwin twins[] = {
    {"arr_f1", "array<int1>", sim::IS_I32, &run<arr<int, 1>, 1>},
    {"arr_f1", "array<ulong1>", sim::IS_U64, &run<arr<std::size_t, 1>, 1>},
    {"arr_f3", "array<int3>", sim::IS_I32, &run<arr<int, 3>, 1>},
    {"arr_f3", "array<uint3>", sim::IS_U32, &run<arr<unsigned int, 3>, 1>},
    {"arr_d2", "array<long2>", sim::IS_I64, &run<arr<long, 2>, 1>},
    {"arr_d2", "array<int2>", sim::IS_I32, &run<arr<int, 2>, 1>},
    {"strided_s2_f2", "strided<size2,array<int2>>", sim::IS_I32, &run<cb::strided<cv::size2, arr<int, 2>>, 2>},
    {"strided_s2_f2", "strided<size2,array<uint2>>", sim::IS_U32, &run<cb::strided<cv::size2, arr<unsigned int, 2>>, 2>},
    {"strided_s2_f2", "strided<size2,array<long2>>", sim::IS_I64, &run<cb::strided<cv::size2, arr<long, 2>>, 2>},
    {"strided_s3_f3", "strided<size3,array<int3>>", sim::IS_I32, &run<cb::strided<cv::size3, arr<int, 3>>, 3>},
    {"strided_s3_f1", "strided<size3,array<uint1>>", sim::IS_U32, &run<cb::strided<cv::size3, arr<unsigned int, 1>>, 3>},
    {"strided_s2_d2", "strided<size2,array<long2>>", sim::IS_I64, &run<cb::strided<cv::size2, arr<long, 2>>, 2>},
    {"strided_s2_d2", "strided<size2,array<ulong2>>", sim::IS_U64, &run<cb::strided<cv::size2, arr<std::size_t, 2>>, 2>},
    {"strided_s2_d2", "strided<size2,array<int2>>", sim::IS_I32, &run<cb::strided<cv::size2, arr<int, 2>>, 2>},
    {"strided_s3_d3", "strided<size3,array<long3>>", sim::IS_I64, &run<cb::strided<cv::size3, arr<long, 3>>, 3>},
    {"mortonp_s2_f2", "morton<size2,array<int2>,false>", sim::IS_I32, &run<cb::morton<cv::size2, arr<int, 2>, false>, 2>},
    {"mortonb_s3_f3", "morton<size3,array<int3>,true>", sim::IS_I32, &run<cb::morton<cv::size3, arr<int, 3>, true>, 3>},
};

struct Reg {
    Reg()
    {
        sim::g_int_twins = twins;
        sim::g_n_int_twins = (int)(sizeof(twins) / sizeof(twins[0]));
    }
} reg_;
}
