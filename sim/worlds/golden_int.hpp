// Integer-storage readers of the golden files (C07/C12 extension): array<T> with an integral T
// cannot be dumped, but it can be loaded from a float or double dump; the width word then
// selects the converting reader for every cell. These twins are plain covfie types outside the
// pool, compiled in their own optional translation unit.
#pragma once
#include <cstddef>
#include <istream>
#include <string>
#include <vector>

namespace sim {
enum IntScal : int { IS_I32, IS_U32, IS_I64, IS_U64 };
struct IntTwin {
    const char *writer; // pool id of the stack that wrote the file
    const char *id;     // name of the reading type, for reports
    IntScal scal;
    // loads the stream, reads every lattice cell in row-major order; false + what when the load threw
    bool (*run)(std::istream &, const std::vector<std::size_t> &ext, int M, std::vector<long double> &out, std::string &what);
};
// set by golden_int.cpp's static initialiser; stay null when that TU does not compile
extern const IntTwin *g_int_twins;
extern int g_n_int_twins;
}
