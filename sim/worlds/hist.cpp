// The "hist" world: seeded operation histories over a small pool of field
// slots and simulated files, executed against the real covfie code and an N-d
// array model side by side, with allocation / stream / CUDA-call faults
// attached to operations. Profiles select the op mix and the oracles:
//   ownership (C12)  conversion (C05)  roundtrip (C06)  portability (C07)  ub (C15)
#include <algorithm>
#include <cerrno>
#include <cfenv>
#include <cmath>
#include <cstdio>
#include <exception>
#include <fstream>
#include <iostream>
#include <memory>
#include <new>
#include <stdexcept>
#include <unistd.h>

#include <valgrind/memcheck.h>

#include "../model/model.hpp"
#include "../seams/sim_alloc.hpp"
#include "../seams/sim_stream.hpp"
#include "common.hpp"
#ifdef SIM_HAVE_CUDA_SHIM
#include "../cuda_shim/sim_cuda.hpp"
#endif

using namespace sim;

namespace {

// ------------------------------------------------------------------ plan
enum OpKind : int {
    OP_CONSTRUCT,
    OP_DEFAULT,
    OP_WRITE,
    OP_COPY_CTOR,
    OP_MOVE_CTOR,
    OP_COPY_ASSIGN,
    OP_MOVE_ASSIGN,
    OP_CONVERT_COPY,
    OP_CONVERT_MOVE,
    OP_DUMP,
    OP_LOAD,
    OP_LOAD_ASSIGN,
    OP_REDUMP,
    OP_DESTROY,
    OP_LOOKUP,
    OP_WRAP,
    OP_LOAD_TWO,
    OP_SWAP,
    OP_PIPE,
    OP_NKINDS
};
const char *const OP_NAMES[OP_NKINDS] = {"Construct", "DefaultCtor", "Write",  "CopyCtor",   "MoveCtor",
                                         "CopyAssign", "MoveAssign", "ConvertCopy", "ConvertMove", "Dump",
                                         "Load",      "LoadAssign", "Redump", "Destroy",    "Lookup", "Wrap",
                                         "LoadTwo",   "Swap",       "Pipe"};
enum FaultKind : int { F_NONE, F_ALLOC, F_EOF, F_IOTHROW, F_TEAR, F_CUDA, F_NKINDS };
const char *const FAULT_NAMES[F_NKINDS] = {"none", "alloc", "eof", "iothrow", "tear", "cuda"};

struct Op {
    int kind = OP_CONSTRUCT;
    int a = 0, b = 0; // slots (dst, src) or slot, file
    int stack = -1;
    std::vector<size_t> ext;
    uint64_t vseed = 0;
    int fkind = F_NONE;
    long fn = 0;
};

struct Plan {
    std::string property = "C12", profile = "ownership";
    uint64_t seed = 0;
    int nslots = 4;
    int getbuf = 64, putbuf = 64;
    int exc = 0; // exceptions() mask on the streams: 0 none, 1 badbit, 2 failbit|badbit
    int vmode = VAL_ANY;
    int nice = 0;
    int pre = 0, post = 0; // junk bytes before / after each dump in its file
    int seek = 0; // the input stream can be positioned (a file) or not (a pipe)
    int fe = 0; // sticky floating-point exception flags (FE_* mask) the thread already carries when each operation starts
    int index = -1; // premain profile: which of the fixed pre-main plans this is
    int en = 0; // value errno already holds when each operation starts (left over from an earlier, unrelated call)
    int unwind = 0; // library calls are made from a destructor that runs during stack unwinding (an exception is in flight)
    std::vector<Op> ops;
};

std::string plan_text(const Plan &p)
{
    std::ostringstream o;
    o << "# covfie-sim replay v1\n";
    o << "world hist\n";
    o << "run property=" << p.property << " profile=" << p.profile << " seed=" << p.seed << " nslots=" << p.nslots
      << " getbuf=" << p.getbuf << " putbuf=" << p.putbuf << " exc=" << p.exc << " vmode=" << p.vmode
      << " nice=" << p.nice << " pre=" << p.pre << " post=" << p.post << " seek=" << p.seek << " fe=" << p.fe << " index=" << p.index << " en=" << p.en << " unwind=" << p.unwind << "\n";
    for (auto &op : p.ops) {
        o << "op " << OP_NAMES[op.kind] << " a=" << op.a << " b=" << op.b;
        if (op.stack >= 0)
            o << " stack=" << g_stacks[op.stack].id;
        if (!op.ext.empty()) {
            o << " ext=";
            for (size_t i = 0; i < op.ext.size(); ++i)
                o << (i ? "x" : "") << op.ext[i];
        }
        o << " vseed=" << op.vseed;
        if (op.fkind != F_NONE)
            o << " fault=" << FAULT_NAMES[op.fkind] << "@" << op.fn;
        o << "\n";
    }
    return o.str();
}

bool parse_plan(std::istream &is, Plan &p, std::string &expect)
{
    std::string line;
    while (std::getline(is, line)) {
        if (line.empty() || line[0] == '#')
            continue;
        auto t = split_ws(line);
        if (t.empty())
            continue;
        auto kv = [&](const std::string &tok, std::string &k, std::string &v) {
            auto eq = tok.find('=');
            if (eq == std::string::npos)
                return false;
            k = tok.substr(0, eq);
            v = tok.substr(eq + 1);
            return true;
        };
        if (t[0] == "world")
            continue;
        if (t[0] == "expect") {
            expect = t.size() > 1 ? t[1] : "";
            continue;
        }
        if (t[0] == "run") {
            for (size_t i = 1; i < t.size(); ++i) {
                std::string k, v;
                if (!kv(t[i], k, v))
                    continue;
                if (k == "property")
                    p.property = v;
                else if (k == "profile")
                    p.profile = v;
                else if (k == "seed")
                    p.seed = std::strtoull(v.c_str(), nullptr, 10);
                else if (k == "nslots")
                    p.nslots = std::atoi(v.c_str());
                else if (k == "getbuf")
                    p.getbuf = std::atoi(v.c_str());
                else if (k == "putbuf")
                    p.putbuf = std::atoi(v.c_str());
                else if (k == "exc")
                    p.exc = std::atoi(v.c_str());
                else if (k == "vmode")
                    p.vmode = std::atoi(v.c_str());
                else if (k == "nice")
                    p.nice = std::atoi(v.c_str());
                else if (k == "pre")
                    p.pre = std::atoi(v.c_str());
                else if (k == "post")
                    p.post = std::atoi(v.c_str());
                else if (k == "seek")
                    p.seek = std::atoi(v.c_str());
                else if (k == "fe")
                    p.fe = std::atoi(v.c_str());
                else if (k == "index")
                    p.index = std::atoi(v.c_str());
                else if (k == "en")
                    p.en = std::atoi(v.c_str());
                else if (k == "unwind")
                    p.unwind = std::atoi(v.c_str());
            }
            continue;
        }
        if (t[0] == "op" && t.size() >= 2) {
            Op op;
            op.kind = -1;
            for (int k = 0; k < OP_NKINDS; ++k)
                if (t[1] == OP_NAMES[k])
                    op.kind = k;
            if (op.kind < 0)
                return false;
            for (size_t i = 2; i < t.size(); ++i) {
                std::string k, v;
                if (!kv(t[i], k, v))
                    continue;
                if (k == "a")
                    op.a = std::atoi(v.c_str());
                else if (k == "b")
                    op.b = std::atoi(v.c_str());
                else if (k == "stack")
                    op.stack = stack_by_id(v.c_str());
                else if (k == "vseed")
                    op.vseed = std::strtoull(v.c_str(), nullptr, 10);
                else if (k == "ext") {
                    std::stringstream ss(v);
                    std::string e;
                    while (std::getline(ss, e, 'x'))
                        op.ext.push_back((size_t)std::strtoull(e.c_str(), nullptr, 10));
                } else if (k == "fault") {
                    auto at = v.find('@');
                    std::string fk = v.substr(0, at);
                    for (int f = 0; f < F_NKINDS; ++f)
                        if (fk == FAULT_NAMES[f])
                            op.fkind = f;
                    op.fn = at == std::string::npos ? 1 : std::atol(v.c_str() + at + 1);
                }
            }
            p.ops.push_back(op);
        }
    }
    return true;
}

// bigsweep: bounds of the large-field runs
constexpr size_t BIG_CELLS = size_t(1) << 23; // lattice cells
constexpr size_t BIG_STORAGE_CELLS = size_t(1) << 24; // cells of (padded) storage
constexpr size_t BIG_SCALARS = size_t(13) << 19; // ~6.8 million stored scalars per field

// ------------------------------------------------------------------ world state
enum SlotState : int { S_EMPTY, S_LIVE, S_MOVED, S_DEFAULT, S_INDET };

struct Slot {
    int state = S_EMPTY;
    int stack = -1;
    void *obj = nullptr;
    ModelField model;
    void *view = nullptr; // a field_view of this field that is kept across operations
};
struct SimFile {
    bool present = false;
    Bytes bytes;
    int stack = -1;
    ModelField model;
    bool torn = false;
    size_t start = 0, len = 0; // the dump proper inside bytes
};

struct Violation {
    std::string key, detail;
    int op = -1;
};

struct World {
    const Plan &plan;
    Disabled &dis;
    Counters &cnt;
    Progress *prog;
    std::vector<Slot> slots;
    std::map<int, SimFile> files;
    Violation viol;
    bool failed = false;
    Hash obs; // observation log: outcomes, values read, dump bytes
    Hash caseh; // op-kind sequence + model states
    int mutating = 0, comparisons = 0;
    uint64_t steps = 0;
    bool keep_accounting = false; // a repetition that decides whether residue is still growing: residue itself is not judged

    World(const Plan &p, Disabled &d, Counters &c, Progress *pr)
        : plan(p)
        , dis(d)
        , cnt(c)
        , prog(pr)
        , slots(p.nslots)
    {
    }

    void violate(int opi, const std::string &cls, int stack, const std::string &opname, const std::string &detail)
    {
        if (failed)
            return;
        failed = true;
        viol.key = cls + ":" + (stack >= 0 ? g_stacks[stack].id : "-") + ":" + opname;
        viol.detail = detail;
        viol.op = opi;
    }

    static void *raw_alloc(const SlotOps &o)
    {
        return std::aligned_alloc(std::max<size_t>(o.obj_align, 16), (o.obj_size + 63) / 64 * 64 + 64);
    }
    void drop_view(Slot &s)
    {
        if (s.view && s.stack >= 0 && ops_of(s.stack).release_view)
            ops_of(s.stack).release_view(s.view);
        s.view = nullptr;
    }
    void destroy_slot(Slot &s)
    {
        drop_view(s);
        if (s.state != S_EMPTY && s.obj) {
            ops_of(s.stack).destroy(s.obj);
            std::free(s.obj);
        }
        s = Slot();
    }

    // --- model helpers
    // Do two stacks share the type of their storage (storage-order layer and everything
    // beneath it)? Then a conversion copies that storage object as it is; otherwise it
    // re-lays the lattice out into fresh storage of exactly the size the order needs.
    static bool same_storage_type(const StackDesc &a, const StackDesc &b)
    {
        if (a.storage != b.storage || a.layout_depth < 0 || b.layout_depth < 0 || a.device != b.device)
            return false;
        auto tail = [](const StackDesc &d) {
            std::string n = d.norm, t;
            int seen = 0;
            for (size_t i = 0, start = 0; i <= n.size(); ++i)
                if (i == n.size() || n[i] == '/') {
                    if (seen++ >= d.layout_depth)
                        t += n.substr(start, i - start) + "/";
                    start = i + 1;
                }
            return t;
        };
        return tail(a) == tail(b);
    }

    // from_file: the reader takes the element count from the stream, whatever it is
    static ModelField convert_model(const StackDesc &dst, const StackDesc &src, const ModelField &m, bool narrow_ok, bool from_file = false)
    {
        ModelField r;
        r.stack = dst.index;
        r.ext = m.ext;
        r.cfg.assign(dst.depth, Bytes());
        bool keeps_storage = from_file || same_storage_type(dst, src);
        for (int i = 0; i < dst.depth && i < src.depth; ++i) {
            const LayerDesc &l = dst.layers[i];
            if (l.kind == LK_ARRAY || l.kind == LK_CUDA) {
                size_t n = storage_len(dst, m.ext);
                if (keeps_storage && src.layers[i].kind == l.kind)
                    n = std::max(n, array_count(src, m));
                put_scal(r.cfg[i], SC_U64, (double)n);
            } else
                r.cfg[i] = m.cfg[i];
        }
        r.vals = m.vals;
        if (dst.storage != src.storage) {
            for (auto &b : r.vals) {
                if (src.storage == SC_F32 && dst.storage == SC_F64)
                    b = f64_bits((double)bits_f32(b));
                else if (narrow_ok)
                    b = f32_bits(nearest_float(bits_f64(b)));
            }
        }
        return r;
    }

    bool compare_slot(int opi, const Op &op, int si, bool is_source)
    {
        Slot &s = slots[si];
        if (s.state != S_LIVE)
            return true;
        const StackDesc &d = g_stacks[s.stack];
        ModelField got;
        got.stack = s.stack;
        ops_of(s.stack).read_all(s.obj, got);
        ++comparisons;
        for (int i = 0; i < d.depth; ++i) {
            if (got.cfg[i] != s.model.cfg[i]) {
                std::ostringstream o;
                o << "slot " << si << " layer " << i << " configuration differs from the model (got " << got.cfg[i].size() << " bytes:";
                for (auto x : got.cfg[i]) o << ' ' << (int)x;
                o << " / model " << s.model.cfg[i].size() << " bytes:";
                for (auto x : s.model.cfg[i]) o << ' ' << (int)x;
                o << ")";
                violate(opi, is_source ? "source-changed" : "config-mismatch", s.stack, OP_NAMES[op.kind], o.str());
                return false;
            }
        }
        if (d.shape != SHAPE_NONE) {
            if (got.ext != s.model.ext || got.vals.size() != s.model.vals.size()) {
                violate(opi, is_source ? "source-changed" : "config-mismatch", s.stack, OP_NAMES[op.kind], "extents differ from the model");
                return false;
            }
            for (size_t k = 0; k < got.vals.size(); ++k)
                if (got.vals[k] != s.model.vals[k]) {
                    std::ostringstream o;
                    o << "slot " << si << " scalar " << k << " (cell " << k / d.M << " comp " << k % d.M << ") is 0x" << std::hex
                      << got.vals[k] << ", model 0x" << s.model.vals[k];
                    violate(opi, is_source ? "source-changed" : "value-mismatch", s.stack, OP_NAMES[op.kind], o.str());
                    return false;
                }
            obs.bytes(got.vals.data(), got.vals.size() * 8);
        }
        for (auto &c : got.cfg)
            obs.bytes(c.data(), c.size());
        return true;
    }

    bool check_all(int opi, const Op &op, int src_slot)
    {
        if (const char *v = alloc::take_violation()) {
            violate(opi, v, op.stack >= 0 ? op.stack : (slots[op.a % plan.nslots].stack), OP_NAMES[op.kind], "allocator accounting");
            return false;
        }
        if (const char *v = alloc::check_guards()) {
            violate(opi, v, op.stack, OP_NAMES[op.kind], "guard zone of a live block damaged");
            return false;
        }
#ifdef SIM_HAVE_CUDA_SHIM
        if (const char *v = cuda::take_violation()) {
            violate(opi, v, op.stack, OP_NAMES[op.kind], "device arena accounting");
            return false;
        }
#endif
        for (int i = 0; i < plan.nslots; ++i)
            if (!compare_slot(opi, op, i, i == src_slot))
                return false;
        return true;
    }

    // run a library call with the op's fault armed; returns 0 ok, 1 threw
    template <class Fn>
    int guarded(const Op &op, Fn fn, std::string &what, bool &fired)
    {
        alloc::begin_op(op.fkind == F_ALLOC ? op.fn : 0);
#ifdef SIM_HAVE_CUDA_SHIM
        cuda::begin_op(op.fkind == F_CUDA ? op.fn : 0);
#endif
        int rc = 0;
        try {
            if (plan.unwind) {
                // The call is made by a destructor while ANOTHER exception is propagating
                // (std::uncaught_exceptions() == 1): a guard object that checkpoints, restores
                // or copies a field on scope exit. What the call throws itself is carried out
                // of the destructor by hand and rethrown once the unwinding is over.
                struct Marker {
                };
                std::exception_ptr thrown;
                struct Guard {
                    Fn &f;
                    std::exception_ptr &out;
                    ~Guard()
                    {
                        try {
                            f();
                        } catch (...) {
                            out = std::current_exception();
                        }
                    }
                };
                try {
                    Guard g{fn, thrown};
                    throw Marker{};
                } catch (const Marker &) {
                }
                if (thrown)
                    std::rethrow_exception(thrown);
            } else
                fn();
        } catch (const std::bad_alloc &) {
            rc = 1;
            what = "bad_alloc";
        } catch (const std::exception &e) {
            rc = 1;
            what = std::string("exception: ") + e.what();
        } catch (const SimIoError &) {
            rc = 1;
            what = "SimIoError";
        } catch (...) {
            rc = 1;
            what = "unknown exception";
        }
        fired = alloc::fault_fired();
#ifdef SIM_HAVE_CUDA_SHIM
        fired = fired || cuda::fault_fired();
#endif
        if (alloc::fault_fired())
            cnt.inc("fired.alloc");
#ifdef SIM_HAVE_CUDA_SHIM
        if (cuda::fault_fired())
            cnt.inc("fired.cuda");
#endif
        if (alloc::big_refused()) {
            // the simulated machine has 256 MiB per request: a larger one is refused, which
            // the operation may answer with bad_alloc like any other allocation failure
            cnt.inc("fired.machine_limit");
            if (plan.profile == "hugesweep")
                fired = true; // only where the plan asks for more than the machine has
        }
        alloc::end_op();
#ifdef SIM_HAVE_CUDA_SHIM
        cuda::begin_op(0);
#endif
        while (alloc::depth() > 0)
            alloc::leave();
        return rc;
    }

    bool conv_ok(int dst, int src) const
    {
        if (!ops_of(dst).conv[src].copy)
            return false;
        return true;
    }

    // ------------------------------------------------------------------ executor
    void exec_op(int opi, const Op &op)
    {
        prog->op = (uint64_t)opi;
        prog->op_kind = (uint64_t)op.kind;
        prog->fault_kind = (uint64_t)op.fkind;
        ++steps;
        int ns = plan.nslots;
        int a = ((op.a % ns) + ns) % ns, b = ((op.b % ns) + ns) % ns;
        Slot &A = slots[a];
        Slot &B = slots[b];
        {
            int pst = op.stack >= 0 ? op.stack : (A.stack >= 0 ? A.stack : B.stack);
            prog->stack = (uint64_t)(pst + 1);
        }
        const char *name = OP_NAMES[op.kind];
        // a kept view holds raw pointers into its field: it survives writes, lookups and dumps of
        // that field and nothing else (copies FROM the field leave it valid too, but are rare)
        if (op.kind != OP_WRITE && op.kind != OP_LOOKUP && op.kind != OP_DUMP && op.kind != OP_REDUMP) {
            drop_view(A);
            drop_view(B);
            if (op.kind == OP_LOAD_TWO)
                drop_view(slots[(a + 1) % ns]);
        }
        std::string what;
        bool fired = false;
        int src_slot = -1;
        bool executed = false;
        // Ambient per-thread state the library does not own: the sticky IEEE exception flags.
        // Earlier, unrelated arithmetic of the calling thread may have raised any of them.
        std::feclearexcept(FE_ALL_EXCEPT);
        if (plan.fe)
            std::feraiseexcept(plan.fe & FE_ALL_EXCEPT);
        errno = plan.en; // likewise errno: whatever an earlier system call of this thread left there
        auto expect_no_throw = [&](int rc, int stack) {
            if (rc && !fired) {
                violate(opi, "unexpected-throw", stack, name, what);
                return false;
            }
            return true;
        };
        switch (op.kind) {
        case OP_CONSTRUCT: {
            if (op.stack < 0 || !ops_of(op.stack).has_core)
                break;
            const StackDesc &d = g_stacks[op.stack];
            if (d.device)
                break; // device fields are produced by conversion only
            if ((int)op.ext.size() != d.N)
                break;
            std::vector<size_t> ext = op.ext;
            if (volume(ext) == 0)
                cnt.inc("probe.field_without_cells");
            bool big = plan.profile == "bigsweep" || plan.profile == "hugesweep";
            // (a hugesweep plan whose extents were shrunk by the minimiser is an ordinary construction)
            bool huge = plan.profile == "hugesweep" && d.shape == SHAPE_LAYOUT && (storage_len(d, ext) > BIG_STORAGE_CELLS || volume(ext) > BIG_CELLS);
            if (!huge && d.shape != SHAPE_NONE && (storage_len(d, ext) > (big ? BIG_STORAGE_CELLS : 300000u) || volume(ext) > (big ? BIG_CELLS : 8192u)))
                break;
            destroy_slot(A);
            if (huge) {
                // A lattice of 2^31 .. 2^40 cells: more than the simulated machine can give. The
                // constructor either reports that (bad_alloc) or, should it return, owns storage
                // for every cell it describes - the comparison of the array layer's element count
                // with the model decides; the cells themselves are never walked.
                ModelField m;
                Rng r(op.vseed);
                Rng rc = r.fork("cfg");
                gen_cfgs(d, ext, rc, true, (ValMode)plan.vmode, m);
                void *mem = raw_alloc(ops_of(op.stack));
                // from the extents alone where the layer offers that (it then computes the
                // element count itself), otherwise from the full parameter pack
                bool shortf = ops_of(op.stack).construct_short != nullptr && (op.vseed & 3) != 0;
                int rcode = guarded(
                    op,
                    [&] {
                        if (shortf)
                            ops_of(op.stack).construct_short(mem, m);
                        else
                            ops_of(op.stack).construct(mem, m);
                    },
                    what,
                    fired
                );
                executed = true;
                cnt.inc("probe.construction_beyond_the_machine_size");
                if (shortf)
                    cnt.inc("probe.huge_construction_from_extents_alone");
                if (rcode) {
                    std::free(mem);
                    if (what != "bad_alloc" && !expect_no_throw(rcode, op.stack))
                        return;
                    cnt.inc("observed.huge_construction_refused_with_bad_alloc");
                } else {
                    A.state = S_LIVE;
                    A.stack = op.stack;
                    A.obj = mem;
                    A.model = m;
                    cnt.inc("observed.huge_construction_returned_a_field");
                }
                break;
            }
            ModelField m;
            Rng r(op.vseed);
            Rng rc = r.fork("cfg"), rv = r.fork("val"), rs = r.fork("slack");
            // now and then the array holds more elements than the storage order needs (a field
            // built from the full parameter pack may say so): legal, and it must survive copies,
            // dumps and loads like any other configuration value
            size_t slack = 0;
            if (d.shape == SHAPE_LAYOUT && rs.chance(0.1)) {
                slack = (size_t)rs.range(1, 9);
                cnt.inc("probe.array_storage_larger_than_the_lattice_needs");
            }
            gen_cfgs(d, ext, rc, plan.nice != 0, (ValMode)plan.vmode, m, slack);
            gen_values(d, rv, (ValMode)plan.vmode, plan.property == "C08", m);
            void *mem = raw_alloc(ops_of(op.stack));
            // half of the row-major fields are built the usual way, from the configurations
            // without the array's element count (the storage-order layer sizes the array)
            bool shortf = slack == 0 && ops_of(op.stack).construct_short != nullptr && rs.chance(0.5);
            if (shortf)
                cnt.inc("probe.constructed_from_extents_alone");
            int rcode = guarded(
                op,
                [&] {
                    if (shortf)
                        ops_of(op.stack).construct_short(mem, m);
                    else
                        ops_of(op.stack).construct(mem, m);
                },
                what,
                fired
            );
            executed = true;
            if (rcode) {
                std::free(mem);
                if (!expect_no_throw(rcode, op.stack))
                    return;
                cnt.inc("op_failed_by_fault");
            } else {
                A.state = S_LIVE;
                A.stack = op.stack;
                A.obj = mem;
                A.model = m;
                ++mutating;
            }
            break;
        }
        case OP_DEFAULT: {
            if (op.stack < 0 || !ops_of(op.stack).has_core || !ops_of(op.stack).default_construct)
                break;
            if (g_stacks[op.stack].device)
                break;
            destroy_slot(A);
            void *mem = raw_alloc(ops_of(op.stack));
            int rcode = guarded(op, [&] { ops_of(op.stack).default_construct(mem); }, what, fired);
            executed = true;
            if (rcode) {
                std::free(mem);
                if (!expect_no_throw(rcode, op.stack))
                    return;
            } else {
                A.state = S_DEFAULT;
                A.stack = op.stack;
                A.obj = mem;
            }
            break;
        }
        case OP_WRITE: {
            if (A.state != S_LIVE)
                break;
            const StackDesc &d = g_stacks[A.stack];
            if (d.shape == SHAPE_NONE || d.device || volume(A.model.ext) == 0)
                break;
            size_t vol = volume(A.model.ext);
            size_t cell = op.vseed % vol;
            std::vector<size_t> c(d.N);
            size_t rem = cell;
            for (int k = d.N - 1; k >= 0; --k) {
                c[k] = rem % A.model.ext[k];
                rem /= A.model.ext[k];
            }
            Rng r(mix64(op.vseed, 77));
            uint64_t bits[4];
            for (int j = 0; j < d.M; ++j) {
                do {
                    bits[j] = gen_float_bits(r, d.storage, (ValMode)plan.vmode);
                } while (plan.property == "C08" && bits_look_like_format_word(bits[j], d.storage));
                A.model.vals[cell * d.M + j] = bits[j];
            }
            // Half of the writes are watched through a view that exists before the write and is
            // used again after it: look up the cell, write it, look it up again through the SAME
            // view - the second answer must be the new value (a lookup path that remembers what
            // it saw last time shows here and nowhere else).
            std::vector<double> wx;
            ChainResult wcr;
            bool watched = false;
            if (ops_of(A.stack).hold_view && ((op.vseed >> 11) & 1) && !fired) {
                Rng r3(mix64(op.vseed, 78));
                if (sample_lookup(d, A.model, r3, wx, c.data())) {
                    wcr = chain_domain(d, A.model, wx.data());
                    watched = wcr.in_domain && wcr.exact && !wcr.defaulted;
                }
            }
            uint64_t before[8] = {0}, after[8] = {0};
            if (watched) {
                if (!A.view)
                    A.view = ops_of(A.stack).hold_view(A.obj);
                std::string w0;
                bool f0 = false;
                if (guarded(op, [&] { ops_of(A.stack).held_lookup(A.view, wx.data(), before, false); }, w0, f0) && !f0) {
                    violate(opi, "unexpected-throw", A.stack, name, w0);
                    return;
                }
            }
            int rcode = guarded(op, [&] { ops_of(A.stack).write_cell(A.obj, c.data(), bits); }, what, fired);
            executed = true;
            ++mutating;
            if (d.view_writable)
                cnt.inc("probe.write_through_view");
            if (!expect_no_throw(rcode, A.stack))
                return;
            if (watched) {
                std::string w1;
                bool f1 = false;
                if (guarded(op, [&] { ops_of(A.stack).held_lookup(A.view, wx.data(), after, false); }, w1, f1) && !f1) {
                    violate(opi, "unexpected-throw", A.stack, name, w1);
                    return;
                }
                cnt.inc("probe.write_watched_through_a_kept_view");
                Scal os = d.layers[0].out_scal;
                int od = d.layers[0].out_dims;
                uint64_t want[8] = {0};
                bool have = false;
                if ((int)wcr.cell.size() == d.N && d.N > 0) {
                    size_t lin = 0;
                    for (int k = 0; k < d.N; ++k)
                        lin = lin * A.model.ext[k] + (size_t)wcr.cell[k];
                    for (int j = 0; j < d.M; ++j)
                        want[j] = A.model.vals[lin * d.M + j];
                    have = true;
                } else
                    have = linear_node_expectation(d, A.model, wcr, want);
                if (have && scal_is_float(os) && scal_is_float(d.storage)) {
                    for (int j = 0; j < d.M && j < od; ++j) {
                        bool judged = false;
                        double w = d.storage == SC_F32 ? (double)bits_f32(want[j]) : bits_f64(want[j]);
                        if (std::isnan(w))
                            continue;
                        if (!same_value_modulo_zero_sign(after[j], os, want[j], d.storage, judged)) {
                            std::ostringstream o2;
                            o2 << "a view that existed before the write still answers 0x" << std::hex << after[j] << " for component " << std::dec << j
                               << " of the cell just written; the field holds 0x" << std::hex << want[j];
                            violate(opi, "value-mismatch", A.stack, name, o2.str());
                            return;
                        }
                    }
                    cnt.inc("lookup.after_write_compared_with_model");
                }
            }
            break;
        }
        case OP_COPY_CTOR: {
            // the source may also be a default-constructed or moved-from field: copying such a
            // field is legal (its value is unspecified, so the copy is never read, only destroyed
            // or overwritten)
            bool husk = B.state == S_DEFAULT || B.state == S_MOVED;
            if ((B.state != S_LIVE && !husk) || a == b)
                break;
            destroy_slot(A);
            const SlotOps &o = ops_of(B.stack);
            void *mem = raw_alloc(o);
            bool nc = (op.vseed & 1) != 0; // half of the copies are made from a non-const lvalue
            int rcode = guarded(
                op,
                [&] {
                    if (nc)
                        o.copy_construct_nc(mem, B.obj);
                    else
                        o.copy_construct(mem, B.obj);
                },
                what,
                fired
            );
            if (nc)
                cnt.inc("probe.copy_from_non_const_lvalue");
            executed = true;
            src_slot = b;
            if (husk)
                cnt.inc("probe.copy_of_default_or_moved_from_field");
            if (rcode && husk && !fired) {
                // No property promises that a field without a value can be copied: an exception
                // is an acceptable answer (the device array gives it: it copies `size` bytes
                // from a null device pointer). Memory safety and leak accounting still apply.
                std::free(mem);
                cnt.inc("observed.copy_of_valueless_field_threw");
            } else if (rcode) {
                std::free(mem);
                if (!expect_no_throw(rcode, B.stack))
                    return;
                cnt.inc("op_failed_by_fault");
            } else {
                A.state = husk ? S_INDET : S_LIVE;
                A.stack = B.stack;
                A.obj = mem;
                A.model = husk ? ModelField() : B.model;
                ++mutating;
            }
            break;
        }
        case OP_MOVE_CTOR: {
            if (B.state != S_LIVE || a == b)
                break;
            destroy_slot(A);
            const SlotOps &o = ops_of(B.stack);
            void *mem = raw_alloc(o);
            int rcode = guarded(op, [&] { o.move_construct(mem, B.obj); }, what, fired);
            executed = true;
            if (rcode) {
                std::free(mem);
                B.state = S_INDET;
                if (!expect_no_throw(rcode, B.stack))
                    return;
            } else {
                A.state = S_LIVE;
                A.stack = B.stack;
                A.obj = mem;
                A.model = B.model;
                B.state = S_MOVED;
                B.model = ModelField();
                ++mutating;
            }
            break;
        }
        case OP_COPY_ASSIGN: {
            if (B.state != S_LIVE || A.state == S_EMPTY || A.stack != B.stack)
                break;
            const SlotOps &o = ops_of(B.stack);
            if (a == b)
                cnt.inc("probe.self_copy_assign_nonempty");
            if (A.state == S_MOVED)
                cnt.inc("probe.assign_into_moved_from");
            if (A.state == S_DEFAULT)
                cnt.inc("probe.assign_into_default");
            bool nc = (op.vseed & 1) != 0;
            int rcode = guarded(
                op,
                [&] {
                    if (nc)
                        o.copy_assign_nc(A.obj, B.obj);
                    else
                        o.copy_assign(A.obj, B.obj);
                },
                what,
                fired
            );
            executed = true;
            src_slot = b;
            if (rcode) {
                if (a != b)
                    A.state = S_INDET;
                else
                    A.state = S_INDET; // a failed self-assignment may have released the buffer
                if (!expect_no_throw(rcode, B.stack))
                    return;
                cnt.inc("op_failed_by_fault");
                if (a == b)
                    src_slot = -1;
            } else {
                A.state = S_LIVE;
                A.model = B.model;
                ++mutating;
            }
            break;
        }
        case OP_MOVE_ASSIGN: {
            if (B.state != S_LIVE || A.state == S_EMPTY || A.stack != B.stack)
                break;
            const SlotOps &o = ops_of(B.stack);
            if (A.state == S_MOVED)
                cnt.inc("probe.assign_into_moved_from");
            int rcode = guarded(op, [&] { o.move_assign(A.obj, B.obj); }, what, fired);
            executed = true;
            if (a == b) {
                // C12 names self-assignment for copy AND move assignment: the field keeps its value
                cnt.inc("probe.self_move_assign");
                if (rcode)
                    A.state = S_INDET;
            } else if (rcode) {
                A.state = S_INDET;
                B.state = S_INDET;
            } else {
                A.state = S_LIVE;
                A.model = B.model;
                B.state = S_MOVED;
                B.model = ModelField();
                ++mutating;
            }
            if (!expect_no_throw(rcode, A.stack))
                return;
            break;
        }
        case OP_CONVERT_COPY:
        case OP_CONVERT_MOVE: {
            if (B.state != S_LIVE || a == b || op.stack < 0 || !conv_ok(op.stack, B.stack) || !ops_of(op.stack).has_core)
                break;
            const StackDesc &dd = g_stacks[op.stack];
            const StackDesc &sd = g_stacks[B.stack];
            // hugesweep: the destination's (padded) storage is beyond the machine, or beyond
            // what size_t can count, although the source lattice is small: the conversion must
            // be refused with an exception
            bool huge_conv = plan.profile == "hugesweep" && storage_len(dd, B.model.ext) > BIG_STORAGE_CELLS;
            if (!huge_conv && storage_len(dd, B.model.ext) > (plan.profile == "bigsweep" || plan.profile == "hugesweep" ? BIG_STORAGE_CELLS : 300000u))
                break;
            destroy_slot(A);
            const SlotOps &o = ops_of(op.stack);
            void *mem = raw_alloc(o);
            int src_stack = B.stack;
            bool mv = op.kind == OP_CONVERT_MOVE;
            int rcode = guarded(
                op,
                [&] {
                    if (mv)
                        o.conv[src_stack].move(mem, B.obj);
                    else if ((op.vseed & 1) && o.conv[src_stack].copy_nc)
                        o.conv[src_stack].copy_nc(mem, B.obj); // source is a non-const lvalue
                    else
                        o.conv[src_stack].copy(mem, B.obj);
                },
                what,
                fired
            );
            executed = true;
            if (!mv)
                src_slot = b;
            if (dd.layers[dd.layout_depth].kind != LK_STRIDED && volume(B.model.ext) < storage_len(dd, B.model.ext))
                cnt.inc("probe.curve_padding_cells_present");
            if (fired && alloc::op_allocs() > 2)
                cnt.inc("probe.alloc_fault_inside_relayout");
            if (huge_conv) {
                cnt.inc("probe.conversion_into_storage_beyond_the_machine_size");
                if (rcode) {
                    // any exception is a refusal (bad_alloc from the machine, or the library's own)
                    std::free(mem);
                    if (mv)
                        B.state = S_INDET;
                    cnt.inc("observed.huge_conversion_refused");
                    break;
                }
                cnt.inc("observed.huge_conversion_returned_a_field");
            }
            if (rcode) {
                std::free(mem);
                if (mv)
                    B.state = S_INDET;
                if (!expect_no_throw(rcode, op.stack))
                    return;
                cnt.inc("op_failed_by_fault");
            } else {
                A.state = S_LIVE;
                A.stack = op.stack;
                A.obj = mem;
                A.model = convert_model(dd, sd, B.model, false);
                {
                    // Spare array elements of the source: a conversion that re-lays the lattice
                    // out may size the new storage exactly (the pinned library does) or, where
                    // the layouts are cell-for-cell identical, adopt or copy the source's
                    // storage as it is, spare elements included. Both keep every promise C05
                    // makes; the model follows whichever the field reports.
                    size_t src_count = array_count(sd, B.model), need = storage_len(dd, B.model.ext);
                    int al = dd.depth - 1;
                    if (src_count > need && al >= 0 && (dd.layers[al].kind == LK_ARRAY || dd.layers[al].kind == LK_CUDA) && !same_storage_type(dd, sd)) {
                        ModelField got;
                        got.stack = op.stack;
                        o.read_all(mem, got);
                        if (al < (int)got.cfg.size() && got.cfg[al].size() == 8) {
                            uint64_t n = 0;
                            for (int i = 0; i < 8; ++i)
                                n |= (uint64_t)got.cfg[al][i] << (8 * i);
                            if (n == src_count) {
                                A.model.cfg[al] = got.cfg[al];
                                cnt.inc("observed.conversion_kept_the_spare_storage_of_its_source");
                            }
                        }
                    }
                }
                if (mv) {
                    B.state = S_INDET;
                    B.model = ModelField();
                }
                ++mutating;
                cnt.inc(std::string("conv.") + dd.id + "<-" + sd.id);
            }
            break;
        }
        case OP_WRAP: {
            // field of the outer type from its outer configurations + std::move(inner.backend())
            if (B.state != S_LIVE || a == b || op.stack < 0 || !ops_of(op.stack).has_core || !ops_of(op.stack).wrap[B.stack])
                break;
            const StackDesc &od = g_stacks[op.stack];
            const StackDesc &id = g_stacks[B.stack];
            int k = od.depth - id.depth;
            destroy_slot(A);
            ModelField m;
            Rng r(op.vseed);
            Rng rc = r.fork("cfg");
            gen_cfgs(od, B.model.ext, rc, plan.nice != 0, (ValMode)plan.vmode, m);
            for (int i = k; i < od.depth; ++i)
                m.cfg[i] = B.model.cfg[i - k];
            m.vals = B.model.vals;
            const SlotOps &o = ops_of(op.stack);
            void *mem = raw_alloc(o);
            int in_stack = B.stack;
            int rcode = guarded(op, [&] { o.wrap[in_stack](mem, m, B.obj); }, what, fired);
            executed = true;
            src_slot = b;
            cnt.inc("probe.field_built_from_moved_backend_of_live_field");
            if (rcode) {
                std::free(mem);
                if (!expect_no_throw(rcode, op.stack))
                    return;
                cnt.inc("op_failed_by_fault");
            } else {
                A.state = S_LIVE;
                A.stack = op.stack;
                A.obj = mem;
                A.model = m;
                ++mutating;
            }
            break;
        }
        case OP_DUMP: {
            if (A.state != S_LIVE || !ops_of(A.stack).has_io)
                break;
            const StackDesc &d = g_stacks[A.stack];
            SimFile &f = files[op.b];
            f = SimFile();
            f.present = true;
            f.stack = A.stack;
            f.model = A.model;
            Rng jr(mix64(op.vseed, 5));
            for (int i = 0; i < plan.pre; ++i)
                f.bytes.push_back((uint8_t)jr.next());
            f.start = f.bytes.size();
            Bytes predicted;
            format_write(d, A.model, predicted);
            long tear = -1;
            if (op.fkind == F_TEAR)
                tear = (long)(op.fn % (long)std::max<size_t>(predicted.size(), 1));
            Bytes body;
            SimOStreamBuf sb(body, (size_t)plan.putbuf, tear);
            std::ostream os(&sb);
            if (plan.exc == 1)
                os.exceptions(std::ios::badbit);
            else if (plan.exc == 2)
                os.exceptions(std::ios::badbit | std::ios::failbit);
            int rcode = guarded(
                op,
                [&] {
                    ops_of(A.stack).dump(A.obj, os);
                    os.flush();
                },
                what,
                fired
            );
            executed = true;
            src_slot = a;
            if (sb.torn) {
                fired = true;
                cnt.inc("fired.tear");
                f.torn = true;
            }
            f.bytes.insert(f.bytes.end(), body.begin(), body.end());
            f.len = body.size();
            for (int i = 0; i < plan.post && !f.torn; ++i)
                f.bytes.push_back((uint8_t)jr.next());
            if (rcode) {
                f.torn = true;
                if (!expect_no_throw(rcode, A.stack))
                    return;
            } else if (!f.torn) {
                if (!os.good()) {
                    violate(opi, "stream-bad-after-dump", A.stack, name, "ostream not good after a fault-free dump");
                    return;
                }
                if (RUNNING_ON_VALGRIND && !body.empty())
                    (void)VALGRIND_CHECK_MEM_IS_DEFINED(body.data(), body.size()); // a dump of uninitialised storage is a memcheck error
                obs.bytes(body.data(), body.size());
                cnt.inc("dump_bytes", body.size());
                if (plan.property == "C07") {
                    // format pinning: grammar + predicted bytes (padding cells excluded)
                    ParsedDump pd;
                    if (!format_parse(d, body, 0, pd) || pd.end != body.size()) {
                        violate(opi, "grammar", A.stack, name, pd.error.empty() ? "trailing bytes after the field footer" : pd.error);
                        return;
                    }
                    Bytes pred, care;
                    format_write(d, A.model, pred, &care);
                    bool same = pred.size() == body.size();
                    size_t at = 0;
                    for (size_t i = 0; same && i < pred.size(); ++i)
                        if (care[i] && pred[i] != body[i]) {
                            same = false;
                            at = i;
                        }
                    if (!same) {
                        std::ostringstream o;
                        o << "dump differs from the format model at byte " << at << " (sizes " << body.size() << " vs " << pred.size() << ")";
                        violate(opi, "bytes-mismatch", A.stack, name, o.str());
                        return;
                    }
                    cnt.inc("format_model_checked_dumps");
                }
            }
            break;
        }
        case OP_LOAD:
        case OP_LOAD_ASSIGN: {
            auto it = files.find(op.b);
            if (it == files.end() || !it->second.present)
                break;
            SimFile &f = it->second;
            int rstack = op.stack >= 0 ? op.stack : f.stack;
            const StackDesc &rd = g_stacks[rstack];
            const StackDesc &wd = g_stacks[f.stack];
            if (!ops_of(rstack).has_io || !ops_of(rstack).has_core)
                break;
            if (rstack != f.stack && std::strcmp(rd.norm, wd.norm) != 0)
                break; // only same-type or C07-compatible loads in this world
            // narrowing is only defined (C07) for finite values inside the float range
            if (rd.storage == SC_F32 && wd.storage == SC_F64 && plan.vmode != VAL_FINITE)
                break;
            bool assign = op.kind == OP_LOAD_ASSIGN;
            if (assign && (A.state == S_EMPTY || A.stack != rstack))
                break;
            if (!assign)
                destroy_slot(A);
            size_t limit = f.bytes.size();
            long thr = 0;
            bool stream_fault = false;
            if (op.fkind == F_EOF) {
                limit = f.start + (size_t)(op.fn % (long)std::max<size_t>(f.len, 1));
                stream_fault = true;
            } else if (op.fkind == F_IOTHROW) {
                size_t need = f.len / (size_t)std::max(plan.getbuf, 1) + 1;
                thr = 1 + (long)(op.fn % (long)need);
                stream_fault = true;
            }
            if (f.torn) {
                stream_fault = true;
                prog->fault_kind = (uint64_t)F_TEAR;
            }
            SimIStreamBuf sb(f.bytes, f.start, limit, (size_t)plan.getbuf, thr, plan.seek != 0);
            sb.refill_budget = 20 * (f.bytes.size() / (size_t)std::max(plan.getbuf, 1) + 8);
            std::istream is(&sb);
            if (plan.exc == 1)
                is.exceptions(std::ios::badbit);
            else if (plan.exc == 2)
                is.exceptions(std::ios::badbit | std::ios::failbit);
            const SlotOps &o = ops_of(rstack);
            void *mem = assign ? nullptr : raw_alloc(o);
            int rcode = guarded(
                op,
                [&] {
                    if (assign)
                        o.load_assign(A.obj, is);
                    else
                        o.load(mem, is);
                },
                what,
                fired
            );
            executed = true;
            // A truncated file is a fault whether or not the reader runs into its end: a loader
            // that measures the stream first (seek to the end and back) refuses it without
            // ever reaching EOF.
            if (stream_fault && (sb.fault_fired || f.torn || op.fkind == F_EOF)) {
                fired = true;
                cnt.inc(op.fkind == F_EOF ? "fired.eof" : (op.fkind == F_IOTHROW ? "fired.iothrow" : "fired.torn_file"));
                if (op.fkind == F_EOF) {
                    size_t cut = limit - f.start;
                    cnt.inc(cut < 16 ? "probe.truncation_in_global_header" : (cut + 16 > f.len ? "probe.truncation_in_footers" : "probe.truncation_inside_payload_or_layer"));
                }
            }
            if (rcode) {
                if (!assign)
                    std::free(mem);
                // a failed load-and-assign never touched the target: it stays as it was
                if (!expect_no_throw(rcode, rstack))
                    return;
                cnt.inc("op_failed_by_fault");
            } else if (stream_fault && fired) {
                // The library accepted a damaged stream. Whether that is acceptable is
                // C08's question, not this world's: the result is never looked at.
                cnt.inc("observed.damaged_stream_accepted");
                if (assign)
                    A.state = S_INDET;
                else {
                    A.state = S_INDET;
                    A.stack = rstack;
                    A.obj = mem;
                }
                A.model = ModelField();
            } else {
                if (!assign) {
                    A.stack = rstack;
                    A.obj = mem;
                }
                A.state = S_LIVE;
                A.model = rstack == f.stack ? f.model : convert_model(rd, wd, f.model, true, true);
                A.model.stack = rstack;
                ++mutating;
                size_t consumed = sb.consumed(f.start);
                cnt.inc(consumed == f.len ? "load.consumed_exactly" : (consumed > f.len ? "load.overread" : "load.underread"));
                if (rstack != f.stack) {
                    cnt.inc(std::string("xload.") + rd.id + "<-" + wd.id);
                    if (rd.storage == SC_F32 && wd.storage == SC_F64)
                        cnt.inc("probe.narrowing_load");
                }
                if (plan.getbuf == 1)
                    cnt.inc("probe.one_byte_reads");
                if (sb.seeks)
                    cnt.inc("observed.loader_positioned_the_stream");
            }
            break;
        }
        case OP_LOAD_TWO: {
            // Two dumps written one after the other into ONE stream are loaded one after the
            // other from one stream: the first load must leave the stream exactly behind its
            // own last byte, in a good state, whatever the stream can or cannot do (seek).
            auto it1 = files.find(op.b);
            if (it1 == files.end() || !it1->second.present || it1->second.torn)
                break;
            SimFile *f2p = nullptr;
            for (int k = 1; k <= 2 && !f2p; ++k) {
                auto it2 = files.find((op.b + k) % 3);
                if (it2 != files.end() && it2->second.present && !it2->second.torn)
                    f2p = &it2->second;
            }
            if (!f2p)
                break;
            SimFile &f1 = it1->second, &f2 = *f2p;
            int a2 = (a + 1) % ns;
            if (a2 == a || !ops_of(f1.stack).has_io || !ops_of(f2.stack).has_io || !ops_of(f1.stack).has_core || !ops_of(f2.stack).has_core)
                break;
            destroy_slot(A);
            destroy_slot(slots[a2]);
            Bytes both;
            Rng jr(mix64(op.vseed, 9));
            for (int i = 0; i < plan.pre; ++i)
                both.push_back((uint8_t)jr.next());
            size_t start = both.size();
            both.insert(both.end(), f1.bytes.begin() + (long)f1.start, f1.bytes.begin() + (long)(f1.start + f1.len));
            both.insert(both.end(), f2.bytes.begin() + (long)f2.start, f2.bytes.begin() + (long)(f2.start + f2.len));
            for (int i = 0; i < plan.post; ++i)
                both.push_back((uint8_t)jr.next());
            SimIStreamBuf sb(both, start, both.size(), (size_t)plan.getbuf, 0, plan.seek != 0);
            sb.refill_budget = 20 * (both.size() / (size_t)std::max(plan.getbuf, 1) + 8);
            std::istream is(&sb);
            if (plan.exc == 1)
                is.exceptions(std::ios::badbit);
            else if (plan.exc == 2)
                is.exceptions(std::ios::badbit | std::ios::failbit);
            SimFile *ff[2] = {&f1, &f2};
            int sl[2] = {a, a2};
            executed = true;
            for (int k = 0; k < 2; ++k) {
                const SlotOps &o = ops_of(ff[k]->stack);
                void *mem = raw_alloc(o);
                Op plain = op;
                plain.fkind = F_NONE;
                int rcode = guarded(plain, [&] { o.load(mem, is); }, what, fired);
                if (rcode) {
                    std::free(mem);
                    if (k == 1)
                        what = "loading the SECOND field of the same stream: " + what;
                    violate(opi, "unexpected-throw", ff[k]->stack, name, what);
                    return;
                }
                Slot &S = slots[sl[k]];
                S.state = S_LIVE;
                S.stack = ff[k]->stack;
                S.obj = mem;
                S.model = ff[k]->model;
                ++mutating;
            }
            cnt.inc("probe.two_fields_loaded_from_one_stream");
            if (!plan.seek)
                cnt.inc("probe.two_fields_loaded_from_one_non_seekable_stream");
            break;
        }
        case OP_REDUMP: {
            // dump slot a again and compare with the bytes of file b it was loaded from
            auto it = files.find(op.b);
            if (it == files.end() || !it->second.present || it->second.torn || A.state != S_LIVE)
                break;
            SimFile &f = it->second;
            if (f.stack != A.stack || !ops_of(A.stack).has_io)
                break;
            if (f.model.cfg != A.model.cfg || f.model.vals != A.model.vals || f.model.ext != A.model.ext)
                break;
            Bytes body;
            SimOStreamBuf sb(body, (size_t)plan.putbuf, -1);
            std::ostream os(&sb);
            int rcode = guarded(
                op,
                [&] {
                    ops_of(A.stack).dump(A.obj, os);
                    os.flush();
                },
                what,
                fired
            );
            executed = true;
            src_slot = a;
            if (!expect_no_throw(rcode, A.stack))
                return;
            if (!rcode) {
                const StackDesc &d = g_stacks[A.stack];
                // padding cells of a curve are unspecified: compare through the care mask
                Bytes pred, care;
                format_write(d, A.model, pred, &care);
                bool same = body.size() == f.len;
                size_t at = 0;
                for (size_t i = 0; same && i < body.size(); ++i) {
                    bool c = i < care.size() ? care[i] != 0 : true;
                    if (c && body[i] != f.bytes[f.start + i]) {
                        same = false;
                        at = i;
                    }
                }
                if (!same) {
                    std::ostringstream o2;
                    o2 << "second dump differs from the first at byte " << at << " (sizes " << body.size() << " vs " << f.len << ")";
                    violate(opi, "redump-differs", A.stack, name, o2.str());
                    return;
                }
                cnt.inc("redump_compared");
            }
            break;
        }
        case OP_PIPE: {
            // Writer and reader ends of one pipe: slot b is dumped into a BUFFERED output stream
            // that is not flushed, and loaded into slot a from an input stream tied to it
            // (in.tie(&out)): the first read must flush the writer, as the iostream contract says.
            if (B.state != S_LIVE || a == b || !ops_of(B.stack).has_io || !ops_of(B.stack).has_core)
                break;
            destroy_slot(A);
            Bytes pipe;
            SimOStreamBuf ob(pipe, (size_t)plan.putbuf, -1);
            std::ostream os(&ob);
            SimIStreamBuf ib(pipe, 0, (size_t)-1, (size_t)plan.getbuf, 0, false, true);
            ib.refill_budget = 1u << 22;
            std::istream is(&ib);
            is.tie(&os);
            if (plan.exc == 1) {
                os.exceptions(std::ios::badbit);
                is.exceptions(std::ios::badbit);
            } else if (plan.exc == 2) {
                os.exceptions(std::ios::badbit | std::ios::failbit);
                is.exceptions(std::ios::badbit | std::ios::failbit);
            }
            const SlotOps &o = ops_of(B.stack);
            Op plain = op;
            plain.fkind = F_NONE;
            int rcode = guarded(plain, [&] { o.dump(B.obj, os); }, what, fired);
            executed = true;
            src_slot = b;
            if (rcode) {
                violate(opi, "unexpected-throw", B.stack, name, what);
                return;
            }
            void *mem = raw_alloc(o);
            rcode = guarded(plain, [&] { o.load(mem, is); }, what, fired);
            if (rcode) {
                std::free(mem);
                violate(opi, "unexpected-throw", B.stack, name, "loading from the reading end of a pipe whose (tied) writing end holds unflushed bytes: " + what);
                return;
            }
            A.state = S_LIVE;
            A.stack = B.stack;
            A.obj = mem;
            A.model = B.model;
            ++mutating;
            cnt.inc("probe.dump_and_load_through_a_tied_pipe");
            if (ob.accepted < pipe.size() || plan.putbuf > 0)
                cnt.inc("probe.pipe_writer_was_buffered");
            break;
        }
        case OP_SWAP: {
            // using std::swap; swap(a, b); - whatever overload argument-dependent lookup finds
            if (A.state != S_LIVE || B.state != S_LIVE || a == b || A.stack != B.stack || !ops_of(A.stack).swap_adl)
                break;
            int rcode = guarded(op, [&] { ops_of(A.stack).swap_adl(A.obj, B.obj); }, what, fired);
            executed = true;
            if (rcode) {
                A.state = S_INDET;
                B.state = S_INDET;
                if (!expect_no_throw(rcode, A.stack))
                    return;
            } else {
                std::swap(A.model, B.model);
                ++mutating;
                cnt.inc("probe.fields_exchanged_with_swap");
            }
            break;
        }
        case OP_DESTROY: {
            if (A.state == S_EMPTY)
                break;
            int st = A.stack;
            int rcode = guarded(op, [&] { destroy_slot(A); }, what, fired);
            executed = true;
            if (!expect_no_throw(rcode, st))
                return;
            break;
        }
        case OP_LOOKUP: {
            if (A.state != S_LIVE)
                break;
            const StackDesc &d = g_stacks[A.stack];
            if (d.device)
                break;
            Rng r(op.vseed);
            std::vector<double> x;
            if (!sample_lookup(d, A.model, r, x)) {
                cnt.inc("lookup.no_candidate");
                break;
            }
            ChainResult cr = chain_domain(d, A.model, x.data());
            if (!cr.in_domain || !cr.exact) {
                cnt.inc("lookup.rejected_out_of_domain");
                break;
            }
            uint64_t bits[8] = {0};
            // half of the lookups use the at(x, y, z) form of the view, half at(coordinate_t);
            // half go through a view that is kept across operations, half through a fresh one
            bool va = ops_of(A.stack).lookup_va != nullptr && ((op.vseed >> 9) & 1) != 0;
            bool held = ops_of(A.stack).hold_view != nullptr && ((op.vseed >> 10) & 1) != 0;
            if (held && !A.view)
                A.view = ops_of(A.stack).hold_view(A.obj);
            if (held)
                cnt.inc("probe.lookup_through_a_view_kept_across_operations");
            int rcode = guarded(
                op,
                [&] {
                    if (held)
                        ops_of(A.stack).held_lookup(A.view, x.data(), bits, va && ops_of(A.stack).lookup_va != nullptr);
                    else if (va)
                        ops_of(A.stack).lookup_va(A.obj, x.data(), bits);
                    else
                        ops_of(A.stack).lookup(A.obj, x.data(), bits);
                },
                what,
                fired
            );
            executed = true;
            cnt.inc("lookup.executed");
            if (va)
                cnt.inc("probe.lookup_through_the_scalar_argument_form");
            if (cr.defaulted)
                cnt.inc("lookup.defaulted");
            if (!expect_no_throw(rcode, A.stack))
                return;
            int od = d.layers[0].out_dims;
            {
                // Values that went through arithmetic: which NaN payload survives an
                // operation with two NaN operands depends on operand order, which the
                // compiler may legally choose per build. All NaNs are one observation.
                uint64_t canon[8];
                Scal os = d.layers[0].out_scal;
                for (int j = 0; j < od; ++j) {
                    bool nan = os == SC_F32 ? std::isnan(bits_f32(bits[j])) : std::isnan(bits_f64(bits[j]));
                    canon[j] = nan ? 0x7ff8000000000000ull : bits[j];
                }
                obs.bytes(canon, 8 * (size_t)od);
                if (plan.property == "C15" && getenv("SIM_VERBOSE")) {
                    std::printf("LOOKUP x=");
                    for (double v : x)
                        std::printf("%a ", v);
                    std::printf("->");
                    for (int j = 0; j < od; ++j)
                        std::printf(" %016llx", (unsigned long long)bits[j]);
                    std::printf("\n");
                }
            }
            if (ops_of(A.stack).lookup_va != nullptr) {
                // the view's two lookup forms, at(coordinate_t) and at(x, y, ...), are one function
                uint64_t other[8] = {0};
                std::string what2;
                bool fired2 = false;
                int rc2 = guarded(
                    op,
                    [&] {
                        if (va)
                            ops_of(A.stack).lookup(A.obj, x.data(), other);
                        else
                            ops_of(A.stack).lookup_va(A.obj, x.data(), other);
                    },
                    what2,
                    fired2
                );
                if (rc2 && !fired2) {
                    violate(opi, "unexpected-throw", A.stack, name, what2);
                    return;
                }
                Scal os = d.layers[0].out_scal;
                for (int j = 0; j < od && !rc2; ++j) {
                    bool n1 = os == SC_F32 ? std::isnan(bits_f32(bits[j])) : (os == SC_F64 ? std::isnan(bits_f64(bits[j])) : false);
                    bool n2 = os == SC_F32 ? std::isnan(bits_f32(other[j])) : (os == SC_F64 ? std::isnan(bits_f64(other[j])) : false);
                    if ((n1 && n2) || bits[j] == other[j])
                        continue;
                    std::ostringstream o2;
                    o2 << "at(coordinate_t) and at(scalar...) of the same view disagree in component " << j << ": 0x" << std::hex << (va ? other[j] : bits[j])
                       << " vs 0x" << (va ? bits[j] : other[j]);
                    violate(opi, "value-mismatch", A.stack, name, o2.str());
                    return;
                }
                cnt.inc("lookup.both_forms_compared");
            }
            {
                // a linear interpolator asked at a node must return what the lattice holds there
                uint64_t want[8] = {0};
                Scal os = d.layers[0].out_scal;
                if (scal_is_float(os) && scal_is_float(d.storage) && linear_node_expectation(d, A.model, cr, want)) {
                    bool any = false;
                    for (int j = 0; j < d.M && j < od; ++j) {
                        bool judged = false;
                        if (!same_value_modulo_zero_sign(bits[j], os, want[j], d.storage, judged)) {
                            std::ostringstream o2;
                            o2 << "linear interpolation at a lattice node, component " << j << ": returned 0x" << std::hex << bits[j] << ", the node holds 0x" << want[j];
                            violate(opi, "value-mismatch", A.stack, name, o2.str());
                            return;
                        }
                        any = any || judged;
                    }
                    if (any)
                        cnt.inc("lookup.compared_with_model_at_interpolation_node");
                }
            }
            if ((int)cr.cell.size() == d.N && d.N > 0 && !cr.defaulted) {
                // No interpolation arithmetic between the view and the storage: the chain ends in
                // one lattice cell and the public lookup path must show exactly what the field
                // holds there (a copy whose views still look into its source, a stale cached
                // view, an aliased buffer show up here and nowhere else).
                size_t lin = 0;
                for (int k = 0; k < d.N; ++k)
                    lin = lin * A.model.ext[k] + (size_t)cr.cell[k];
                Scal os = d.layers[0].out_scal;
                for (int j = 0; j < d.M && j < od; ++j) {
                    uint64_t want = A.model.vals[lin * d.M + j];
                    if (os != d.storage) // a cast layer on the way out: widening is exact
                        want = (d.storage == SC_F32 && os == SC_F64) ? f64_bits((double)bits_f32(want)) : want;
                    bool nan_w = d.storage == SC_F32 ? std::isnan(bits_f32(A.model.vals[lin * d.M + j])) : std::isnan(bits_f64(A.model.vals[lin * d.M + j]));
                    if (os != d.storage && (nan_w || !(d.storage == SC_F32 && os == SC_F64)))
                        continue; // NaN payloads through a conversion, or a narrowing cast: not judged
                    if (bits[j] != want) {
                        std::ostringstream o2;
                        o2 << "lookup through the view at lattice cell " << lin << " component " << j << " returned 0x" << std::hex << bits[j]
                           << ", the field holds 0x" << want;
                        violate(opi, "value-mismatch", A.stack, name, o2.str());
                        return;
                    }
                }
                cnt.inc("lookup.compared_with_model_at_lattice_point");
            }
            break;
        }
        default:
            break;
        }
        if (executed) {
            cnt.inc(std::string("op.") + name);
            obs.u64((uint64_t)op.kind);
            caseh.u64((uint64_t)op.kind);
            caseh.u64((uint64_t)op.fkind);
        } else {
            cnt.inc("op.noop");
        }
        check_all(opi, op, src_slot);
        if (RUNNING_ON_VALGRIND) {
            // memcheck pass (C15 thorough/quick sample): attribute its reports to the operation
            static unsigned vg_errors = 0;
            unsigned e = VALGRIND_COUNT_ERRORS;
            if (e != vg_errors) {
                vg_errors = e;
                int pst = op.stack >= 0 ? op.stack : A.stack;
                violate(opi, "memcheck", pst, name, "valgrind memcheck reported an error during this operation (uninitialised value used, or invalid access)");
            }
        }
    }

    void finish()
    {
        // C05: every run ends by converting each live field back to row-major where a
        // conversion exists, and comparing with the model (done by check_all above for
        // the converted slot); here: model-state hash, teardown, leak accounting.
        for (auto &s : slots)
            if (s.state == S_LIVE) {
                caseh.u64((uint64_t)s.stack);
                caseh.bytes(s.model.vals.data(), s.model.vals.size() * 8);
            }
        Op end;
        end.kind = OP_DESTROY;
        for (auto &s : slots)
            destroy_slot(s);
        if (failed)
            return;
        if (const char *v = alloc::take_violation()) {
            violate((int)plan.ops.size(), v, -1, "Teardown", "allocator accounting at end of run");
            return;
        }
        if (alloc::live_blocks() != 0 && !keep_accounting) {
            std::ostringstream o;
            o << alloc::live_blocks() << " block(s), " << alloc::live_bytes() << " byte(s) allocated by the library still live after every field was destroyed";
            violate((int)plan.ops.size(), "leak", -1, "Teardown", o.str());
            return;
        }
#ifdef SIM_HAVE_CUDA_SHIM
        if (cuda::live_blocks() != 0) {
            violate((int)plan.ops.size(), "device-leak", -1, "Teardown", "device blocks still live after every field was destroyed");
            return;
        }
#endif
    }
};

// ------------------------------------------------------------------ generation
struct GenSlot {
    int state = S_EMPTY, stack = -1;
    std::vector<size_t> ext;
};

std::vector<size_t> gen_ext_pos(Rng &r, const StackDesc &d, bool need2);
// Now and then one axis has length ZERO: a field without cells is a valid (if dull) field -
// it is what a default-constructed field is - and must be copied, converted, dumped, loaded
// and refused like any other.
std::vector<size_t> gen_ext(Rng &r, const StackDesc &d, bool need2)
{
    std::vector<size_t> e = gen_ext_pos(r, d, need2);
    if (!need2 && d.shape == SHAPE_LAYOUT && d.N >= 1 && r.chance(0.02))
        e[r.below(d.N)] = 0;
    return e;
}
std::vector<size_t> gen_ext_pos(Rng &r, const StackDesc &d, bool need2)
{
    std::vector<size_t> e(d.N);
    static const size_t special[] = {1, 2, 3, 4, 5, 7, 8, 9, 15, 16, 17};
    for (;;) {
        for (int k = 0; k < d.N; ++k) {
            double u = r.unit();
            if (u < 0.7)
                e[k] = (size_t)r.range(1, 5);
            else if (u < 0.9 || d.N > 2)
                e[k] = special[r.below(d.N > 2 ? 8 : 11)];
            else
                e[k] = (size_t)r.range(1, 33);
            if (need2 && e[k] < 2)
                e[k] = 2;
        }
        if (d.N >= 1 && d.N <= 2 && r.chance(0.03)) {
            // a long axis: coordinates beyond one byte; the other axis stays tiny
            for (int k = 0; k < d.N; ++k)
                e[k] = (size_t)r.range(need2 ? 2 : 1, 3);
            e[r.below(d.N)] = (size_t)r.range(257, d.N == 1 ? 1200 : 300);
            if (d.shape == SHAPE_NONE || storage_len(d, e) <= 300000)
                return e;
        }
        if (d.N >= 2 && r.chance(0.125)) {
            e[r.below(d.N)] = need2 ? 2 : 1;
            if (e[0] == e[d.N - 1])
                e[0] += 1;
        }
        if (d.shape == SHAPE_NONE)
            return e;
        if (volume(e) <= 4096 && storage_len(d, e) <= 32768)
            return e;
    }
}

struct ProfileCfg {
    double w[OP_NKINDS];
    bool faults_alloc, faults_stream, faults_cuda;
    bool lookups;
};

// ------------------------------------------------------------------ systematic sweeps
// Small deterministic families of plans that complement the seeded search: every
// extent vector up to a bound (per dimensionality) for every conversion pair
// (convsweep, C05) and for every serialisable stack (rtsweep, C06). The run
// index selects (pair or stack, extent vector); the seed still picks the values.
int sweep_bound(int n)
{
    switch (n) {
    case 1:
        return 9;
    case 2:
        return 6;
    case 3:
        return 4;
    default:
        return 3;
    }
}
uint64_t ipow_u(uint64_t b, int e)
{
    uint64_t r = 1;
    while (e-- > 0)
        r *= b;
    return r;
}
struct SweepItem {
    int dst = -1, src = -1;
    uint64_t first = 0, count = 0;
};
std::vector<SweepItem> sweep_items(const std::string &profile, bool thorough, const Disabled &dis, uint64_t &total)
{
    std::vector<SweepItem> v;
    total = 0;
    auto in_tier = [&](int s) { return thorough || g_stacks[s].tier == 0; };
    if (profile == "convsweep") {
        for (int k = 0; k < g_nconv; ++k) {
            int d = g_conv_pairs[k][0], s = g_conv_pairs[k][1];
            if (!in_tier(d) || !in_tier(s) || dis.core(g_stacks[d]) || dis.core(g_stacks[s]) || dis.conv(g_stacks[d], g_stacks[s]))
                continue;
            SweepItem it;
            it.dst = d;
            it.src = s;
            it.first = total;
            it.count = ipow_u((uint64_t)sweep_bound(g_stacks[s].N), g_stacks[s].N);
            total += it.count;
            v.push_back(it);
        }
    } else {
        for (int s = 0; s < g_nstacks; ++s) {
            if (!in_tier(s) || dis.core(g_stacks[s]) || dis.io(g_stacks[s]) || g_stacks[s].device)
                continue;
            SweepItem it;
            it.src = s;
            it.first = total;
            it.count = g_stacks[s].N ? ipow_u((uint64_t)sweep_bound(g_stacks[s].N), g_stacks[s].N) : 3;
            total += it.count;
            v.push_back(it);
        }
    }
    return v;
}
Plan gen_sweep_plan(const std::string &property, const std::string &profile, uint64_t seed, uint64_t index, bool thorough, const Disabled &dis)
{
    Plan p;
    p.property = property;
    p.profile = profile;
    p.seed = seed;
    Rng rk(seed);
    static const int chunks[] = {1, 2, 3, 4, 7, 8, 16, 64, 4096, 0};
    p.nslots = 3;
    p.getbuf = chunks[rk.below(9)];
    p.putbuf = chunks[rk.below(10)];
    p.exc = (int)rk.below(3);
    p.vmode = VAL_ANY;
    uint64_t total = 0;
    auto items = sweep_items(profile, thorough, dis, total);
    if (!total)
        return p;
    index %= total;
    const SweepItem *it = nullptr;
    for (auto &x : items)
        if (index >= x.first && index < x.first + x.count)
            it = &x;
    const StackDesc &sd = g_stacks[it->src];
    uint64_t e = index - it->first;
    Op c;
    c.kind = OP_CONSTRUCT;
    c.a = 0;
    c.stack = it->src;
    int B = sweep_bound(sd.N);
    for (int k = 0; k < sd.N; ++k) {
        c.ext.push_back((size_t)(e % (uint64_t)B) + 1);
        e /= (uint64_t)B;
    }
    c.vseed = rk.next() & 0xffffffffffffull;
    p.ops.push_back(c);
    if (profile == "convsweep") {
        Op cv;
        cv.kind = OP_CONVERT_COPY;
        cv.a = 1;
        cv.b = 0;
        cv.stack = it->dst;
        cv.vseed = rk.next() & 0xffffffffffffull; // also decides const / non-const lvalue source
        p.ops.push_back(cv);
        // and back, when the family has the reverse conversion
        for (int k = 0; k < g_nconv; ++k)
            if (g_conv_pairs[k][0] == it->src && g_conv_pairs[k][1] == it->dst && !dis.conv(g_stacks[it->src], g_stacks[it->dst])) {
                Op back;
                back.kind = OP_CONVERT_COPY;
                back.a = 2;
                back.b = 1;
                back.stack = it->src;
                back.vseed = rk.next() & 0xffffffffffffull;
                p.ops.push_back(back);
                break;
            }
        Op w;
        w.kind = OP_WRITE; // a write to the converted field must not show in the source
        w.a = 1;
        w.vseed = rk.next() & 0xffffffffffffull;
        p.ops.push_back(w);
    } else {
        Op d;
        d.kind = OP_DUMP;
        d.a = 0;
        d.b = 0;
        d.vseed = rk.next();
        p.ops.push_back(d);
        Op l;
        l.kind = OP_LOAD;
        l.a = 1;
        l.b = 0;
        l.stack = it->src;
        p.ops.push_back(l);
        Op r;
        r.kind = OP_REDUMP;
        r.a = 1;
        r.b = 0;
        p.ops.push_back(r);
    }
    return p;
}

// bigsweep (C05, C06, C07, C12, C15): a handful of operations on LARGE fields. The seeded
// search lives on lattices of at most a few thousand cells, where it can afford thousands of
// histories per second; code that switches strategy with size (block-wise or threaded copies,
// staged reads, index arithmetic in a narrower type) only shows beyond a threshold. These runs
// take the cell count log-uniformly from 2^14 up to 2^23 cells (about 6.8 million stored
// scalars per field), with extents that are deliberately not round (odd, prime-like, one past
// or short of a power of two). Item (conversion pair / stack / reader-writer pair) is chosen by
// the run index, everything else by the seed.
std::vector<size_t> gen_big_ext(Rng &r, const std::vector<const StackDesc *> &stacks, int cls)
{
    const StackDesc &d = *stacks[0];
    int N = d.N;
    size_t maxM = 1;
    for (auto *sd : stacks)
        maxM = std::max<size_t>(maxM, (size_t)sd->M);
    for (int attempt = 0; attempt < 200; ++attempt) {
        // class 0: 2^14..2^18, 1: 2^18..2^21, 2: 2^21..2^22, 3: 2^22..2^23 cells
        static const double lo[] = {14, 18, 21, 22}, hi[] = {18, 21, 22, 23};
        double bits = lo[cls] + r.unit() * (hi[cls] - lo[cls]);
        double cells = std::exp2(bits);
        if (cells * (double)maxM > (double)BIG_SCALARS)
            cells = (double)BIG_SCALARS / (double)maxM * (0.8 + 0.2 * r.unit());
        std::vector<size_t> e(N);
        double rest = cells;
        for (int k = 0; k < N; ++k) {
            double share = std::pow(rest, 1.0 / (double)(N - k));
            double f = k + 1 < N ? share * (0.6 + 0.9 * r.unit()) : rest;
            size_t v = (size_t)std::max(2.0, std::floor(f));
            switch (r.below(4)) {
            case 0:
                v |= 1; // odd
                break;
            case 1: {
                size_t p2 = (size_t)pow2_ceil(v);
                v = r.chance(0.5) ? p2 / 2 + 1 : (p2 > 2 ? p2 - 1 : p2); // next to a power of two
                break;
            }
            case 2:
                v = (size_t)pow2_ceil(v) / (r.chance(0.5) ? 1 : 2); // a power of two
                break;
            default:
                break;
            }
            v = std::max<size_t>(v, 2);
            e[k] = v;
            rest = std::max(2.0, rest / (double)v);
        }
        if (r.chance(0.5))
            std::swap(e[0], e[r.below(N)]);
        bool ok = volume(e) <= BIG_CELLS;
        for (auto *sd : stacks) {
            size_t sl = storage_len(*sd, e);
            if (sl > BIG_STORAGE_CELLS || sl * (size_t)sd->M * scal_size(sd->storage) > (size_t(120) << 20) || volume(e) * (size_t)sd->M > BIG_SCALARS)
                ok = false;
        }
        if (ok)
            return e;
    }
    return std::vector<size_t>(N, 17);
}

struct BigItem {
    int a = -1, b = -1; // C05: dst, src; C07: reader, writer; others: stack
};
std::vector<BigItem> big_items(const std::string &property, bool thorough, const Disabled &dis)
{
    std::vector<BigItem> v;
    auto usable = [&](int i) {
        const StackDesc &d = g_stacks[i];
        return (thorough || d.tier == 0) && !dis.core(d) && d.shape == SHAPE_LAYOUT && !d.device;
    };
    if (property == "C05") {
        for (int k = 0; k < g_nconv; ++k) {
            int d = g_conv_pairs[k][0], s = g_conv_pairs[k][1];
            if (usable(d) && usable(s) && !dis.conv(g_stacks[d], g_stacks[s]))
                v.push_back(BigItem{d, s});
        }
    } else if (property == "C07") {
        for (int i = 0; i < g_nstacks; ++i)
            for (int j = 0; j < g_nstacks; ++j)
                if (i != j && usable(i) && usable(j) && !dis.io(g_stacks[i]) && !dis.io(g_stacks[j]) && !std::strcmp(g_stacks[i].norm, g_stacks[j].norm))
                    v.push_back(BigItem{i, j});
    } else {
        for (int i = 0; i < g_nstacks; ++i)
            if (usable(i) && (property == "C12" || !dis.io(g_stacks[i])))
                v.push_back(BigItem{i, i});
    }
    return v;
}

Plan gen_big_plan(const std::string &property, uint64_t seed, uint64_t index, bool thorough, const Disabled &dis)
{
    Plan p;
    p.property = property;
    p.profile = "bigsweep";
    p.seed = seed;
    Rng rk(seed);
    static const int chunks[] = {4096, 65536, 1 << 20, 8192, 0};
    p.nslots = 3;
    p.getbuf = chunks[rk.below(4)];
    p.putbuf = chunks[rk.below(5)];
    p.exc = (int)rk.below(3);
    p.vmode = property == "C07" ? VAL_FINITE : VAL_ANY;
    p.nice = 1;
    p.seek = rk.chance(0.5) ? 1 : 0;
    p.fe = rk.chance(0.25) ? FE_ALL_EXCEPT : 0;
    auto items = big_items(property, thorough, dis);
    if (items.empty())
        return p;
    // The run index walks the items, single-component stacks first: only they reach the top
    // size class (2^22 cells and more) within the scalar budget, and the first runs of every
    // batch, however small, take that class. Otherwise the class is drawn from the seed.
    std::stable_sort(items.begin(), items.end(), [](const BigItem &x, const BigItem &y) {
        return (g_stacks[x.b].M == 1 && g_stacks[x.a].M == 1) > (g_stacks[y.b].M == 1 && g_stacks[y.a].M == 1);
    });
    size_t nm1 = 0;
    for (auto &x : items)
        if (g_stacks[x.b].M == 1 && g_stacks[x.a].M == 1)
            ++nm1;
    const BigItem &it = items[index % items.size()];
    static const int classes[] = {0, 0, 1, 1, 1, 2, 3, 3};
    int cls = classes[rk.below(8)];
    if (index < std::min<size_t>(nm1, 8))
        cls = 3;
    auto nx = [&] { return rk.next() & 0xffffffffffffull; };
    auto mk = [&](int kind, int a, int b, int stack) {
        Op o;
        o.kind = kind;
        o.a = a;
        o.b = b;
        o.stack = stack;
        o.vseed = nx();
        p.ops.push_back(o);
    };
    std::vector<const StackDesc *> involved{&g_stacks[it.b]};
    if (it.a != it.b)
        involved.push_back(&g_stacks[it.a]);
    Op c;
    c.kind = OP_CONSTRUCT;
    c.a = 0;
    c.stack = it.b;
    c.ext = gen_big_ext(rk, involved, cls);
    c.vseed = nx();
    p.ops.push_back(c);
    bool io_ok = !dis.io(g_stacks[it.b]);
    if (property == "C05") {
        mk(OP_CONVERT_COPY, 1, 0, it.a);
        mk(OP_LOOKUP, 1, 0, -1);
        bool back = false;
        for (int k = 0; k < g_nconv; ++k)
            if (g_conv_pairs[k][0] == it.b && g_conv_pairs[k][1] == it.a && !dis.conv(g_stacks[it.b], g_stacks[it.a]))
                back = true;
        if (back) {
            mk(OP_DESTROY, 0, 0, -1);
            mk(OP_CONVERT_COPY, 2, 1, it.b);
            mk(OP_LOOKUP, 2, 0, -1);
        }
        mk(OP_WRITE, 1, 0, -1);
    } else if (property == "C06") {
        mk(OP_DUMP, 0, 0, -1);
        mk(OP_LOAD, 1, 0, it.b);
        mk(OP_DESTROY, 0, 0, -1);
        mk(OP_REDUMP, 1, 0, -1);
        mk(OP_LOOKUP, 1, 0, -1);
    } else if (property == "C07") {
        mk(OP_DUMP, 0, 0, -1);
        mk(OP_DESTROY, 0, 0, -1);
        mk(OP_LOAD, 1, 0, it.a);
        mk(OP_LOOKUP, 1, 0, -1);
        mk(OP_DUMP, 1, 1, -1);
    } else if (property == "C12") {
        mk(OP_COPY_CTOR, 1, 0, -1);
        mk(OP_WRITE, 1, 0, -1);
        mk(OP_COPY_ASSIGN, 0, 1, -1);
        mk(OP_MOVE_CTOR, 2, 1, -1);
        mk(OP_WRITE, 2, 0, -1);
        mk(OP_DESTROY, 1, 0, -1);
        mk(OP_MOVE_ASSIGN, 0, 2, -1);
        mk(OP_LOOKUP, 0, 0, -1);
    } else { // C15
        mk(OP_LOOKUP, 0, 0, -1);
        mk(OP_COPY_CTOR, 1, 0, -1);
        mk(OP_WRITE, 1, 0, -1);
        if (io_ok) {
            mk(OP_DUMP, 1, 0, -1);
            mk(OP_DESTROY, 0, 0, -1);
            mk(OP_LOAD, 0, 0, it.b);
        }
        mk(OP_COPY_ASSIGN, 1, 0, -1);
        mk(OP_LOOKUP, 1, 0, -1);
        mk(OP_LOOKUP, 0, 0, -1);
    }
    return p;
}

// hugesweep (C12, C15): construction of lattices the simulated machine cannot hold (2^31 ..
// 2^40 cells). One Construct per plan; stack by run index, extents by seed.
Plan gen_huge_plan(const std::string &property, uint64_t seed, uint64_t index, bool thorough, const Disabled &dis)
{
    Plan p;
    p.property = property;
    p.profile = "hugesweep";
    p.seed = seed;
    p.nslots = 2;
    p.nice = 1;
    Rng rk(seed);
    std::vector<int> st;
    for (int i = 0; i < g_nstacks; ++i) {
        const StackDesc &d = g_stacks[i];
        if ((thorough || d.tier == 0) && !dis.core(d) && d.shape == SHAPE_LAYOUT && !d.device)
            st.push_back(i);
    }
    if (st.empty())
        return p;
    // every third plan: a SMALL row-major lattice with one long axis, converted into a curve
    // layout whose padded storage (side^N) the machine cannot hold or size_t cannot count
    if (index % 3 == 2) {
        std::vector<std::pair<int, int>> pairs; // dst, src
        for (int k = 0; k < g_nconv; ++k) {
            const StackDesc &dd = g_stacks[g_conv_pairs[k][0]], &sd = g_stacks[g_conv_pairs[k][1]];
            if (!(thorough || (dd.tier == 0 && sd.tier == 0)) || dis.core(dd) || dis.core(sd) || dis.conv(dd, sd) || dd.device || sd.device)
                continue;
            if (sd.layers[sd.layout_depth].kind != LK_STRIDED || dd.layers[dd.layout_depth].kind == LK_STRIDED || sd.N < 2)
                continue;
            pairs.push_back({dd.index, sd.index});
        }
        if (!pairs.empty()) {
            auto pr = pairs[(index / 3) % pairs.size()];
            const StackDesc &sd = g_stacks[pr.second];
            Op c;
            c.kind = OP_CONSTRUCT;
            c.a = 0;
            c.stack = sd.index;
            // padded side 2^k with N*k between 40 and 70 bits, source lattice at most ~2^22 cells
            int lo = (40 + sd.N - 1) / sd.N, hi = std::min(70 / sd.N, 22);
            if (lo <= hi && (size_t(1) << lo) * (size_t)sd.M <= BIG_SCALARS) {
                int k = (int)rk.range(lo, hi);
                while (k > lo && ((size_t(1) << k) + 1) * (size_t)sd.M > BIG_SCALARS)
                    --k;
                size_t L = (size_t(1) << k);
                if (rk.chance(0.5) && k > lo)
                    L = L / 2 + 1 + (size_t)rk.below(3); // rounds up to the same side
                c.ext.assign(sd.N, 1);
                c.ext[rk.below(sd.N)] = L;
                for (int q = 0; q < sd.N; ++q)
                    if (c.ext[q] == 1 && rk.chance(0.3) && volume(c.ext) * 2 * (size_t)sd.M <= BIG_SCALARS)
                        c.ext[q] = 2;
                c.vseed = rk.next() & 0xffffffffffffull;
                p.nslots = 3;
                p.ops.push_back(c);
                Op cv;
                cv.kind = rk.chance(0.8) ? OP_CONVERT_COPY : OP_CONVERT_MOVE;
                cv.a = 1;
                cv.b = 0;
                cv.stack = pr.first;
                cv.vseed = rk.next() & 0xffffffffffffull;
                p.ops.push_back(cv);
                Op lk;
                lk.kind = OP_LOOKUP;
                lk.a = 0;
                lk.vseed = rk.next() & 0xffffffffffffull;
                p.ops.push_back(lk);
                return p;
            }
        }
    }
    const StackDesc &d = g_stacks[st[index % st.size()]];
    Op c;
    c.kind = OP_CONSTRUCT;
    c.a = 0;
    c.stack = d.index;
    for (int attempt = 0; attempt < 100; ++attempt) {
        static const int totals[] = {31, 32, 32, 32, 33, 34, 36, 40};
        int total = totals[rk.below(8)];
        std::vector<int> bits(d.N, 0);
        for (int k = 0; k < total; ++k)
            ++bits[rk.below(d.N)];
        c.ext.assign(d.N, 1);
        int mx = 0;
        for (int k = 0; k < d.N; ++k) {
            size_t v = size_t(1) << bits[k];
            switch (rk.below(4)) {
            case 0:
                v += 1;
                break;
            case 1:
                v += (size_t)rk.range(1, 9);
                break;
            default:
                break;
            }
            c.ext[k] = v;
            mx = std::max(mx, bits[k] + 1);
        }
        // the padded storage of a curve (largest axis rounded up to a power of two, to the
        // N-th power) must itself stay far below 2^64 for the model's own arithmetic
        if (d.N * (mx + 1) <= 60)
            break;
    }
    c.vseed = rk.next() & 0xffffffffffffull;
    p.ops.push_back(c);
    Op w;
    w.kind = OP_DESTROY;
    w.a = 0;
    p.ops.push_back(w);
    return p;
}

// allocsweep (C05, C12): the allocation-failure point is enumerated, not sampled. For every
// conversion pair the k-th allocation of the conversion is failed for k = 1..ALLOC_K_CONV;
// for every stack the k-th allocation of a copy construction, copy assignment, load,
// load-and-assign and (where offered) construction from a moved backend is failed for
// k = 1..ALLOC_K_OWN. Each plan then repeats the operation without a fault (it must succeed:
// progress once faults stop), so the model comparison and the leak accounting see both the
// failed and the repaired state.
constexpr int ALLOC_K_CONV = 40, ALLOC_K_OWN = 6;
struct AllocItem {
    int kind; // 0 conversion, 1 CopyCtor, 2 CopyAssign, 3 Load, 4 LoadAssign, 5 Wrap
    int dst, src;
};
std::vector<AllocItem> alloc_items(bool thorough, const Disabled &dis)
{
    std::vector<AllocItem> v;
    auto in_tier = [&](int s) { return thorough || g_stacks[s].tier == 0; };
    for (int k = 0; k < g_nconv; ++k) {
        int d = g_conv_pairs[k][0], s = g_conv_pairs[k][1];
        if (in_tier(d) && in_tier(s) && !dis.core(g_stacks[d]) && !dis.core(g_stacks[s]) && !dis.conv(g_stacks[d], g_stacks[s]))
            v.push_back(AllocItem{0, d, s});
    }
    for (int s = 0; s < g_nstacks; ++s) {
        if (!in_tier(s) || dis.core(g_stacks[s]) || g_stacks[s].device || g_stacks[s].shape == SHAPE_NONE)
            continue;
        v.push_back(AllocItem{1, s, s});
        v.push_back(AllocItem{2, s, s});
        if (!dis.io(g_stacks[s])) {
            v.push_back(AllocItem{3, s, s});
            v.push_back(AllocItem{4, s, s});
        }
    }
    for (int k = 0; k < g_nwrap; ++k) {
        int o = g_wrap_pairs[k][0], i = g_wrap_pairs[k][1];
        if (in_tier(o) && in_tier(i) && !dis.core(g_stacks[o]) && !dis.core(g_stacks[i]) &&
            !dis.s.count(std::string(g_stacks[o].id) + ":wrap:" + g_stacks[i].id))
            v.push_back(AllocItem{5, o, i});
    }
    return v;
}
uint64_t alloc_total(bool thorough, const Disabled &dis)
{
    uint64_t t = 0;
    for (auto &it : alloc_items(thorough, dis))
        t += it.kind == 0 ? ALLOC_K_CONV : ALLOC_K_OWN;
    return t;
}
Plan gen_alloc_plan(const std::string &property, uint64_t seed, uint64_t index, bool thorough, const Disabled &dis)
{
    Plan p;
    p.property = property;
    p.profile = "allocsweep";
    p.seed = seed;
    Rng rk(seed);
    p.nslots = 3;
    p.getbuf = 16;
    p.putbuf = 64;
    p.vmode = VAL_ANY;
    auto items = alloc_items(thorough, dis);
    uint64_t total = alloc_total(thorough, dis);
    if (!total)
        return p;
    index %= total;
    const AllocItem *it = nullptr;
    long k = 1;
    for (auto &x : items) {
        uint64_t n = x.kind == 0 ? ALLOC_K_CONV : ALLOC_K_OWN;
        if (index < n) {
            it = &x;
            k = (long)index + 1;
            break;
        }
        index -= n;
    }
    const StackDesc &sd = g_stacks[it->src];
    auto mk = [&](int kind, int a, int b) {
        Op op;
        op.kind = kind;
        op.a = a;
        op.b = b;
        op.vseed = rk.next() & 0xffffffffffffull;
        return op;
    };
    Op c = mk(OP_CONSTRUCT, 0, 0);
    c.stack = it->src;
    for (int d = 0; d < sd.N; ++d)
        c.ext.push_back((size_t)(2 + (d + (int)(seed % 3)) % 3)); // 2..4 per axis, non-square
    p.ops.push_back(c);
    auto faulted_then_clean = [&](Op op) {
        Op f = op;
        f.fkind = F_ALLOC;
        f.fn = k;
        p.ops.push_back(f);
        p.ops.push_back(op);
    };
    switch (it->kind) {
    case 0: {
        Op cv = mk(OP_CONVERT_COPY, 1, 0);
        cv.stack = it->dst;
        faulted_then_clean(cv);
        break;
    }
    case 1:
        faulted_then_clean(mk(OP_COPY_CTOR, 1, 0));
        break;
    case 2: {
        Op c2 = mk(OP_CONSTRUCT, 1, 0); // a target of another size
        c2.stack = it->src;
        for (int d = 0; d < sd.N; ++d)
            c2.ext.push_back((size_t)(1 + d % 2));
        p.ops.push_back(c2);
        faulted_then_clean(mk(OP_COPY_ASSIGN, 1, 0));
        break;
    }
    case 3:
    case 4: {
        p.ops.push_back(mk(OP_DUMP, 0, 0));
        if (it->kind == 4)
            p.ops.push_back(mk(OP_COPY_CTOR, 1, 0));
        Op l = mk(it->kind == 3 ? OP_LOAD : OP_LOAD_ASSIGN, 1, 0);
        l.stack = -1;
        faulted_then_clean(l);
        break;
    }
    default: {
        Op w = mk(OP_WRAP, 1, 0);
        w.stack = it->dst;
        faulted_then_clean(w);
        break;
    }
    }
    p.ops.push_back(mk(OP_WRITE, 1, 0)); // the result is an independent value
    return p;
}

// ownsweep (C12): every sequence of a bounded length over a 20-symbol alphabet of ownership
// operations on two slots, for a handful of representative stacks. The first operation is
// always Construct(slot 0); quick: 3 further operations, thorough: 4.
const char *const OWN_STACKS[] = {"strided_s2_f2", "mortonb_s2_f2", "arr_f3", "aff_lin_strided_s3_f3", "clamp_strided_s2_f2", "hilbert_s2_f2"};
constexpr int OWN_ALPHABET = 20;
std::vector<int> own_stacks(const Disabled &dis)
{
    std::vector<int> v;
    for (const char *id : OWN_STACKS) {
        int s = stack_by_id(id);
        if (s >= 0 && !dis.core(g_stacks[s]))
            v.push_back(s);
    }
    return v;
}
uint64_t own_total(bool thorough, const Disabled &dis)
{
    return (uint64_t)own_stacks(dis).size() * ipow_u(OWN_ALPHABET, thorough ? 4 : 3);
}
Plan gen_own_plan(const std::string &property, uint64_t seed, uint64_t index, bool thorough, const Disabled &dis)
{
    Plan p;
    p.property = property;
    p.profile = "ownsweep";
    p.seed = seed;
    Rng rk(seed);
    p.nslots = 2;
    p.getbuf = 64;
    p.putbuf = 64;
    p.vmode = VAL_ANY;
    auto st = own_stacks(dis);
    int len = thorough ? 4 : 3;
    uint64_t per = ipow_u(OWN_ALPHABET, len);
    if (st.empty())
        return p;
    index %= per * st.size();
    int stack = st[index / per];
    uint64_t code = index % per;
    const StackDesc &d = g_stacks[stack];
    std::vector<size_t> extA(d.N), extB(d.N);
    for (int k = 0; k < d.N; ++k) {
        extA[k] = (size_t)(2 + k % 2);
        extB[k] = (size_t)(3 - k % 2);
    }
    auto mk = [&](int kind, int a, int b) {
        Op op;
        op.kind = kind;
        op.a = a;
        op.b = b;
        op.vseed = rk.next() & 0xffffffffffffull;
        return op;
    };
    auto construct = [&](int slot, const std::vector<size_t> &ext) {
        Op op = mk(OP_CONSTRUCT, slot, 0);
        op.stack = stack;
        op.ext = ext;
        return op;
    };
    p.ops.push_back(construct(0, extA));
    for (int i = 0; i < len; ++i) {
        int sym = (int)(code % OWN_ALPHABET);
        code /= OWN_ALPHABET;
        switch (sym) {
        case 0:
            p.ops.push_back(construct(0, extA));
            break;
        case 1:
            p.ops.push_back(construct(1, extB));
            break;
        case 2:
            p.ops.push_back(mk(OP_WRITE, 0, 0));
            break;
        case 3:
            p.ops.push_back(mk(OP_WRITE, 1, 0));
            break;
        case 4:
            p.ops.push_back(mk(OP_COPY_CTOR, 1, 0));
            break;
        case 5:
            p.ops.push_back(mk(OP_COPY_CTOR, 0, 1));
            break;
        case 6:
            p.ops.push_back(mk(OP_MOVE_CTOR, 1, 0));
            break;
        case 7:
            p.ops.push_back(mk(OP_MOVE_CTOR, 0, 1));
            break;
        case 8:
            p.ops.push_back(mk(OP_COPY_ASSIGN, 1, 0));
            break;
        case 9:
            p.ops.push_back(mk(OP_COPY_ASSIGN, 0, 1));
            break;
        case 10:
            p.ops.push_back(mk(OP_COPY_ASSIGN, 0, 0));
            break;
        case 11:
            p.ops.push_back(mk(OP_MOVE_ASSIGN, 1, 0));
            break;
        case 12:
            p.ops.push_back(mk(OP_MOVE_ASSIGN, 0, 1));
            break;
        case 13:
            p.ops.push_back(mk(OP_MOVE_ASSIGN, 0, 0));
            break;
        case 14:
            p.ops.push_back(mk(OP_DESTROY, 0, 0));
            break;
        case 15:
            p.ops.push_back(mk(OP_DESTROY, 1, 0));
            break;
        case 16: {
            Op op = mk(OP_DEFAULT, 1, 0);
            op.stack = stack;
            p.ops.push_back(op);
            break;
        }
        case 17:
            p.ops.push_back(mk(OP_DUMP, 0, 0));
            break;
        case 18: {
            Op op = mk(OP_LOAD, 1, 0);
            op.stack = -1;
            p.ops.push_back(op);
            break;
        }
        default: {
            Op op = mk(OP_LOAD_ASSIGN, 0, 0);
            op.stack = -1;
            p.ops.push_back(op);
            break;
        }
        }
    }
    return p;
}

std::vector<Plan> premain_plans();
Plan gen_plan(const std::string &property, const std::string &profile, uint64_t seed, bool thorough, const Disabled &dis, uint64_t index = 0)
{
    if (profile == "ownsweep")
        return gen_own_plan(property, seed, index, thorough, dis);
    if (profile == "allocsweep")
        return gen_alloc_plan(property, seed, index, thorough, dis);
    if (profile == "convsweep" || profile == "rtsweep")
        return gen_sweep_plan(property, profile, seed, index, thorough, dis);
    if (profile == "bigsweep")
        return gen_big_plan(property, seed, index, thorough, dis);
    if (profile == "hugesweep")
        return gen_huge_plan(property, seed, index, thorough, dis);
    if (profile == "premain" || profile == "postmain") {
        auto v = premain_plans();
        Plan p;
        if (!v.empty())
            p = v[index % v.size()];
        p.property = property;
        p.profile = profile;
        return p;
    }
    Plan p;
    p.property = property;
    p.profile = profile;
    p.seed = seed;
    Rng master(seed);
    Rng rk = master.fork("knobs"), rg = master.fork("gen"), rf = master.fork("fault"), rv = master.fork("values");
    static const int chunks[] = {1, 2, 3, 4, 7, 8, 16, 64, 4096, 0};
    p.nslots = (int)rk.range(3, 6);
    p.getbuf = chunks[rk.below(9)];
    p.putbuf = chunks[rk.below(10)];
    p.exc = (int)rk.below(3);
    p.vmode = VAL_ANY;
    p.nice = 0;
    p.pre = rk.chance(0.3) ? (int)rk.range(1, 9) : 0;
    p.post = rk.chance(0.3) ? (int)rk.range(1, 9) : 0;
    p.seek = rk.chance(0.5) ? 1 : 0;
    {
        static const int fes[] = {FE_OVERFLOW, FE_INVALID, FE_DIVBYZERO, FE_UNDERFLOW | FE_INEXACT, FE_ALL_EXCEPT, FE_INEXACT};
        p.fe = rk.chance(0.25) ? fes[rk.below(6)] : 0;
        static const int ens[] = {EINTR, EAGAIN, ERANGE, ENOMEM, EIO};
        p.en = rk.chance(0.3) ? ens[rk.below(5)] : 0;
        p.unwind = rk.chance(0.15) ? 1 : 0;
    }
    double w[OP_NKINDS] = {0};
    bool f_alloc = false, f_stream = false, f_cuda = false;
    bool lookups = false;
    bool fault_run = false;
    if (profile == "ownership" || profile == "conversion" || profile == "roundtrip")
        p.nice = rk.chance(0.5) ? 1 : 0; // lookups need configurations with a usable domain
    if (profile == "ownership") {
        double ww[] = {3, 0.5, 4, 3, 2, 4, 2, 1.5, 0.7, 1.5, 1.5, 1, 0.3, 1.5, 2.5, 1.5, 0.4, 1.2, 0.3};
        std::copy(ww, ww + OP_NKINDS, w);
        fault_run = rk.chance(0.5);
        f_alloc = fault_run;
        f_stream = fault_run && rk.chance(0.5);
        f_cuda = fault_run;
    } else if (profile == "conversion") {
        double ww[] = {3, 0, 2, 0.7, 0.3, 0.5, 0.2, 6, 2, 0, 0, 0, 0, 0.7, 1.5, 0.5, 0, 0.4, 0};
        std::copy(ww, ww + OP_NKINDS, w);
        fault_run = rk.chance(0.4);
        f_alloc = fault_run;
        f_cuda = fault_run;
    } else if (profile == "roundtrip") {
        double ww[] = {3, 0, 2, 0.3, 0, 0.3, 0, 0.5, 0, 4, 4, 1, 3, 0.5, 1.0, 0.7, 1.5, 0.3, 1.0};
        std::copy(ww, ww + OP_NKINDS, w);
    } else if (profile == "portability") {
        double ww[] = {3, 0, 1.5, 0, 0, 0, 0, 0.3, 0, 4, 5, 0.5, 1.5, 0.5, 0, 0.3, 0.7, 0, 0.3};
        std::copy(ww, ww + OP_NKINDS, w);
        p.vmode = VAL_FINITE;
    } else { // ub
        double ww[] = {3, 0.3, 3, 1.5, 1, 1.5, 1, 1.5, 0.5, 1.5, 1.5, 0.7, 0.7, 1, 7, 1.0, 0.5, 0.8, 0.3};
        std::copy(ww, ww + OP_NKINDS, w);
        lookups = true;
        p.nice = 1;
        p.vmode = rk.chance(0.5) ? VAL_FINITE : VAL_ANY;
    }
    // swarm: switch some op kinds off for this run
    for (int k = 1; k < OP_NKINDS; ++k)
        if (k != OP_DESTROY && rk.chance(0.15))
            w[k] = 0;

    // the set of field types of this run: one conversion family, a C07 group, or a few unrelated stacks
    std::vector<int> avail;
    for (int i = 0; i < g_nstacks; ++i) {
        const StackDesc &d = g_stacks[i];
        if (dis.core(d))
            continue;
        if (d.tier == 1 && !thorough)
            continue;
        avail.push_back(i);
    }
    std::vector<int> types;
    auto pick_family = [&]() {
        std::vector<int> fams;
        for (int i : avail)
            if (g_stacks[i].family >= 0 && std::find(fams.begin(), fams.end(), g_stacks[i].family) == fams.end())
                fams.push_back(g_stacks[i].family);
        if (fams.empty())
            return;
        int f = fams[rk.below(fams.size())];
        for (int i : avail)
            if (g_stacks[i].family == f)
                types.push_back(i);
        // the precision-widening pair rides along with N3M3f
        for (int k = 0; k < g_nconv; ++k)
            for (int t : std::vector<int>(types))
                if (g_conv_pairs[k][1] == t && std::find(types.begin(), types.end(), g_conv_pairs[k][0]) == types.end() &&
                    std::find(avail.begin(), avail.end(), g_conv_pairs[k][0]) != avail.end())
                    types.push_back(g_conv_pairs[k][0]);
    };
    auto pick_norm_group = [&]() {
        std::vector<int> cands;
        for (int i : avail)
            for (int j : avail)
                if (i != j && !std::strcmp(g_stacks[i].norm, g_stacks[j].norm) && g_stacks[i].shape != SHAPE_NONE && !g_stacks[i].device &&
                    !g_stacks[j].device && !dis.io(g_stacks[i]) && !dis.io(g_stacks[j])) {
                    cands.push_back(i);
                    break;
                }
        if (cands.empty())
            return;
        int c = cands[rk.below(cands.size())];
        for (int i : avail)
            if (!std::strcmp(g_stacks[i].norm, g_stacks[c].norm) && !g_stacks[i].device && !dis.io(g_stacks[i]))
                types.push_back(i);
    };
    auto pick_misc = [&]() {
        int n = (int)rk.range(1, 3);
        for (int k = 0; k < n && !avail.empty(); ++k) {
            int c = avail[rk.below(avail.size())];
            if (g_stacks[c].device)
                continue;
            if ((profile == "roundtrip" || profile == "portability") && dis.io(g_stacks[c]))
                continue;
            if (std::find(types.begin(), types.end(), c) == types.end())
                types.push_back(c);
        }
    };
    if (profile == "conversion")
        pick_family();
    else if (profile == "portability") {
        // mostly cross-type groups; the rest same-type runs so that every stack's
        // dumps meet the format model
        if (rk.chance(0.6))
            pick_norm_group();
        else
            pick_misc();
    }
    else if (profile == "roundtrip")
        pick_misc();
    else {
        double u = rk.unit();
        if (u < 0.45)
            pick_family();
        else if (u < 0.55)
            pick_norm_group();
        else
            pick_misc();
    }
    if (types.empty())
        pick_misc();
    if (types.empty())
        return p;

    int nops = (int)rk.range(8, thorough ? 120 : 40);
    std::vector<GenSlot> gs(p.nslots);
    std::map<int, int> gfiles; // file -> stack
    int nfiles = 3;
    double wsum = 0;
    for (double x : w)
        wsum += x;
    auto live_slots = [&]() {
        std::vector<int> v;
        for (int i = 0; i < p.nslots; ++i)
            if (gs[i].state == S_LIVE)
                v.push_back(i);
        return v;
    };
    auto constructible = [&]() {
        std::vector<int> v;
        for (int t : types)
            if (!g_stacks[t].device)
                v.push_back(t);
        return v;
    };
    auto push_construct = [&](int slot) {
        auto ct = constructible();
        if (ct.empty())
            return;
        Op op;
        op.kind = OP_CONSTRUCT;
        op.a = slot;
        op.stack = ct[rg.below(ct.size())];
        const StackDesc &d = g_stacks[op.stack];
        bool need2 = lookups && (std::string(d.id).find("lin") != std::string::npos);
        // fields that will be converted into each other share extents only by chance: reuse some
        std::vector<int> ls = live_slots();
        if (!ls.empty() && rg.chance(0.3) && (int)gs[ls[0]].ext.size() == d.N)
            op.ext = gs[ls[rg.below(ls.size())]].ext;
        if ((int)op.ext.size() != d.N)
            op.ext = gen_ext(rg, d, need2);
        if (need2)
            for (auto &e : op.ext)
                if (e < 2)
                    e = 2;
        op.vseed = rv.next() & 0xffffffffffffull;
        p.ops.push_back(op);
        gs[slot].state = S_LIVE;
        gs[slot].stack = op.stack;
        gs[slot].ext = op.ext;
    };
    push_construct(0);
    for (int n = 1; n < nops; ++n) {
        std::vector<int> ls = live_slots();
        if (ls.empty()) {
            push_construct((int)rg.below(p.nslots));
            continue;
        }
        double u = rg.unit() * wsum;
        int kind = 0;
        for (; kind < OP_NKINDS - 1; ++kind) {
            if (u < w[kind])
                break;
            u -= w[kind];
        }
        Op op;
        op.kind = kind;
        op.vseed = rv.next() & 0xffffffffffffull;
        int src = ls[rg.below(ls.size())];
        int dst = (int)rg.below(p.nslots);
        switch (kind) {
        case OP_CONSTRUCT:
            push_construct(dst);
            continue;
        case OP_DEFAULT: {
            op.a = dst;
            op.stack = types[rg.below(types.size())];
            if (g_stacks[op.stack].device)
                continue;
            gs[dst].state = S_DEFAULT;
            gs[dst].stack = op.stack;
            break;
        }
        case OP_WRITE:
        case OP_LOOKUP:
            op.a = src;
            break;
        case OP_COPY_CTOR:
        case OP_MOVE_CTOR:
            if (kind == OP_COPY_CTOR && rg.chance(0.08)) {
                std::vector<int> husks;
                for (int i = 0; i < p.nslots; ++i)
                    if (gs[i].state == S_DEFAULT || gs[i].state == S_MOVED)
                        husks.push_back(i);
                if (!husks.empty()) {
                    src = husks[rg.below(husks.size())];
                    if (dst == src)
                        dst = (dst + 1) % p.nslots;
                    op.a = dst;
                    op.b = src;
                    gs[dst] = gs[src];
                    gs[dst].state = S_INDET;
                    break;
                }
            }
            if (dst == src)
                dst = (dst + 1) % p.nslots;
            op.a = dst;
            op.b = src;
            gs[dst] = gs[src];
            if (kind == OP_MOVE_CTOR)
                gs[src].state = S_MOVED;
            break;
        case OP_COPY_ASSIGN:
        case OP_MOVE_ASSIGN: {
            // prefer a target that holds an object of the same type (live, moved-from or default)
            std::vector<int> tg;
            for (int i = 0; i < p.nslots; ++i)
                if (gs[i].state != S_EMPTY && gs[i].stack == gs[src].stack)
                    tg.push_back(i);
            dst = tg[rg.below(tg.size())];
            if (kind == OP_COPY_ASSIGN && rg.chance(0.12))
                dst = src; // self-assignment
            op.a = dst;
            op.b = src;
            if (dst != src) {
                gs[dst] = gs[src];
                if (kind == OP_MOVE_ASSIGN)
                    gs[src].state = S_MOVED;
            }
            break;
        }
        case OP_CONVERT_COPY:
        case OP_CONVERT_MOVE: {
            std::vector<int> tg;
            for (int k = 0; k < g_nconv; ++k)
                if (g_conv_pairs[k][1] == gs[src].stack && std::find(types.begin(), types.end(), g_conv_pairs[k][0]) != types.end() &&
                    !dis.conv(g_stacks[g_conv_pairs[k][0]], g_stacks[gs[src].stack]) && !dis.core(g_stacks[g_conv_pairs[k][0]]))
                    tg.push_back(g_conv_pairs[k][0]);
            if (tg.empty())
                continue;
            if (dst == src)
                dst = (dst + 1) % p.nslots;
            op.a = dst;
            op.b = src;
            op.stack = tg[rg.below(tg.size())];
            gs[dst].state = S_LIVE;
            gs[dst].stack = op.stack;
            gs[dst].ext = gs[src].ext;
            if (kind == OP_CONVERT_MOVE)
                gs[src].state = S_INDET;
            break;
        }
        case OP_WRAP: {
            std::vector<int> tg;
            for (int k = 0; k < g_nwrap; ++k)
                if (g_wrap_pairs[k][1] == gs[src].stack && !dis.core(g_stacks[g_wrap_pairs[k][0]]) &&
                    !dis.s.count(std::string(g_stacks[g_wrap_pairs[k][0]].id) + ":wrap:" + g_stacks[gs[src].stack].id) &&
                    (thorough || g_stacks[g_wrap_pairs[k][0]].tier == 0))
                    tg.push_back(g_wrap_pairs[k][0]);
            if (tg.empty())
                continue;
            if (dst == src)
                dst = (dst + 1) % p.nslots;
            op.a = dst;
            op.b = src;
            op.stack = tg[rg.below(tg.size())];
            gs[dst].state = S_LIVE;
            gs[dst].stack = op.stack;
            gs[dst].ext = gs[src].ext;
            break;
        }
        case OP_DUMP:
            if (dis.io(g_stacks[gs[src].stack]))
                continue;
            op.a = src;
            op.b = (int)rg.below(nfiles);
            gfiles[op.b] = gs[src].stack;
            break;
        case OP_LOAD:
        case OP_LOAD_ASSIGN: {
            if (gfiles.empty())
                continue;
            auto it = gfiles.begin();
            std::advance(it, rg.below(gfiles.size()));
            op.b = it->first;
            int wstack = it->second;
            op.stack = wstack;
            if (profile == "portability" || rg.chance(0.15)) {
                std::vector<int> rs;
                for (int t : types)
                    if (!std::strcmp(g_stacks[t].norm, g_stacks[wstack].norm) && !dis.io(g_stacks[t]) && !g_stacks[t].device)
                        rs.push_back(t);
                if (!rs.empty())
                    op.stack = rs[rg.below(rs.size())];
            }
            if (kind == OP_LOAD_ASSIGN) {
                std::vector<int> tg;
                for (int i = 0; i < p.nslots; ++i)
                    if (gs[i].state != S_EMPTY && gs[i].stack == op.stack)
                        tg.push_back(i);
                if (tg.empty())
                    continue;
                dst = tg[rg.below(tg.size())];
            }
            op.a = dst;
            gs[dst].state = S_LIVE;
            gs[dst].stack = op.stack;
            break;
        }
        case OP_LOAD_TWO: {
            if (gfiles.size() < 2)
                continue;
            auto it = gfiles.begin();
            std::advance(it, rg.below(gfiles.size()));
            op.b = it->first;
            int second = -1;
            for (int k = 1; k <= 2 && second < 0; ++k)
                if (gfiles.count((op.b + k) % 3))
                    second = (op.b + k) % 3;
            if (second < 0)
                continue;
            op.a = dst;
            int d2 = (dst + 1) % p.nslots;
            gs[dst].state = S_LIVE;
            gs[dst].stack = it->second;
            gs[d2].state = S_LIVE;
            gs[d2].stack = gfiles[second];
            break;
        }
        case OP_REDUMP: {
            if (gfiles.empty())
                continue;
            // typically: load file f into a slot, then redump that slot against f
            auto it = gfiles.begin();
            std::advance(it, rg.below(gfiles.size()));
            Op ld;
            ld.kind = OP_LOAD;
            ld.a = dst;
            ld.b = it->first;
            ld.stack = it->second;
            ld.vseed = op.vseed;
            p.ops.push_back(ld);
            gs[dst].state = S_LIVE;
            gs[dst].stack = it->second;
            op.a = dst;
            op.b = it->first;
            break;
        }
        case OP_PIPE:
            if (dis.io(g_stacks[gs[src].stack]) || g_stacks[gs[src].stack].device)
                continue;
            if (dst == src)
                dst = (dst + 1) % p.nslots;
            op.a = dst;
            op.b = src;
            gs[dst] = gs[src];
            break;
        case OP_SWAP: {
            std::vector<int> tg;
            for (int i = 0; i < p.nslots; ++i)
                if (i != src && gs[i].state == S_LIVE && gs[i].stack == gs[src].stack)
                    tg.push_back(i);
            if (tg.empty()) {
                // make a partner first: a copy that is then written to
                if (dst == src)
                    dst = (dst + 1) % p.nslots;
                Op cp;
                cp.kind = OP_COPY_CTOR;
                cp.a = dst;
                cp.b = src;
                cp.vseed = op.vseed ^ 5;
                p.ops.push_back(cp);
                gs[dst] = gs[src];
                Op wr;
                wr.kind = OP_WRITE;
                wr.a = dst;
                wr.vseed = rv.next() & 0xffffffffffffull;
                p.ops.push_back(wr);
                tg.push_back(dst);
            }
            op.a = src;
            op.b = tg[rg.below(tg.size())];
            std::swap(gs[op.a], gs[op.b]);
            break;
        }
        case OP_DESTROY:
            op.a = rg.chance(0.7) ? src : dst;
            gs[op.a] = GenSlot();
            break;
        }
        // attach a fault to about 12 % of the operations of a fault run
        if (fault_run && rf.chance(0.12)) {
            switch (kind) {
            case OP_DUMP:
                if (f_stream) {
                    op.fkind = F_TEAR;
                    op.fn = (long)rf.below(4096);
                }
                break;
            case OP_LOAD:
            case OP_LOAD_ASSIGN:
                if (f_stream && rf.chance(0.6)) {
                    op.fkind = rf.chance(0.6) ? F_EOF : F_IOTHROW;
                    op.fn = (long)rf.below(8192);
                } else if (f_alloc) {
                    op.fkind = F_ALLOC;
                    op.fn = (long)rf.range(1, 3);
                }
                break;
            case OP_CONVERT_COPY:
            case OP_CONVERT_MOVE:
                if (f_cuda && g_stacks[op.stack].device && rf.chance(0.5)) {
                    op.fkind = F_CUDA;
                    op.fn = (long)rf.range(1, 3);
                } else if (f_alloc) {
                    op.fkind = F_ALLOC;
                    op.fn = (long)rf.range(1, 20);
                }
                break;
            case OP_COPY_CTOR:
            case OP_COPY_ASSIGN:
                if (f_cuda && g_stacks[gs[op.b].stack].device && rf.chance(0.5)) {
                    op.fkind = F_CUDA;
                    op.fn = (long)rf.range(1, 2);
                } else if (f_alloc) {
                    op.fkind = F_ALLOC;
                    op.fn = (long)rf.range(1, 2);
                }
                break;
            default:
                break;
            }
        }
        p.ops.push_back(op);
    }
    // A run that holds a large field (long axis, padded curve storage of 10^5 cells) keeps its
    // cost bounded: few operations and no byte-sized stream chunks, so that no run needs
    // seconds of CPU even under ASan or valgrind (the CPU watchdog must never fire on a
    // correct library).
    {
        size_t biggest = 0;
        for (auto &op : p.ops)
            if (op.kind == OP_CONSTRUCT && op.stack >= 0 && g_stacks[op.stack].shape != SHAPE_NONE && (int)op.ext.size() == g_stacks[op.stack].N) {
                size_t padded = 1, mx = 1;
                for (auto e : op.ext)
                    mx = std::max(mx, e);
                for (int k = 0; k < g_stacks[op.stack].N; ++k)
                    padded *= (size_t)pow2_ceil(mx);
                biggest = std::max(biggest, padded);
            }
        if (biggest > 20000) {
            if (p.ops.size() > 14)
                p.ops.resize(14);
            p.getbuf = std::max(p.getbuf, 4096);
            if (p.putbuf != 0)
                p.putbuf = std::max(p.putbuf, 4096);
        }
    }
    if (profile == "conversion") {
        // convert every live field back to its family's row-major member
        for (int i = 0; i < p.nslots; ++i) {
            if (gs[i].state != S_LIVE)
                continue;
            const StackDesc &sd = g_stacks[gs[i].stack];
            for (int k = 0; k < g_nconv; ++k) {
                const StackDesc &dd = g_stacks[g_conv_pairs[k][0]];
                if (g_conv_pairs[k][1] != sd.index || dd.device || dd.layers[dd.layout_depth].kind != LK_STRIDED || dd.storage != sd.storage)
                    continue;
                if (dis.conv(dd, sd) || dis.core(dd))
                    continue;
                if (std::find(types.begin(), types.end(), dd.index) == types.end())
                    continue;
                Op op;
                op.kind = OP_CONVERT_COPY;
                op.a = (i + 1) % p.nslots;
                op.b = i;
                op.stack = dd.index;
                // do not clobber another live slot's pending back-conversion
                bool clobber = false;
                for (int j = i + 1; j < p.nslots; ++j)
                    if (j == op.a && gs[j].state == S_LIVE)
                        clobber = true;
                if (clobber)
                    break;
                p.ops.push_back(op);
                break;
            }
        }
    }
    return p;
}

struct RunResult {
    bool ok = true;
    Violation v;
    uint64_t obs = 0, caseh = 0;
    bool nontrivial = false;
    uint64_t steps = 0;
};

RunResult run_plan_once(const Plan &p, Disabled &dis, Counters &cnt, Progress *prog, bool keep_accounting = false, size_t *live_at_end = nullptr);

// Residue after every field was destroyed is a leak only if it GROWS when the same plan is
// executed again and again in the same process. Storage that the library allocates once per
// process (a lazily built table, an immortal cache, a singleton), or keeps one instance of
// and replaces (a "last error" string, a scratch buffer that is reallocated), reaches a steady
// state and is not what "leaked" means. Two further passes, without forgetting the blocks
// of the earlier ones, decide: the number of live blocks must still be rising.
RunResult run_plan(const Plan &p, Disabled &dis, Counters &cnt, Progress *prog)
{
    RunResult rr = run_plan_once(p, dis, cnt, prog);
    if (!rr.ok && rr.v.key.rfind("leak:", 0) == 0) {
        Counters scratch;
        size_t l2 = 0, l3 = 0;
        RunResult second = run_plan_once(p, dis, scratch, prog, true, &l2);
        RunResult third = run_plan_once(p, dis, scratch, prog, true, &l3);
        if (second.ok && third.ok && l3 <= l2) {
            cnt.inc("observed.one_time_allocation_kept_by_the_library");
            return third;
        }
    } else if (!rr.ok && rr.v.key.rfind("device-leak:", 0) == 0) {
        Counters scratch;
        RunResult again = run_plan_once(p, dis, scratch, prog);
        if (again.ok) {
            cnt.inc("observed.one_time_allocation_kept_by_the_library");
            return again;
        }
    }
    return rr;
}

RunResult run_plan_once(const Plan &p, Disabled &dis, Counters &cnt, Progress *prog, bool keep_accounting, size_t *live_at_end)
{
    if (!keep_accounting)
        alloc::begin_run();
    else
        alloc::take_violation();
#ifdef SIM_HAVE_CUDA_SHIM
    cuda::begin_run();
#endif
    RunResult rr;
    // every run starts from the floating-point environment the process started with: a
    // library call that changes the control word (rounding mode, flush-to-zero) must not
    // leak into later runs of this worker, or replay in a fresh process would differ
    static const fenv_t start_env = [] {
        fenv_t e;
        std::fegetenv(&e);
        return e;
    }();
    std::fesetenv(&start_env);
    watchdog_arm(RUNNING_ON_VALGRIND ? 900 : 60);
    {
        World w(p, dis, cnt, prog);
        w.keep_accounting = keep_accounting;
        for (size_t i = 0; i < p.ops.size() && !w.failed; ++i)
            w.exec_op((int)i, p.ops[i]);
        w.finish();
        if (live_at_end)
            *live_at_end = alloc::live_blocks();
        rr.ok = !w.failed;
        rr.v = w.viol;
        rr.obs = w.obs.h;
        rr.caseh = w.caseh.h;
        rr.nontrivial = w.mutating >= 1 && w.comparisons >= 1;
        rr.steps = w.steps;
    }
    watchdog_disarm();
    return rr;
}


// ------------------------------------------------------------------ the phase before main()
// A field may be a namespace-scope object: constructed, converted, filled or loaded while the
// program's static initialisers run. Library state that is itself initialised dynamically
// (a table held in a static data member of a class template, say) may not exist yet at that
// point. A fixed family of small plans - one per stack (construct, look up, copy, dump, load)
// and one per conversion pair (construct, convert, look up, convert back) - is executed by a
// static object of THIS translation unit whose init_priority places it after the adapters'
// registrars and before every initialiser of default priority. The results are kept; the
// `premain` profile reports them and requires that the same plan, executed again after main()
// has started, observes exactly the same.
struct PreMainEntry {
    Plan plan;
    RunResult res;
};
std::vector<PreMainEntry> *g_premain = nullptr;

std::vector<Plan> premain_plans()
{
    std::vector<Plan> v;
    auto base = [&](uint64_t seed) {
        Plan p;
        p.property = "C05";
        p.profile = "premain";
        p.seed = seed;
        p.nslots = 3;
        p.getbuf = 64;
        p.putbuf = 64;
        p.nice = 1;
        p.vmode = VAL_FINITE;
        p.index = (int)v.size();
        return p;
    };
    auto mk = [](int kind, int a, int b, int stack, uint64_t vs) {
        Op o;
        o.kind = kind;
        o.a = a;
        o.b = b;
        o.stack = stack;
        o.vseed = vs & 0xffffffffffffull;
        return o;
    };
    auto ext_of = [](const StackDesc &d) {
        static const size_t e4[] = {3, 2, 4, 2};
        std::vector<size_t> e;
        if (d.shape == SHAPE_BARE)
            e.push_back(5);
        else if (d.shape == SHAPE_LAYOUT)
            e.assign(e4, e4 + d.N);
        return e;
    };
    for (int i = 0; i < g_nstacks; ++i) {
        const StackDesc &d = g_stacks[i];
        if (!ops_of(i).has_core || d.device)
            continue;
        Plan p = base(1000 + (uint64_t)i);
        Op c = mk(OP_CONSTRUCT, 0, 0, i, mix64(77, (uint64_t)i));
        c.ext = ext_of(d);
        p.ops.push_back(c);
        p.ops.push_back(mk(OP_LOOKUP, 0, 0, -1, mix64(78, (uint64_t)i)));
        p.ops.push_back(mk(OP_LOOKUP, 0, 0, -1, mix64(79, (uint64_t)i)));
        p.ops.push_back(mk(OP_COPY_CTOR, 1, 0, -1, 2));
        p.ops.push_back(mk(OP_WRITE, 1, 0, -1, mix64(80, (uint64_t)i)));
        if (ops_of(i).has_io) {
            p.ops.push_back(mk(OP_DUMP, 1, 0, -1, 5));
            p.ops.push_back(mk(OP_LOAD, 2, 0, i, 6));
            p.ops.push_back(mk(OP_LOOKUP, 2, 0, -1, mix64(81, (uint64_t)i)));
        }
        v.push_back(p);
    }
    for (int k = 0; k < g_nconv; ++k) {
        int dd = g_conv_pairs[k][0], sd = g_conv_pairs[k][1];
        if (!ops_of(dd).has_core || !ops_of(sd).has_core || !ops_of(dd).conv[sd].copy || g_stacks[sd].device)
            continue;
        Plan p = base(5000 + (uint64_t)k);
        Op c = mk(OP_CONSTRUCT, 0, 0, sd, mix64(90, (uint64_t)k));
        c.ext = ext_of(g_stacks[sd]);
        p.ops.push_back(c);
        p.ops.push_back(mk(OP_CONVERT_COPY, 1, 0, dd, 4));
        if (!g_stacks[dd].device)
            p.ops.push_back(mk(OP_LOOKUP, 1, 0, -1, mix64(91, (uint64_t)k)));
        if (ops_of(sd).conv[dd].copy && !g_stacks[dd].device) {
            p.ops.push_back(mk(OP_CONVERT_COPY, 2, 1, sd, 6));
            p.ops.push_back(mk(OP_LOOKUP, 2, 0, -1, mix64(92, (uint64_t)k)));
        }
        v.push_back(p);
    }
    return v;
}

// The mirror image: the phase AFTER main() has returned. The same fixed plans are executed in
// main() (so that whatever the library creates lazily - function-local statics, thread_local
// scratch buffers - exists), main() returns, the main thread's thread_local objects and every
// static object constructed after the runner are destroyed, and then the runner's own
// destructor executes the plans again: a field that is a static object may dump, convert or
// copy itself from its destructor ("save on exit"). Results are printed from there.
struct PostMain {
    bool active = false;
    uint64_t a = 0, b = 0;
    int replay_index = -1;
    std::string property;
    Progress *prog = nullptr;
    Disabled *dis = nullptr;
    std::vector<uint64_t> obs_in_main;
};
PostMain *g_postmain = nullptr; // allocated in main(), never freed

void postmain_phase();

struct PreMainRunner {
    ~PreMainRunner()
    {
        if (g_postmain && g_postmain->active)
            postmain_phase();
    }
    PreMainRunner()
    {
        static std::vector<PreMainEntry> store;
        static Progress dummy;
        Disabled dis;
        Counters cnt;
        for (auto &p : premain_plans()) {
            PreMainEntry e;
            e.plan = p;
            e.res = run_plan_once(p, dis, cnt, &dummy);
            store.push_back(e);
        }
        g_premain = &store;
    }
};
PreMainRunner g_premain_runner __attribute__((init_priority(60000)));

void postmain_phase()
{
    PostMain &pm = *g_postmain;
    Counters cnt;
    if (!g_premain)
        return;
    if (pm.replay_index >= 0) {
        if ((size_t)pm.replay_index < g_premain->size()) {
            Plan p = (*g_premain)[(size_t)pm.replay_index].plan;
            RunResult rr = run_plan(p, *pm.dis, cnt, pm.prog);
            if (rr.ok && !pm.obs_in_main.empty() && rr.obs != pm.obs_in_main[0]) {
                rr.ok = false;
                rr.v.key = std::string("postmain-diverge:") + (p.ops[0].stack >= 0 ? g_stacks[p.ops[0].stack].id : "-") + ":" + OP_NAMES[p.ops.back().kind];
                rr.v.detail = "the same plan observed different values inside main() and after main() had returned";
            } else if (!rr.ok)
                rr.v.key = "postmain-" + rr.v.key;
            if (rr.ok)
                std::printf("REPLAY ok obs=%016llx steps=%llu\n", (unsigned long long)rr.obs, (unsigned long long)rr.steps);
            else
                std::printf("REPLAY VIOL key=%s op=%d :: %s\n", rr.v.key.c_str(), rr.v.op, rr.v.detail.c_str());
        }
        std::fflush(stdout);
        return;
    }
    uint64_t steps = 0;
    for (uint64_t i = pm.a; i < pm.b; ++i) {
        if (i >= g_premain->size()) {
            std::printf("RUN %llu 0 0000000000000000 0000000000000000 0 ok\n", (unsigned long long)i);
            continue;
        }
        Plan p = (*g_premain)[i].plan;
        pm.prog->run = i;
        pm.prog->seed = p.seed;
        pm.prog->op = 0;
        RunResult rr = run_plan(p, *pm.dis, cnt, pm.prog);
        steps += rr.steps;
        cnt.inc("probe.plan_executed_after_main_returned");
        if (rr.ok && rr.obs != pm.obs_in_main[i - pm.a]) {
            rr.ok = false;
            rr.v.key = std::string("postmain-diverge:") + (p.ops[0].stack >= 0 ? g_stacks[p.ops[0].stack].id : "-") + ":" + OP_NAMES[p.ops.back().kind];
            rr.v.detail = "the same plan observed different values inside main() and after main() had returned";
            rr.v.op = -1;
        } else if (!rr.ok)
            rr.v.key = "postmain-" + rr.v.key;
        if (rr.ok)
            std::printf("RUN %llu %llu %016llx %016llx 1 ok\n", (unsigned long long)i, (unsigned long long)p.seed, (unsigned long long)rr.obs, (unsigned long long)rr.caseh);
        else {
            std::printf("RUN %llu %llu - - 0 VIOL key=%s op=%d :: %s\n", (unsigned long long)i, (unsigned long long)p.seed, rr.v.key.c_str(), rr.v.op, rr.v.detail.c_str());
            cnt.inc("steps", steps);
            std::printf("STATS %s\n", cnt.json().c_str());
            std::printf("RESTART\n");
            std::fflush(stdout);
            _exit(0);
        }
    }
    cnt.inc("steps", steps);
    std::printf("STATS %s\n", cnt.json().c_str());
    std::printf("DONE\n");
    std::fflush(stdout);
}

// verdict for pre-main plan i: what it observed then, and whether the same plan observes the same now
RunResult eval_premain(size_t i, Disabled &dis, Counters &cnt, Progress *prog)
{
    RunResult bad;
    if (!g_premain || i >= g_premain->size()) {
        bad.ok = true;
        return bad;
    }
    const PreMainEntry &e = (*g_premain)[i];
    cnt.inc("probe.plan_executed_before_main");
    if (!e.res.ok) {
        RunResult r = e.res;
        r.v.key = "premain-" + r.v.key;
        r.v.detail = "executed while static initialisers were still running: " + r.v.detail;
        return r;
    }
    RunResult now = run_plan(e.plan, dis, cnt, prog);
    if (!now.ok)
        return now;
    if (now.obs != e.res.obs) {
        now.ok = false;
        int st = e.plan.ops.empty() ? -1 : e.plan.ops[0].stack;
        now.v.key = std::string("premain-diverge:") + (st >= 0 ? g_stacks[st].id : "-") + ":" + OP_NAMES[e.plan.ops.back().kind];
        now.v.detail = "the same plan observed different values before main() and after it started";
        now.v.op = -1;
    }
    now.nontrivial = true;
    return now;
}

}

int main(int argc, char **argv)
{
    Args args(argc, argv);
    std::setvbuf(stdout, nullptr, _IOLBF, 0);
    Disabled dis;
    dis.parse(args.str("disable"));
    Counters cnt;
    Progress *prog = map_progress(args.str("progress"));
    std::string property = args.str("property", "C12"), profile = args.str("profile", "ownership");
    bool thorough = args.str("tier", "quick") == "thorough";
    uint64_t master = args.u64("seed", 1);

    if (args.has("replay")) {
        std::ifstream in(args.str("replay"));
        if (!in) {
            std::printf("ERROR cannot open replay file\n");
            return 2;
        }
        Plan p;
        std::string expect;
        if (!parse_plan(in, p, expect)) {
            std::printf("ERROR cannot parse replay file\n");
            return 2;
        }
        prog->run = 0;
        prog->seed = p.seed;
        if (p.profile == "postmain" && p.index >= 0 && g_premain && (size_t)p.index < g_premain->size()) {
            // in main(): once, so that lazily created library state exists; the verdict comes
            // from the runner's destructor after main() has returned
            g_postmain = new PostMain();
            g_postmain->replay_index = p.index;
            g_postmain->prog = prog;
            g_postmain->dis = new Disabled(dis);
            RunResult first = run_plan((*g_premain)[(size_t)p.index].plan, dis, cnt, prog);
            if (!first.ok) {
                std::printf("REPLAY VIOL key=%s op=%d :: %s\n", first.v.key.c_str(), first.v.op, first.v.detail.c_str());
                return 0;
            }
            g_postmain->obs_in_main.push_back(first.obs);
            g_postmain->active = true;
            return 0;
        }
        RunResult rr = (p.profile == "premain" && p.index >= 0) ? eval_premain((size_t)p.index, dis, cnt, prog) : run_plan(p, dis, cnt, prog);
        if (rr.ok)
            std::printf("REPLAY ok obs=%016llx steps=%llu\n", (unsigned long long)rr.obs, (unsigned long long)rr.steps);
        else
            std::printf("REPLAY VIOL key=%s op=%d :: %s\n", rr.v.key.c_str(), rr.v.op, rr.v.detail.c_str());
        if (args.has("counters"))
            std::printf("STATS %s\n", cnt.json().c_str());
        return 0;
    }

    std::string label = property + "/" + profile;
    if (args.has("count-sweep")) {
        uint64_t total = 0;
        if (profile == "ownsweep")
            total = own_total(thorough, dis);
        else if (profile == "allocsweep")
            total = alloc_total(thorough, dis);
        else if (profile == "bigsweep")
            total = big_items(property, thorough, dis).size() * 8;
        else if (profile == "premain" || profile == "postmain")
            total = g_premain ? g_premain->size() : 0;
        else
            sweep_items(profile, thorough, dis, total);
        std::printf("SWEEP %llu\n", (unsigned long long)total);
        return 0;
    }
    if (args.has("emit-plan")) {
        uint64_t i = args.u64("emit-plan");
        Plan p = gen_plan(property, profile, run_seed(master, label.c_str(), i), thorough, dis, i);
        std::fputs(plan_text(p).c_str(), stdout);
        return 0;
    }

    uint64_t a = 0, b = 0;
    {
        std::string r = args.str("runs", "0:100");
        auto c = r.find(':');
        a = std::strtoull(r.c_str(), nullptr, 10);
        b = std::strtoull(r.c_str() + c + 1, nullptr, 10);
    }
    if (profile == "postmain") {
        g_postmain = new PostMain();
        g_postmain->a = a;
        g_postmain->b = b;
        g_postmain->prog = prog;
        g_postmain->dis = new Disabled(dis);
        for (uint64_t i = a; i < b; ++i) {
            uint64_t o = 0;
            if (g_premain && i < g_premain->size()) {
                prog->run = i;
                RunResult rr = run_plan((*g_premain)[i].plan, dis, cnt, prog);
                o = rr.obs;
                if (!rr.ok) {
                    // (not expected: the same plans are judged by the premain profile)
                    std::printf("RUN %llu 0 - - 0 VIOL key=%s op=%d :: %s\n", (unsigned long long)i, rr.v.key.c_str(), rr.v.op, rr.v.detail.c_str());
                    std::printf("STATS %s\n", cnt.json().c_str());
                    std::printf("RESTART\n");
                    std::fflush(stdout);
                    _exit(0);
                }
            }
            g_postmain->obs_in_main.push_back(o);
        }
        g_postmain->active = true;
        return 0; // the rest happens after main()
    }
    uint64_t steps = 0;
    for (uint64_t i = a; i < b; ++i) {
        uint64_t rs = run_seed(master, label.c_str(), i);
        prog->run = i;
        prog->seed = rs;
        prog->op = 0;
        Plan p = gen_plan(property, profile, rs, thorough, dis, i);
        RunResult rr = profile == "premain" ? eval_premain((size_t)i, dis, cnt, prog) : run_plan(p, dis, cnt, prog);
        steps += rr.steps;
        if (rr.ok)
            std::printf("RUN %llu %llu %016llx %016llx %d ok\n", (unsigned long long)i, (unsigned long long)rs, (unsigned long long)rr.obs,
                        (unsigned long long)rr.caseh, rr.nontrivial ? 1 : 0);
        else {
            std::printf("RUN %llu %llu - - 0 VIOL key=%s op=%d :: %s\n", (unsigned long long)i, (unsigned long long)rs, rr.v.key.c_str(), rr.v.op,
                        rr.v.detail.c_str());
            // A run that violated the model may have damaged this process's heap; nothing
            // may be carried into the next run, so the next run gets a fresh process.
            cnt.inc("steps", steps);
            std::printf("STATS %s\n", cnt.json().c_str());
            std::printf("RESTART\n");
            std::fflush(stdout);
            _exit(0);
        }
    }
    cnt.inc("steps", steps);
    std::printf("STATS %s\n", cnt.json().c_str());
    std::printf("DONE\n");
    return 0;
}
