// The "iofault" world (C08): for a seeded set of dumps of every pool stack the
// fault space is enumerated completely - every truncation point, every failing
// read index, every header/footer/tag/width word x replacement set, every
// incompatible ordered pair of stacks. Each case must end in a C++ exception:
// never a returned field, a crash, an assertion, a spin, a leak, or (under
// valgrind) a decision on uninitialised data.
#include <algorithm>
#include <cstdio>
#include <exception>
#include <fstream>
#include <iostream>
#include <new>
#include <stdexcept>

#include <valgrind/memcheck.h>

#include "../model/model.hpp"
#include "../seams/sim_alloc.hpp"
#include "../seams/sim_stream.hpp"
#include <cerrno>
#include <set>
#include "common.hpp"

using namespace sim;

namespace {

enum CaseKind : int { K_TRUNC, K_TEAR, K_IOTHROW, K_WORD, K_PAIR, K_PRESTATE, K_NKINDS };
const char *const KIND_NAMES[K_NKINDS] = {"trunc", "tear", "iothrow", "word", "pair", "prestate"};

struct DumpSpec {
    int stack = -1;
    uint64_t dseed = 0;
    int getbuf = 64, putbuf = 64, exc = 0, pre = 0, post = 0, seek = 0;
    int en = 0; // errno as the loading thread finds it (left over from an earlier, unrelated call)
    std::vector<size_t> ext;
};

struct Case {
    int kind = K_TRUNC;
    long at = 0; // trunc/tear: prefix length; iothrow: refill index; word: byte offset
    uint32_t value = 0; // word: replacement; prestate: state bits the stream is already in (1 fail, 2 bad, 4 eof)
    int reader = -1; // pair: reader stack
};

struct Unit {
    DumpSpec d;
    int kind;
};

std::string case_text(const DumpSpec &d, const Case &c)
{
    std::ostringstream o;
    o << "# covfie-sim replay v1\nworld iofault\n";
    o << "dump stack=" << g_stacks[d.stack].id << " dseed=" << d.dseed << " getbuf=" << d.getbuf << " putbuf=" << d.putbuf << " exc=" << d.exc
      << " pre=" << d.pre << " post=" << d.post << " seek=" << d.seek << " en=" << d.en << " ext=";
    for (size_t i = 0; i < d.ext.size(); ++i)
        o << (i ? "x" : "") << d.ext[i];
    if (d.ext.empty())
        o << "-";
    o << "\n";
    o << "case kind=" << KIND_NAMES[c.kind] << " at=" << c.at << " value=" << c.value;
    if (c.reader >= 0)
        o << " reader=" << g_stacks[c.reader].id;
    o << "\n";
    return o.str();
}

struct Prepared {
    DumpSpec d;
    ModelField model;
    Bytes file; // pre + dump + post
    size_t start = 0, len = 0;
    ParsedDump pd;
    bool ok = false;
    std::string error;
    size_t clean_refills = 0;
};

void *raw_alloc(const SlotOps &o)
{
    return std::aligned_alloc(std::max<size_t>(o.obj_align, 16), (o.obj_size + 63) / 64 * 64 + 64);
}

// Build the field, dump it through the simulated stream (optionally torn at `tear`).
bool make_dump(const DumpSpec &d, Prepared &p, long tear, Bytes *torn_out)
{
    const StackDesc &sd = g_stacks[d.stack];
    const SlotOps &o = ops_of(d.stack);
    p.d = d;
    Rng r(d.dseed);
    Rng rc = r.fork("cfg"), rv = r.fork("val"), rj = r.fork("junk");
    // neither stored scalars nor configuration scalars may look like format words
    // (the format is not self-delimiting, see looks_like_format_word)
    for (int attempt = 0; attempt < 64; ++attempt) {
        gen_cfgs(sd, d.ext, rc, false, VAL_ANY, p.model);
        bool clean = true;
        for (auto &c : p.model.cfg)
            for (size_t i = 0; i + 4 <= c.size(); i += 4) {
                uint32_t w;
                std::memcpy(&w, &c[i], 4);
                if (looks_like_format_word(w))
                    clean = false;
            }
        if (clean)
            break;
    }
    gen_values(sd, rv, VAL_ANY, true, p.model);
    void *mem = raw_alloc(o);
    bool ok = true;
    try {
        o.construct(mem, p.model);
    } catch (...) {
        std::free(mem);
        p.error = "construct threw";
        return false;
    }
    Bytes body;
    {
        SimOStreamBuf sb(body, (size_t)d.putbuf, tear);
        std::ostream os(&sb);
        try {
            o.dump(mem, os);
            os.flush();
        } catch (...) {
            if (tear < 0) {
                ok = false;
                p.error = "dump threw";
            }
        }
        if (tear < 0 && !os.good()) {
            ok = false;
            p.error = "ostream bad after dump";
        }
    }
    o.destroy(mem);
    std::free(mem);
    if (!ok)
        return false;
    if (tear >= 0) {
        if (torn_out)
            *torn_out = body;
        return true;
    }
    p.file.clear();
    for (int i = 0; i < d.pre; ++i)
        p.file.push_back((uint8_t)rj.next());
    p.start = p.file.size();
    p.file.insert(p.file.end(), body.begin(), body.end());
    p.len = body.size();
    for (int i = 0; i < d.post; ++i)
        p.file.push_back((uint8_t)rj.next());
    if (!format_parse(sd, body, 0, p.pd) || p.pd.end != body.size()) {
        p.error = "dump does not follow the format grammar: " + p.pd.error;
        return false; // C07's business; C08 cannot locate the words
    }
    p.ok = true;
    return true;
}

struct Outcome {
    enum { THREW, RETURNED, NOPROGRESS } what = THREW;
    std::string ex;
    bool leak = false;
    size_t refills = 0;
};

int g_errno_before_load = 0; // ambient state of the loading thread (set per dump)
Outcome try_load(int reader, const Bytes &data, size_t start, size_t limit, int getbuf, int exc, long throw_refill, size_t budget, bool seekable = false, unsigned prestate = 0,
                 bool keep_accounting = false)
{
    Outcome out;
    const SlotOps &o = ops_of(reader);
    if (!keep_accounting)
        alloc::begin_run();
    void *mem = raw_alloc(o);
    SimIStreamBuf sb(data, start, limit, (size_t)getbuf, throw_refill, seekable);
    sb.refill_budget = budget;
    std::istream is(&sb);
    if (exc == 1)
        is.exceptions(std::ios::badbit);
    else if (exc == 2)
        is.exceptions(std::ios::badbit | std::ios::failbit);
    if (prestate) {
        // the stream the loader is handed has failed before (an ifstream on a file that
        // could not be opened, a stream left failed by an earlier extraction or seek)
        is.exceptions(std::ios::goodbit);
        is.setstate(((prestate & 1) ? std::ios::failbit : std::ios::goodbit) | ((prestate & 2) ? std::ios::badbit : std::ios::goodbit) |
                    ((prestate & 4) ? std::ios::eofbit : std::ios::goodbit));
    }
    alloc::begin_op(0);
    bool constructed = false;
    errno = g_errno_before_load;
    try {
        o.load(mem, is);
        constructed = true;
        out.what = Outcome::RETURNED;
    } catch (const std::bad_alloc &) {
        out.ex = "bad_alloc";
    } catch (const std::exception &e) {
        out.ex = e.what();
    } catch (const SimIoError &) {
        out.ex = "SimIoError (stream's own exception escaped)";
    } catch (...) {
        out.ex = "unknown";
    }
    alloc::end_op();
    while (alloc::depth() > 0)
        alloc::leave();
    if (sb.budget_exhausted)
        out.what = Outcome::NOPROGRESS;
    if (constructed)
        o.destroy(mem);
    std::free(mem);
    out.refills = sb.refills;
    out.leak = alloc::live_blocks() != 0;
    return out;
}

struct Ctx {
    Counters cnt;
    Progress *prog;
    Disabled dis;
    bool under_valgrind = false;
    unsigned vg_errors = 0;
    uint64_t cases = 0;
    std::set<std::string> reported;
    std::set<uint64_t> distinct;
};

// returns the violation key ("" = the case was rejected as it must be)
std::string run_case(Ctx &cx, const Prepared &p, const Case &c, std::string &detail)
{
    const StackDesc &sd = g_stacks[p.d.stack];
    int reader = p.d.stack;
    const Bytes *data = &p.file;
    Bytes altered;
    size_t limit = p.file.size();
    long thr = 0;
    unsigned prestate = 0;
    switch (c.kind) {
    case K_TRUNC:
        limit = p.start + (size_t)c.at;
        break;
    case K_TEAR: {
        // a writer interrupted at byte `at`: re-run the dump against a device that stops there
        Prepared tmp;
        Bytes torn;
        DumpSpec d2 = p.d;
        if (!make_dump(d2, tmp, c.at, &torn)) {
            detail = "torn dump could not be produced";
            return std::string("harness:") + sd.id + ":tear";
        }
        altered.assign(p.file.begin(), p.file.begin() + p.start);
        altered.insert(altered.end(), torn.begin(), torn.end());
        if (torn.size() != (size_t)c.at || !std::equal(torn.begin(), torn.end(), p.file.begin() + p.start)) {
            detail = "bytes of an interrupted dump are not a prefix of the complete dump";
            return std::string("torn-not-prefix:") + sd.id + ":tear";
        }
        data = &altered;
        limit = altered.size();
        break;
    }
    case K_IOTHROW:
        thr = c.at;
        break;
    case K_WORD:
        altered = p.file;
        for (int i = 0; i < 4; ++i)
            altered[p.start + (size_t)c.at + i] = (uint8_t)(c.value >> (8 * i));
        data = &altered;
        break;
    case K_PAIR:
        break;
    case K_PRESTATE:
        prestate = c.value;
        break;
    }
    if (c.reader >= 0)
        reader = c.reader; // a different (compatible or incompatible) field type does the loading
    size_t budget = 20 * (p.file.size() / (size_t)std::max(p.d.getbuf, 1) + 8);
    Outcome out = try_load(reader, *data, p.start, limit, p.d.getbuf, p.d.exc, thr, budget, p.d.seek != 0, prestate);
    if (out.leak) {
        // One-time allocations (lazily built tables, immortal caches) and single instances
        // that are replaced (a "last error" string) are not leaks: only residue that keeps
        // GROWING when the same case is repeated, without forgetting the earlier blocks, is.
        Outcome o2 = try_load(reader, *data, p.start, limit, p.d.getbuf, p.d.exc, thr, budget, p.d.seek != 0, prestate, true);
        size_t l2 = alloc::live_blocks();
        out = try_load(reader, *data, p.start, limit, p.d.getbuf, p.d.exc, thr, budget, p.d.seek != 0, prestate, true);
        size_t l3 = alloc::live_blocks();
        out.leak = l3 > l2;
        (void)o2;
        if (!out.leak)
            cx.cnt.inc("observed.one_time_allocation_kept_by_the_library");
    }
    ++cx.cases;
    cx.cnt.inc(std::string("cases.") + KIND_NAMES[c.kind]);
    if (c.kind != K_PAIR && c.reader >= 0)
        cx.cnt.inc("probe.fault_met_by_compatible_reader_of_another_type");
    std::string kn = KIND_NAMES[c.kind];
    const char *rid = g_stacks[reader].id;
    if (cx.under_valgrind) {
        unsigned e = VALGRIND_COUNT_ERRORS;
        if (e != cx.vg_errors) {
            cx.vg_errors = e;
            detail = "valgrind memcheck reported an error during this load (see stderr): decision on uninitialised data or invalid access";
            return std::string("uninit:") + rid + ":" + kn;
        }
    }
    if (out.what == Outcome::NOPROGRESS) {
        detail = "reader kept reading a dead stream (refill budget exhausted)";
        return std::string("no-progress:") + rid + ":" + kn;
    }
    if (out.what == Outcome::RETURNED) {
        detail = "constructor returned a field";
        return std::string("no-throw:") + rid + ":" + kn;
    }
    if (out.leak) {
        detail = "blocks allocated during the rejected load are still live";
        return std::string("leak:") + rid + ":" + kn;
    }
    if (const char *v = alloc::take_violation()) {
        detail = v;
        return std::string(v) + ":" + rid + ":" + kn;
    }
    cx.cnt.inc(out.ex == "bad_alloc" ? "rejected.bad_alloc" : (out.ex.rfind("SimIoError", 0) == 0 ? "rejected.stream_exception" : "rejected.library_exception"));
    return "";
}

constexpr size_t BIG_DUMP = 200000; // dumps longer than this have their fault points sampled
void enumerate_for(const Prepared &p, int kind, Rng &r, bool thorough, std::vector<Case> &cases);

// Readers that must accept the unaltered dump: the writer's own type (-1) and every
// type with the same on-disk signature (other interpolator, other float width, ...)
// whose fault-free load of this dump succeeds.
std::vector<int> accepting_readers(const Prepared &p, bool thorough)
{
    std::vector<int> v{-1};
    std::string sig = format_signature(g_stacks[p.d.stack]);
    for (int rdr = 0; rdr < g_nstacks; ++rdr) {
        if (rdr == p.d.stack || !ops_of(rdr).has_io || !ops_of(rdr).has_core || g_stacks[rdr].device)
            continue;
        if (g_stacks[rdr].tier == 1 && !thorough)
            continue;
        if (format_signature(g_stacks[rdr]) != sig || std::strcmp(g_stacks[rdr].norm, g_stacks[p.d.stack].norm) != 0)
            continue;
        Outcome o = try_load(rdr, p.file, p.start, p.file.size(), p.d.getbuf, p.d.exc, 0, 0);
        if (o.what == Outcome::RETURNED)
            v.push_back(rdr);
    }
    return v;
}

void enumerate(const Prepared &p, int kind, Rng &r, bool thorough, std::vector<Case> &cases)
{
    if (kind == K_PAIR || kind == K_TEAR) {
        enumerate_for(p, kind, r, thorough, cases);
        return;
    }
    std::vector<int> readers = accepting_readers(p, thorough);
    if (p.len > BIG_DUMP && readers.size() > 2) {
        // a large dump: the writer's own type and one reader of the other float width
        int other = readers[1];
        for (size_t i = 1; i < readers.size(); ++i)
            if (g_stacks[readers[i]].storage != g_stacks[p.d.stack].storage) {
                other = readers[i];
                break;
            }
        readers = {-1, other};
    }
    for (int rdr : readers) {
        std::vector<Case> one;
        enumerate_for(p, kind, r, thorough, one);
        for (auto &c : one) {
            c.reader = rdr;
            cases.push_back(c);
        }
    }
}

// Large dumps: truncation points are sampled, not enumerated - the first bytes, every format
// word and its neighbourhood, the last bytes, both sides of every 2^16-scalar and 1 MiB
// boundary of the payload and of the file (where block-wise readers change block), and
// `nrandom` seeded offsets.
std::vector<size_t> sampled_offsets(const Prepared &p, Rng &r, int nrandom)
{
    std::set<size_t> o;
    auto add = [&](long long b) {
        if (b >= 0 && (size_t)b < p.len)
            o.insert((size_t)b);
    };
    for (int b = 0; b < 40; ++b)
        add(b);
    for (auto &w : p.pd.words)
        for (int k = -1; k <= 4; ++k)
            add((long long)w.off + k);
    for (int b = 1; b <= 64; ++b)
        add((long long)p.len - b);
    size_t w = p.pd.width ? p.pd.width : 4;
    for (size_t blk : {(size_t)65536 * w, (size_t)1 << 20, (size_t)(1 << 20) * w}) {
        int n = 0;
        for (size_t m = blk; m < p.len && n < 3; m += blk, ++n)
            for (int k = -1; k <= 1; ++k) {
                add((long long)(p.pd.data_off + m) + k);
                add((long long)m + k);
            }
        size_t last = (p.len / blk) * blk;
        for (int k = -1; k <= 1; ++k)
            add((long long)last + k);
    }
    for (int k = 0; k < nrandom; ++k)
        add((long long)r.below(p.len));
    return std::vector<size_t>(o.begin(), o.end());
}

void enumerate_for(const Prepared &p, int kind, Rng &r, bool thorough, std::vector<Case> &cases)
{
    const StackDesc &sd = g_stacks[p.d.stack];
    switch (kind) {
    case K_TRUNC:
        if (p.len > BIG_DUMP) {
            for (size_t b : sampled_offsets(p, r, 48))
                cases.push_back(Case{K_TRUNC, (long)b, 0, -1});
            break;
        }
        for (size_t b = 0; b < p.len; ++b)
            cases.push_back(Case{K_TRUNC, (long)b, 0, -1});
        break;
    case K_TEAR:
        if (p.len > BIG_DUMP) {
            for (size_t b : sampled_offsets(p, r, 4))
                if (b % 7 == 0 || b + 64 > p.len)
                    cases.push_back(Case{K_TEAR, (long)b, 0, -1});
            break;
        }
        // same byte strings as K_TRUNC, produced by really interrupting the writer;
        // every 5th offset in the quick tier, every offset in the thorough tier
        for (size_t b = 0; b < p.len; b += thorough ? 1 : 5)
            cases.push_back(Case{K_TEAR, (long)b, 0, -1});
        break;
    case K_IOTHROW:
        if (p.len > BIG_DUMP && p.clean_refills > 64) {
            std::set<size_t> ns;
            for (size_t n = 1; n <= 8; ++n)
                ns.insert(n);
            for (size_t n = p.clean_refills - 4; n <= p.clean_refills; ++n)
                ns.insert(n);
            for (int k = 0; k < 24; ++k)
                ns.insert(1 + (size_t)r.below(p.clean_refills));
            for (size_t n : ns)
                cases.push_back(Case{K_IOTHROW, (long)n, 0, -1});
            break;
        }
        for (size_t n = 1; n <= p.clean_refills; ++n)
            cases.push_back(Case{K_IOTHROW, (long)n, 0, -1});
        break;
    case K_WORD: {
        std::vector<uint32_t> tags;
        for (int k = 0; k <= LK_DEREF; ++k)
            if (fm_tag((LayerKind)k))
                tags.push_back(fm_tag((LayerKind)k));
        tags.push_back(FM_TAG_FIELD);
        for (auto &w : p.pd.words) {
            if (w.kind == W_COUNT)
                continue; // the element count is not in the property's list of altered words
            uint32_t orig = fm_get32(p.file, p.start + w.off);
            std::vector<uint32_t> vals;
            for (int b = 0; b < 32; ++b)
                vals.push_back(orig ^ (1u << b));
            for (uint32_t t : tags) {
                vals.push_back(t);
                vals.push_back(t + FM_FOOTER_ADD);
            }
            vals.push_back(orig + FM_FOOTER_ADD);
            vals.push_back(orig - FM_FOOTER_ADD);
            vals.push_back(0);
            vals.push_back(~0u);
            vals.push_back(FM_MAGIC_HEADER);
            vals.push_back(FM_MAGIC_FOOTER);
            if (p.len > BIG_DUMP) {
                // every case reloads megabytes: a handful of replacement values per word
                vals.assign({orig ^ 1u, orig ^ 0x80000000u, orig + FM_FOOTER_ADD, orig - FM_FOOTER_ADD, 0u, ~0u, (uint32_t)r.next()});
                if (w.kind == W_WIDTH)
                    vals.push_back(orig == 4 ? 8 : 4);
            }
            if (w.kind == W_WIDTH) {
                vals.push_back(orig == 4 ? 8 : 4);
                for (uint32_t v = 0; v <= 16; ++v)
                    vals.push_back(v);
            }
            // an EMPTY payload with the other legal width is a valid dump (of the other precision)
            uint32_t skip_value = (w.kind == W_WIDTH && p.pd.count == 0) ? (orig == 4 ? 8u : 4u) : orig;
            for (int k = 0; k < 8; ++k)
                vals.push_back((uint32_t)r.next());
            std::sort(vals.begin(), vals.end());
            vals.erase(std::unique(vals.begin(), vals.end()), vals.end());
            for (uint32_t v : vals)
                if (v != orig && v != skip_value)
                    cases.push_back(Case{K_WORD, (long)w.off, v, -1});
        }
        break;
    }
    case K_PRESTATE:
        // the complete, correct dump behind a stream that is already in a failed state:
        // no read delivers anything, so nothing may be decided on what "was read"
        for (uint32_t v : {1u, 2u, 3u, 4u, 5u, 7u})
            cases.push_back(Case{K_PRESTATE, 0, v, -1});
        break;
    case K_PAIR: {
        std::string sig = format_signature(sd);
        for (int rdr = 0; rdr < g_nstacks; ++rdr) {
            if (rdr == p.d.stack || !ops_of(rdr).has_io || !ops_of(rdr).has_core)
                continue;
            if (g_stacks[rdr].tier == 1 && !thorough)
                continue;
            if (format_signature(g_stacks[rdr]) == sig)
                continue; // compatible on disk: C07's territory
            // a dump WITHOUT elements does not say how many components an element has: for
            // a reader that differs in that number only, these bytes are a valid empty dump
            if (p.pd.count == 0 && g_stacks[rdr].shape != SHAPE_NONE && sd.shape != SHAPE_NONE) {
                auto strip = [](std::string t) {
                    auto m = t.rfind('M');
                    return m == std::string::npos ? t : t.substr(0, m);
                };
                if (strip(format_signature(g_stacks[rdr])) == strip(sig))
                    continue;
            }
            cases.push_back(Case{K_PAIR, 0, 0, rdr});
        }
        break;
    }
    }
}

std::vector<size_t> gen_ext(Rng &r, const StackDesc &d, bool small)
{
    std::vector<size_t> e(d.N);
    for (;;) {
        for (int k = 0; k < d.N; ++k)
            e[k] = (size_t)r.range(1, small ? 3 : (d.N >= 3 ? 4 : 7));
        // a field without cells (what a default-constructed field is) now and then
        if (d.shape == SHAPE_LAYOUT && d.N >= 1 && r.chance(0.06))
            e[r.below(d.N)] = 0;
        if (d.shape == SHAPE_NONE || (volume(e) * d.M * scal_size(d.storage) <= (small ? 160u : 1500u) && storage_len(d, e) * d.M * scal_size(d.storage) <= 2400u))
            return e;
    }
}

// A large dump (2^18 .. 2^21 stored scalars, 1 .. 16 MiB): block-wise or staged readers
// only leave their first block on payloads like these.
std::vector<size_t> gen_big_ext(Rng &r, const StackDesc &d)
{
    std::vector<size_t> e(d.N);
    for (int attempt = 0; attempt < 200; ++attempt) {
        double scalars = std::exp2(18.0 + 3.0 * r.unit());
        double rest = scalars / (double)std::max(d.M, 1);
        for (int k = 0; k < d.N; ++k) {
            double share = std::pow(rest, 1.0 / (double)(d.N - k));
            size_t v = (size_t)std::max(2.0, std::floor(k + 1 < d.N ? share * (0.7 + 0.6 * r.unit()) : rest));
            if (r.chance(0.5))
                v |= 1;
            e[k] = v;
            rest = std::max(2.0, rest / (double)v);
        }
        if (storage_len(d, e) * (size_t)d.M <= (size_t(3) << 21))
            return e;
    }
    return std::vector<size_t>(d.N, 33);
}

DumpSpec gen_dump(uint64_t seed, int stack, int di, bool small, bool big = false)
{
    static const int chunks[] = {1, 2, 3, 4, 7, 8, 16, 64, 4096};
    static const int big_chunks[] = {4096, 8192, 65536, 1 << 20};
    DumpSpec d;
    d.stack = stack;
    Rng r(mix64(mix64(seed, (uint64_t)stack + (big ? 5000 : 1000)), (uint64_t)di));
    d.dseed = r.next() & 0xffffffffffffull;
    if (big) {
        d.getbuf = big_chunks[r.below(4)];
        d.putbuf = big_chunks[r.below(4)];
        d.exc = (int)r.below(3);
        d.pre = r.chance(0.3) ? (int)r.range(1, 9) : 0;
        d.post = r.chance(0.5) ? (int)r.range(1, 24) : 0;
        d.seek = r.chance(0.5) ? 1 : 0;
        d.ext = gen_big_ext(r, g_stacks[stack]);
        d.en = r.chance(0.4) ? EINTR : 0;
        return d;
    }
    d.getbuf = chunks[r.below(9)];
    d.putbuf = chunks[r.below(9)];
    d.exc = (int)r.below(3);
    d.pre = r.chance(0.3) ? (int)r.range(1, 9) : 0;
    d.post = r.chance(0.5) ? (int)r.range(1, 24) : 0;
    d.seek = r.chance(0.5) ? 1 : 0;
    d.ext = gen_ext(r, g_stacks[stack], small);
    {
        static const int ens[] = {EINTR, EAGAIN, ERANGE, ENOMEM, EIO};
        d.en = r.chance(0.4) ? ens[r.below(5)] : 0;
    }
    return d;
}

// one unit = all cases of one fault kind for one dump
void run_unit(Ctx &cx, uint64_t unit_index, const DumpSpec &d, int kind, bool thorough, uint64_t seed)
{
    const StackDesc &sd = g_stacks[d.stack];
    cx.prog->unit = unit_index;
    cx.prog->stack = (uint64_t)d.stack + 1;
    cx.prog->op_kind = (uint64_t)kind;
    cx.prog->op = 0;
    Prepared p;
    g_errno_before_load = d.en;
    if (!make_dump(d, p, -1, nullptr)) {
        std::printf("UNIT %llu stack=%s kind=%s cases=0 SKIP %s\n", (unsigned long long)unit_index, sd.id, KIND_NAMES[kind], p.error.c_str());
        cx.cnt.inc("units_skipped");
        return;
    }
    // the unaltered dump must load (and tells how many refills a clean load needs)
    {
        Outcome o = try_load(d.stack, p.file, p.start, p.file.size(), d.getbuf, d.exc, 0, 0);
        if (o.what != Outcome::RETURNED) {
            std::printf("VIOL unit=%llu key=clean-load-failed:%s:%s case=- :: %s\n", (unsigned long long)unit_index, sd.id, KIND_NAMES[kind], o.ex.c_str());
            return;
        }
        p.clean_refills = o.refills;
    }
    Rng r(mix64(seed, unit_index));
    std::vector<Case> cases;
    enumerate(p, kind, r, thorough, cases);
    uint64_t nviol = 0;
    for (size_t i = 0; i < cases.size(); ++i) {
        cx.prog->op = i;
        cx.prog->seed = (uint64_t)cases[i].at;
        cx.prog->fault_kind = (uint64_t)cases[i].value;
        cx.prog->run = cases[i].reader >= 0 ? (uint64_t)cases[i].reader + 1 : 0;
        std::string detail;
        watchdog_arm(cx.under_valgrind ? 30 : 5);
        std::string key = run_case(cx, p, cases[i], detail);
        watchdog_disarm();
        if (!key.empty()) {
            ++nviol;
            if (cx.reported.insert(key).second) {
                std::string txt = case_text(d, cases[i]);
                for (auto &ch : txt)
                    if (ch == '\n')
                        ch = '|';
                std::printf("VIOL unit=%llu key=%s case=%s :: %s\n", (unsigned long long)unit_index, key.c_str(), txt.c_str(), detail.c_str());
            }
        }
        Hash h;
        h.u64((uint64_t)d.stack);
        h.u64((uint64_t)kind);
        h.u64((uint64_t)cases[i].at);
        h.u64(cases[i].value);
        h.u64((uint64_t)cases[i].reader);
        h.u64(d.dseed);
        cx.distinct.insert(h.h);
    }
    // afterwards a fault-free load of the original dump must still succeed
    {
        Outcome o = try_load(d.stack, p.file, p.start, p.file.size(), d.getbuf, d.exc, 0, 0);
        if (o.what != Outcome::RETURNED)
            std::printf("VIOL unit=%llu key=clean-load-failed-after-faults:%s:%s case=- :: %s\n", (unsigned long long)unit_index, sd.id, KIND_NAMES[kind], o.ex.c_str());
    }
    cx.cnt.inc("units");
    cx.cnt.inc("dump_bytes", p.len);
    std::printf("UNIT %llu stack=%s kind=%s cases=%zu viol=%llu len=%zu\n", (unsigned long long)unit_index, sd.id, KIND_NAMES[kind], cases.size(),
                (unsigned long long)nviol, p.len);
}

}

int main(int argc, char **argv)
{
    Args args(argc, argv);
    std::setvbuf(stdout, nullptr, _IOLBF, 0);
    Ctx cx;
    cx.dis.parse(args.str("disable"));
    cx.prog = map_progress(args.str("progress"));
    cx.under_valgrind = RUNNING_ON_VALGRIND != 0;
    bool thorough = args.str("tier", "quick") == "thorough";
    uint64_t seed = args.u64("seed", 1);
    int ndumps = (int)args.u64("dumps", 2);
    bool small = args.has("small");

    if (args.has("replay")) {
        std::ifstream in(args.str("replay"));
        std::string line;
        DumpSpec d;
        Case c;
        while (std::getline(in, line)) {
            auto t = split_ws(line);
            if (t.empty() || t[0][0] == '#')
                continue;
            for (size_t i = 1; i < t.size(); ++i) {
                auto eq = t[i].find('=');
                if (eq == std::string::npos)
                    continue;
                std::string k = t[i].substr(0, eq), v = t[i].substr(eq + 1);
                if (t[0] == "dump") {
                    if (k == "stack")
                        d.stack = stack_by_id(v.c_str());
                    else if (k == "dseed")
                        d.dseed = std::strtoull(v.c_str(), nullptr, 10);
                    else if (k == "getbuf")
                        d.getbuf = std::atoi(v.c_str());
                    else if (k == "putbuf")
                        d.putbuf = std::atoi(v.c_str());
                    else if (k == "exc")
                        d.exc = std::atoi(v.c_str());
                    else if (k == "pre")
                        d.pre = std::atoi(v.c_str());
                    else if (k == "post")
                        d.post = std::atoi(v.c_str());
                    else if (k == "seek")
                        d.seek = std::atoi(v.c_str());
                    else if (k == "en")
                        d.en = std::atoi(v.c_str());
                    else if (k == "ext" && v != "-") {
                        std::stringstream ss(v);
                        std::string e;
                        while (std::getline(ss, e, 'x'))
                            d.ext.push_back((size_t)std::strtoull(e.c_str(), nullptr, 10));
                    }
                } else if (t[0] == "case") {
                    if (k == "kind") {
                        for (int q = 0; q < K_NKINDS; ++q)
                            if (v == KIND_NAMES[q])
                                c.kind = q;
                    } else if (k == "at")
                        c.at = std::atol(v.c_str());
                    else if (k == "value")
                        c.value = (uint32_t)std::strtoul(v.c_str(), nullptr, 10);
                    else if (k == "reader")
                        c.reader = stack_by_id(v.c_str());
                }
            }
        }
        if (d.stack < 0 || !ops_of(d.stack).has_io) {
            std::printf("ERROR bad replay file\n");
            return 2;
        }
        cx.prog->stack = (uint64_t)d.stack + 1;
        cx.prog->op_kind = (uint64_t)c.kind;
        g_errno_before_load = d.en;
        Prepared p;
        if (!make_dump(d, p, -1, nullptr)) {
            std::printf("REPLAY VIOL key=harness:%s:dump op=0 :: %s\n", g_stacks[d.stack].id, p.error.c_str());
            return 0;
        }
        std::string detail;
        watchdog_arm(cx.under_valgrind ? 30 : 5);
        std::string key = run_case(cx, p, c, detail);
        watchdog_disarm();
        if (key.empty())
            std::printf("REPLAY ok\n");
        else
            std::printf("REPLAY VIOL key=%s op=0 :: %s\n", key.c_str(), detail.c_str());
        return 0;
    }

    // unit list: stack x dump x kind, in a fixed order
    std::vector<Unit> units;
    for (int s = 0; s < g_nstacks; ++s) {
        const StackDesc &sd = g_stacks[s];
        if (!ops_of(s).has_io || !ops_of(s).has_core || sd.device)
            continue;
        if (sd.tier == 1 && !thorough)
            continue;
        for (int di = 0; di < ndumps; ++di) {
            DumpSpec d = gen_dump(seed, s, di, small);
            for (int k = 0; k < K_NKINDS; ++k)
                units.push_back(Unit{d, k});
        }
    }
    // large dumps: one per layout stack (the first `bigdumps` of them, rotated by the seed)
    {
        int nbig = (int)args.u64("bigdumps", 0);
        std::vector<Unit> bigunits;
        std::vector<int> cand;
        for (int s = 0; s < g_nstacks; ++s) {
            const StackDesc &sd = g_stacks[s];
            if (!ops_of(s).has_io || !ops_of(s).has_core || sd.device || sd.shape != SHAPE_LAYOUT)
                continue;
            if (sd.tier == 1 && !thorough)
                continue;
            cand.push_back(s);
        }
        for (int k = 0; k < nbig && !cand.empty(); ++k) {
            int s = cand[(size_t)(seed + (uint64_t)k * 7) % cand.size()];
            DumpSpec d = gen_dump(seed, s, k, false, true);
            for (int kind : {(int)K_TRUNC, (int)K_TEAR, (int)K_IOTHROW, (int)K_WORD, (int)K_PRESTATE})
                bigunits.push_back(Unit{d, kind});
        }
        // spread them evenly over the unit list (workers take contiguous ranges of it)
        if (!bigunits.empty()) {
            std::vector<Unit> merged;
            size_t stride = std::max<size_t>(1, units.size() / bigunits.size()), bi = 0;
            for (size_t i = 0; i < units.size(); ++i) {
                if (i % stride == 0 && bi < bigunits.size())
                    merged.push_back(bigunits[bi++]);
                merged.push_back(units[i]);
            }
            while (bi < bigunits.size())
                merged.push_back(bigunits[bi++]);
            units.swap(merged);
        }
    }
    if (args.has("emit-case")) {
        // --emit-case <unit>:<case index>: print the replay text of that case
        std::string ec = args.str("emit-case");
        uint64_t u = std::strtoull(ec.c_str(), nullptr, 10), ci = std::strtoull(ec.c_str() + ec.find(':') + 1, nullptr, 10);
        if (u >= units.size())
            return 2;
        Prepared p;
        if (!make_dump(units[u].d, p, -1, nullptr))
            return 2;
        Outcome o = try_load(units[u].d.stack, p.file, p.start, p.file.size(), units[u].d.getbuf, units[u].d.exc, 0, 0);
        p.clean_refills = o.refills;
        Rng r(mix64(seed, u));
        std::vector<Case> cases;
        enumerate(p, units[u].kind, r, thorough, cases);
        if (ci >= cases.size())
            return 2;
        std::fputs(case_text(units[u].d, cases[ci]).c_str(), stdout);
        return 0;
    }
    if (args.has("count-units")) {
        std::printf("UNITS %zu\n", units.size());
        return 0;
    }
    uint64_t a = 0, b = units.size();
    if (args.has("runs")) {
        std::string rs = args.str("runs");
        auto cpos = rs.find(':');
        a = std::strtoull(rs.c_str(), nullptr, 10);
        b = std::min<uint64_t>(b, std::strtoull(rs.c_str() + cpos + 1, nullptr, 10));
    }
    for (uint64_t u = a; u < b; ++u)
        run_unit(cx, u, units[u].d, units[u].kind, thorough, seed);
    cx.cnt.inc("cases", cx.cases);
    cx.cnt.inc("distinct_cases", cx.distinct.size());
    std::printf("STATS %s\n", cx.cnt.json().c_str());
    std::printf("DONE\n");
    return 0;
}
