// The "threads" world (C16): T tasks (real threads under the baton scheduler)
// look up values through views of one field, and write through views to
// pairwise disjoint coordinates, under seeded schedules at memory-access
// granularity. Decided: (1) race freedom by happens-before analysis over every
// recorded access, (2) bitwise equality with a sequential execution of the
// same per-task operation lists.
#include <algorithm>
#include <array>
#include <cstdio>
#include <fstream>
#include <iostream>
#include <unistd.h>

#include "../model/model.hpp"
#include "../seams/sim_alloc.hpp"
#include "../thr/simtsan.hpp"
#include "common.hpp"

using namespace sim;

namespace {

enum TOpKind : int { TO_LOOKUP, TO_WRITE, TO_READ, TO_NKINDS };
const char *const TOP_NAMES[TO_NKINDS] = {"Lookup", "Write", "Read"};
enum ViewMode : int { VM_SHARED, VM_COPY_PER_TASK, VM_BUILT_IN_TASK };
const char *const VM_NAMES[3] = {"shared", "percopy", "intask"};
enum WorkMode : int { WM_READERS, WM_WRITERS, WM_MIXED };
const char *const WM_NAMES[3] = {"readers", "writers", "mixed"};

struct TOp {
    int task = 0;
    int kind = TO_LOOKUP;
    uint64_t cell = 0; // Write/Read: lattice cell (row-major), interpreted modulo the volume and the task's ownership class
    uint64_t vseed = 0;
};

struct TPlan {
    uint64_t seed = 0;
    int stack = -1;
    std::vector<size_t> ext;
    uint64_t fseed = 0;
    int T = 2;
    int wmode = WM_READERS, vmode = VM_SHARED;
    int smode = 0;
    double yieldp = 0.01;
    uint64_t sseed = 1;
    std::vector<TOp> ops;
    std::vector<thr::Switch> switches; // explicit schedule (replay of a minimised run)
};

std::string plan_text(const TPlan &p)
{
    std::ostringstream o;
    o << "# covfie-sim replay v1\nworld threads\n";
    o << "run property=C16 seed=" << p.seed << " stack=" << g_stacks[p.stack].id << " ext=";
    for (size_t i = 0; i < p.ext.size(); ++i)
        o << (i ? "x" : "") << p.ext[i];
    o << " fseed=" << p.fseed << " T=" << p.T << " wmode=" << WM_NAMES[p.wmode] << " vmode=" << VM_NAMES[p.vmode] << " smode=" << p.smode
      << " yieldp=" << p.yieldp << " sseed=" << p.sseed << "\n";
    for (auto &op : p.ops)
        o << "op t=" << op.task << " kind=" << TOP_NAMES[op.kind] << " cell=" << op.cell << " vseed=" << op.vseed << "\n";
    for (auto &s : p.switches)
        o << "sched at=" << s.at << " to=" << s.to << "\n";
    return o.str();
}

bool parse_plan(std::istream &is, TPlan &p)
{
    std::string line;
    while (std::getline(is, line)) {
        auto t = split_ws(line);
        if (t.empty() || t[0][0] == '#')
            continue;
        std::map<std::string, std::string> kv;
        for (size_t i = 1; i < t.size(); ++i) {
            auto eq = t[i].find('=');
            if (eq != std::string::npos)
                kv[t[i].substr(0, eq)] = t[i].substr(eq + 1);
        }
        auto num = [&](const char *k) { return std::strtoull(kv[k].c_str(), nullptr, 10); };
        if (t[0] == "run") {
            p.seed = num("seed");
            p.stack = stack_by_id(kv["stack"].c_str());
            std::stringstream ss(kv["ext"]);
            std::string e;
            while (std::getline(ss, e, 'x'))
                p.ext.push_back((size_t)std::strtoull(e.c_str(), nullptr, 10));
            p.fseed = num("fseed");
            p.T = (int)num("T");
            for (int i = 0; i < 3; ++i) {
                if (kv["wmode"] == WM_NAMES[i])
                    p.wmode = i;
                if (kv["vmode"] == VM_NAMES[i])
                    p.vmode = i;
            }
            p.smode = (int)num("smode");
            p.yieldp = std::atof(kv["yieldp"].c_str());
            p.sseed = num("sseed");
        } else if (t[0] == "op") {
            TOp op;
            op.task = (int)num("t");
            for (int i = 0; i < TO_NKINDS; ++i)
                if (kv["kind"] == TOP_NAMES[i])
                    op.kind = i;
            op.cell = num("cell");
            op.vseed = num("vseed");
            p.ops.push_back(op);
        } else if (t[0] == "sched") {
            p.switches.push_back(thr::Switch{num("at"), (int)num("to")});
        }
    }
    return p.stack >= 0;
}

std::vector<size_t> gen_ext(Rng &r, const StackDesc &d)
{
    std::vector<size_t> e(d.N);
    for (;;) {
        for (int k = 0; k < d.N; ++k)
            e[k] = (size_t)r.range(2, d.N >= 3 ? 4 : 6);
        if (r.chance(0.2))
            e[r.below(d.N)] = 2;
        if (volume(e) <= 160 && storage_len(d, e) <= 512)
            return e;
    }
}

TPlan gen_plan(uint64_t seed, bool thorough, const Disabled &dis)
{
    TPlan p;
    p.seed = seed;
    Rng master(seed);
    Rng rk = master.fork("knobs"), rg = master.fork("gen"), rv = master.fork("values");
    std::vector<int> avail;
    for (int i = 0; i < g_nstacks; ++i)
        if (ops_of(i).has_thr && ops_of(i).has_core && !dis.thr(g_stacks[i]) && !dis.core(g_stacks[i]) && (thorough || g_stacks[i].tier == 0) &&
            g_stacks[i].shape != SHAPE_NONE)
            avail.push_back(i);
    if (avail.empty())
        return p;
    p.stack = avail[rk.below(avail.size())];
    const StackDesc &d = g_stacks[p.stack];
    p.ext = d.shape == SHAPE_BARE ? std::vector<size_t>{(size_t)rk.range(4, 64)} : gen_ext(rk, d);
    p.fseed = rv.next() & 0xffffffffffffull;
    static const int Ts[] = {2, 2, 3, 4, 4, 8, 16};
    p.T = Ts[rk.below(thorough ? 7 : 6)];
    p.vmode = (int)rk.below(3);
    p.wmode = d.view_writable ? (int)rk.below(3) : WM_READERS;
    static const double ps[] = {0.0, 0.001, 0.01, 0.05, 0.3};
    p.yieldp = ps[rk.below(5)];
    double u = rk.unit();
    p.smode = u < 0.8 ? 0 : (u < 0.9 ? 3 : 2);
    p.sseed = rk.next() & 0xffffffffffffull;
    int per_task_lo = 4, per_task_hi = thorough ? 32 : 16;
    if (p.T >= 8)
        per_task_hi = 8;
    for (int t = 0; t < p.T; ++t) {
        int n = (int)rg.range(per_task_lo, per_task_hi);
        bool writer = p.wmode == WM_WRITERS || (p.wmode == WM_MIXED && t % 2 == 0);
        for (int i = 0; i < n; ++i) {
            TOp op;
            op.task = t;
            op.vseed = rv.next() & 0xffffffffffffull;
            op.cell = rg.next() & 0xffffff;
            if (p.wmode == WM_READERS)
                op.kind = TO_LOOKUP;
            else if (writer)
                op.kind = rg.chance(0.6) ? TO_WRITE : TO_READ;
            else
                op.kind = TO_READ;
            p.ops.push_back(op);
        }
    }
    // interleave the per-task lists in the plan text (order inside a task is what matters)
    return p;
}

struct Result {
    std::string key, detail;
    bool ok = true;
    uint64_t sched_hash = 0, obs = 0;
    thr::RunStats st;
    std::vector<thr::Switch> taken;
};

// Cells are partitioned so that concurrent writers never share one:
//   class t (0..T-1): owned by task t (only t writes and reads them)
//   class T: shared read-only cells every task may read
size_t owned_cell(const TPlan &p, size_t vol, int task, uint64_t raw, bool shared_ro)
{
    size_t classes = (size_t)p.T + 1;
    size_t cls = shared_ro ? (size_t)p.T : (size_t)task;
    size_t per = (vol + classes - 1 - cls) / classes; // cells c with c % classes == cls
    if (per == 0)
        return (size_t)-1;
    return (raw % per) * classes + cls;
}

struct Exec {
    const TPlan &p;
    const StackDesc &d;
    const SlotOps &o;
    ModelField model;
    void *obj = nullptr;
    // per task, per op: output bits
    std::vector<std::vector<std::array<uint64_t, 8>>> out;
    std::vector<std::vector<const TOp *>> lists;
    std::vector<std::vector<std::vector<double>>> coords; // sampled lookup coordinates (empty = skipped)
    Counters &cnt;

    Exec(const TPlan &pl, Counters &c)
        : p(pl)
        , d(g_stacks[pl.stack])
        , o(ops_of(pl.stack))
        , cnt(c)
    {
    }

    void build_field()
    {
        Rng r(p.fseed);
        Rng rc = r.fork("cfg"), rv = r.fork("val");
        gen_cfgs(d, p.ext, rc, true, VAL_FINITE, model);
        gen_values(d, rv, VAL_FINITE, false, model);
        obj = std::aligned_alloc(std::max<size_t>(o.obj_align, 16), (o.obj_size + 63) / 64 * 64 + 64);
        o.construct(obj, model);
    }
    void drop_field()
    {
        o.destroy(obj);
        std::free(obj);
        obj = nullptr;
    }
    void prepare_lists()
    {
        lists.assign(p.T, {});
        for (auto &op : p.ops)
            if (op.task >= 0 && op.task < p.T)
                lists[op.task].push_back(&op);
        coords.assign(p.T, {});
        out.assign(p.T, {});
        for (int t = 0; t < p.T; ++t) {
            coords[t].resize(lists[t].size());
            out[t].assign(lists[t].size(), std::array<uint64_t, 8>{});
            for (size_t i = 0; i < lists[t].size(); ++i) {
                const TOp &op = *lists[t][i];
                if (op.kind != TO_LOOKUP)
                    continue;
                Rng r(op.vseed);
                std::vector<double> x;
                if (sample_lookup(d, model, r, x)) {
                    ChainResult cr = chain_domain(d, model, x.data());
                    if (cr.in_domain && cr.exact)
                        coords[t][i] = x;
                }
            }
        }
    }
    void cell_coord(size_t cell, size_t *c) const
    {
        size_t rem = cell;
        for (int k = d.N - 1; k >= 0; --k) {
            c[k] = rem % p.ext[k];
            rem /= p.ext[k];
        }
    }
    // body of one task: executes its list through `view`
    void task_body(int t, const void *view, bool scheduled)
    {
        size_t vol = volume(p.ext);
        for (size_t i = 0; i < lists[t].size(); ++i) {
            const TOp &op = *lists[t][i];
            uint64_t *bits = out[t][i].data();
            switch (op.kind) {
            case TO_LOOKUP:
                if (coords[t][i].empty())
                    break;
                if (scheduled)
                    thr::op_boundary(true);
                o.view_lookup(view, coords[t][i].data(), bits);
                if (scheduled)
                    thr::op_boundary(false);
                break;
            case TO_WRITE:
            case TO_READ: {
                if (!d.view_writable)
                    break;
                bool shared_ro = op.kind == TO_READ && (op.vseed & 1);
                size_t cell = owned_cell(p, vol, t, op.cell, shared_ro);
                if (cell == (size_t)-1 || cell >= vol)
                    break;
                size_t c[4];
                cell_coord(cell, c);
                if (scheduled)
                    thr::op_boundary(true);
                if (op.kind == TO_WRITE) {
                    uint64_t v[4];
                    Rng r(op.vseed);
                    for (int j = 0; j < d.M; ++j)
                        v[j] = gen_float_bits(r, d.storage, VAL_FINITE);
                    o.view_write(view, c, v);
                    // read back what was just written: a writer sees its own writes
                    o.view_read(view, c, bits);
                } else
                    o.view_read(view, c, bits);
                if (scheduled)
                    thr::op_boundary(false);
                break;
            }
            }
        }
    }
};

Result run_plan(const TPlan &p, Counters &cnt, bool collect_schedule)
{
    Result res;
    const StackDesc &d = g_stacks[p.stack];
    const SlotOps &o = ops_of(p.stack);
    std::string tag = std::string(d.id) + ":" + WM_NAMES[p.wmode];
    // ---- sequential reference execution: task 0's list, then task 1's, ...
    Exec seq(p, cnt);
    seq.build_field();
    seq.prepare_lists();
    {
        void *v = o.make_view(seq.obj);
        for (int t = 0; t < p.T; ++t)
            seq.task_body(t, v, false);
        o.free_view(v);
    }
    ModelField seq_final;
    o.read_all(seq.obj, seq_final);
    seq.drop_field();
    // ---- concurrent execution under the scheduler
    Exec con(p, cnt);
    con.build_field();
    con.prepare_lists();
    void *shared = o.make_view(con.obj);
    std::vector<void *> views(p.T, nullptr);
    if (p.vmode == VM_COPY_PER_TASK)
        for (int t = 0; t < p.T; ++t)
            views[t] = o.copy_view(shared);
    thr::SchedConfig sc;
    sc.mode = p.switches.empty() ? p.smode : 1;
    sc.yield_prob = p.yieldp;
    sc.seed = p.sseed;
    sc.explicit_switches = p.switches;
    thr::RaceReport race;
    thr::run_tasks(
        p.T,
        [&](int t) {
            const void *v = shared;
            void *mine = nullptr;
            if (p.vmode == VM_COPY_PER_TASK)
                v = views[t];
            else if (p.vmode == VM_BUILT_IN_TASK) {
                mine = o.make_view(con.obj);
                v = mine;
            }
            con.task_body(t, v, true);
            if (mine)
                o.free_view(mine);
        },
        sc,
        res.st,
        race
    );
    for (void *v : views)
        if (v)
            o.free_view(v);
    o.free_view(shared);
    ModelField con_final;
    o.read_all(con.obj, con_final);
    con.drop_field();
    res.sched_hash = res.st.sched_hash;
    if (collect_schedule)
        res.taken = res.st.taken;
    Hash obs;
    for (int t = 0; t < p.T; ++t)
        for (auto &a : con.out[t])
            obs.bytes(a.data(), 64);
    res.obs = obs.h;
    cnt.inc("accesses", res.st.accesses);
    cnt.inc("tracked_accesses", res.st.tracked);
    cnt.inc("yield_points", res.st.yields);
    cnt.inc("switches", res.st.switches);
    cnt.inc("probe.preemption_inside_library_call", res.st.preempt_in_lookup);
    if (p.T >= 8 && p.vmode == VM_SHARED)
        cnt.inc("probe.T_ge_8_on_one_shared_view");
    cnt.inc(std::string("wmode.") + WM_NAMES[p.wmode]);
    cnt.inc(std::string("vmode.") + VM_NAMES[p.vmode]);
    cnt.inc(std::string("stack.") + d.id);
    if (res.st.deadlock) {
        res.ok = false;
        res.key = "deadlock:" + tag;
        res.detail = "no task runnable while some are not finished";
        return res;
    }
    if (race.found) {
        res.ok = false;
        res.key = "race:" + tag;
        std::ostringstream os;
        os << (race.write_a ? "write" : "read") << " by task " << race.tid_a << " [" << race.where_a << "] and " << (race.write_b ? "write" : "read")
           << " of " << race.size_b << " bytes by task " << race.tid_b << " [" << race.where_b << "] are unordered (" << race.count << " racy accesses in this run)";
        res.detail = os.str();
        return res;
    }
    for (int t = 0; t < p.T; ++t)
        for (size_t i = 0; i < con.out[t].size(); ++i)
            if (con.out[t][i] != seq.out[t][i]) {
                res.ok = false;
                res.key = "seq-diverge:" + tag;
                std::ostringstream os;
                os << "task " << t << " operation " << i << " (" << TOP_NAMES[con.lists[t][i]->kind] << ") obtained 0x" << std::hex << con.out[t][i][0]
                   << ", the sequential execution 0x" << seq.out[t][i][0];
                res.detail = os.str();
                return res;
            }
    if (con_final.vals != seq_final.vals || con_final.cfg != seq_final.cfg) {
        res.ok = false;
        res.key = "seq-diverge-final:" + tag;
        res.detail = "field contents after the concurrent run differ from the sequential run";
        return res;
    }
    return res;
}

}

int main(int argc, char **argv)
{
    Args args(argc, argv);
    std::setvbuf(stdout, nullptr, _IOLBF, 0);
    Disabled dis;
    dis.parse(args.str("disable"));
    Counters cnt;
    Progress *prog = map_progress(args.str("progress"));
    bool thorough = args.str("tier", "quick") == "thorough";
    uint64_t master = args.u64("seed", 1);

    if (args.has("replay")) {
        std::ifstream in(args.str("replay"));
        TPlan p;
        if (!in || !parse_plan(in, p) || !ops_of(p.stack).has_thr) {
            std::printf("ERROR bad replay file\n");
            return 2;
        }
        prog->stack = (uint64_t)p.stack + 1;
        prog->op_kind = (uint64_t)p.wmode;
        Result r = run_plan(p, cnt, args.has("emit-schedule"));
        if (args.has("emit-schedule")) {
            // the same plan with the schedule that was actually taken made explicit
            TPlan q = p;
            q.switches = r.taken;
            std::fputs(plan_text(q).c_str(), stdout);
            return 0;
        }
        if (r.ok)
            std::printf("REPLAY ok obs=%016llx sched=%016llx steps=%llu\n", (unsigned long long)r.obs, (unsigned long long)r.sched_hash,
                        (unsigned long long)r.st.accesses);
        else
            std::printf("REPLAY VIOL key=%s op=0 :: %s\n", r.key.c_str(), r.detail.c_str());
        return 0;
    }
    if (args.has("emit-plan")) {
        TPlan p = gen_plan(run_seed(master, "C16/threads", args.u64("emit-plan")), thorough, dis);
        std::fputs(plan_text(p).c_str(), stdout);
        return 0;
    }
    uint64_t a = 0, b = 0;
    {
        std::string r = args.str("runs", "0:100");
        auto c = r.find(':');
        a = std::strtoull(r.c_str(), nullptr, 10);
        b = std::strtoull(r.c_str() + c + 1, nullptr, 10);
    }
    for (uint64_t i = a; i < b; ++i) {
        uint64_t rs = run_seed(master, "C16/threads", i);
        prog->run = i;
        prog->seed = rs;
        TPlan p = gen_plan(rs, thorough, dis);
        if (p.stack < 0) {
            std::printf("RUN %llu %llu - - 0 VIOL key=harness:-:nostacks op=0 :: no stack available\n", (unsigned long long)i, (unsigned long long)rs);
            continue;
        }
        prog->stack = (uint64_t)p.stack + 1;
        prog->op_kind = (uint64_t)p.wmode;
        Result r = run_plan(p, cnt, false);
        bool nontrivial = r.st.preempt_in_lookup > 0;
        if (r.ok)
            std::printf("RUN %llu %llu %016llx %016llx %d ok\n", (unsigned long long)i, (unsigned long long)rs, (unsigned long long)r.obs,
                        (unsigned long long)r.sched_hash, nontrivial ? 1 : 0);
        else {
            std::printf("RUN %llu %llu - - 0 VIOL key=%s op=0 :: %s\n", (unsigned long long)i, (unsigned long long)rs, r.key.c_str(), r.detail.c_str());
            // racing or diverging code may have left shared state (statics, heap) behind:
            // the next run gets a fresh process
            std::printf("STATS %s\n", cnt.json().c_str());
            std::printf("RESTART\n");
            std::fflush(stdout);
            _exit(0);
        }
    }
    std::printf("STATS %s\n", cnt.json().c_str());
    std::printf("DONE\n");
    return 0;
}
